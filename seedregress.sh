#!/bin/bash
# Re-run every stored seeded change against the current checks (one scratch worktree, one scratch harness).
# usage: [ROUNDS="5 6"] seedregress.sh [out-file] [seed-dir-glob]     - prints one line per seed: CAUGHT / MISSED / SKIP (patch no longer applies)
OUT=${1:-/tmp/seedregress.out}
GLOB=${2:-*}
WT=/tmp/wt_reg
git -C /repo worktree remove --force $WT 2>/dev/null
git -C /repo worktree add --detach $WT -q || exit 2
: > $OUT
for d in /verif/seeded/$GLOB/; do
  name=$(basename $d)
  id=$(python3 -c "import json;print(json.load(open('$d/meta.json'))['property'])")
  round=$(python3 -c "import json;print(json.load(open('$d/meta.json')).get('round', 0))")
  if [ -n "$ROUNDS" ] && ! echo " $ROUNDS " | grep -q " $round "; then continue; fi
  git -C $WT checkout -q -- . ; git -C $WT clean -fdq -e target
  if ! git -C $WT apply $d/patch.diff 2>/dev/null; then echo "SKIP   $id $name (patch does not apply to the current tree)" >> $OUT; continue; fi
  log=/tmp/reg_$name.log
  VERIF_SEED=${VERIF_SEED:-1} /verif/seedtest.sh $WT $id quick > $log 2>&1; rc=$?
  n=$(grep -c "^VIOLATION" $log)
  if [ $rc -eq 1 ] && [ $n -gt 0 ]; then echo "CAUGHT $id $name ($n violation lines)" >> $OUT; rm -f $log
  elif [ $rc -eq 0 ]; then echo "MISSED $id $name" >> $OUT
  else echo "ERROR  $id $name rc=$rc $(tail -1 $log | cut -c1-120)" >> $OUT; fi
done
git -C /repo worktree remove --force $WT; rm -rf /tmp/h_wt_reg
echo DONE >> $OUT
