------------------------------- MODULE Ordinal -------------------------------
(* Bounded exploration: the environment writes a number digit by digit, then a   *)
(* suffix; the verdict of the transcribed pipeline must equal the property's.    *)
EXTENDS OrdinalOps

CONSTANTS MaxDigits, DecadeChecksNext

VARIABLES digits, sfx, lower, phase
ovars == <<digits, sfx, lower, phase>>

OInit == digits = <<>> /\ sfx = "" /\ lower = TRUE /\ phase = "digits"
AddDigit == phase = "digits" /\ Len(digits) < MaxDigits
            /\ \E k \in 0..9 : digits' = Append(digits, k)
            /\ UNCHANGED <<sfx, lower, phase>>
AddSuffix == phase = "digits" /\ digits # <<>>
             /\ \E s \in Suffixes, lo \in BOOLEAN : sfx' = s /\ lower' = lo
             /\ phase' = "judge" /\ UNCHANGED digits
ONext == AddDigit \/ AddSuffix

VerdictMatches == phase = "judge" =>
   RuleVerdict(digits, sfx, lower, DecadeChecksNext) = PropertyVerdict(digits, sfx)
\* after applying the suggestion nothing is reported
FixIsClean == phase = "judge" =>
   LET v == RuleVerdict(digits, sfx, lower, DecadeChecksNext) IN
   v[1] => RuleVerdict(digits, v[2], TRUE, DecadeChecksNext)[1] = FALSE
=============================================================================
