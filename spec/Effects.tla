-------------------------------- MODULE Effects --------------------------------
(* The server's life as an automaton emitting effects; see EffectsOps for the      *)
(* alphabet of allowed effects.                                                     *)
EXTENDS EffectsOps
-----------------------------------------------------------------------------
(* A small automaton of the server's life, emitting the effects the code performs *)
(* in each phase (main.rs: listener set-up; backend.rs: save_dict on the add-word   *)
(* commands, save_stats at shutdown).  Invariant: every emitted effect is allowed.  *)
CONSTANT Modes
VARIABLES mode, phase, eff
evars == <<mode, phase, eff>>
NoEff == [call |-> "none"]
EInit == mode \in Modes /\ phase = "start" /\ eff = NoEff
Emit(e, next) == eff' = e /\ phase' = next /\ UNCHANGED mode
ENext ==
  \/ phase = "start" /\ mode = "tcp" /\ Emit([call |-> "socket", family |-> "AF_INET", kind |-> "SOCK_STREAM"], "socket")
  \/ phase = "socket" /\ Emit([call |-> "bind", addr |-> "127.0.0.1", port |-> 4000], "bound")
  \/ phase = "bound" /\ Emit([call |-> "listen"], "listening")
  \/ phase = "listening" /\ Emit([call |-> "accept4"], "serving")
  \/ phase = "start" /\ mode = "stdio" /\ Emit(NoEff, "serving")
  \/ phase = "start" /\ mode = "lib" /\ Emit(NoEff, "linting")
  \/ phase = "serving" /\ mode = "tcp" /\ Emit([call |-> "recvfrom", addr |-> ""], "serving")
  \/ phase = "serving" /\ mode = "tcp" /\ Emit([call |-> "sendto", addr |-> ""], "serving")
  \* save_dict: create_dir_all(parent); File::create(path)
  \/ phase = "serving" /\ \E c \in MkdirClasses : Emit([call |-> "mkdir", pclass |-> c], "saving")
  \/ phase = "saving" /\ \E c \in {"userDict", "fileDict"} : Emit([call |-> "open_write", pclass |-> c], "serving")
  \* shutdown: save_stats
  \/ phase = "serving" /\ Emit([call |-> "mkdir", pclass |-> "ancestor"], "stats")
  \/ phase = "stats" /\ Emit([call |-> "open_write", pclass |-> "stats"], "down")
OnlyAllowedEffects == eff = NoEff \/ EffectOk(mode, eff)
=============================================================================
