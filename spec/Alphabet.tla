------------------------------ MODULE Alphabet ------------------------------
(* Character classes.  A text is a sequence of class names; every class has   *)
(* one concrete representative (alphabet.json, shared with the harness) so    *)
(* that a model text denotes exactly one real text, and every predicate the    *)
(* lexer evaluates (char_ext.rs, std char methods) has the same value on all   *)
(* characters of a class with respect to the modelled lexers.                  *)
EXTENDS Naturals, Sequences

\*  class    char   notes
\*  "t"      t      lower-case letter, not a hex digit
\*  "e"      e      lower-case letter, hex digit, float exponent marker
\*  "s"      s      the plural/decade letter
\*  "x"      x      the hex prefix letter
\*  "T"      T      upper-case letter, not a hex digit
\*  "0"      0      "1": 1 (decade century digit 1|2)   "7": 7 (any other digit)
\*  "sp" ' '  "tab" '\t'  "nl" '\n'  "cr" '\r'
\*  "Period" .  "Comma" ,  "Apostrophe" '  "Quote" "  "OpenSquare" [  "CloseSquare" ]  "Hyphen" -  "Currency" $
\*  "acc"    e-acute  Latin letter outside ASCII
\*  "cjk"    U+4E16  alphabetic, not English-lingual
\*  "half"   U+00BD  numeric, not an ASCII digit
\*  "emo"    U+1F600  astral symbol
Letters   == {"t", "e", "s", "x", "T"}
Digits    == {"0", "1", "7"}
AsciiAlnum == Letters \cup Digits
HexDigits == Digits \cup {"e"}
\* char::is_alphanumeric (Unicode)
UniAlnum  == AsciiAlnum \cup {"acc", "cjk", "half"}
\* char::is_numeric (Unicode)
UniNumeric == Digits \cup {"half"}
\* CharExt::is_english_lingual || is_ascii_digit  (lex_word)
WordChars == Letters \cup Digits \cup {"acc"}
\* Punctuation::from_char(c).is_some() (quotes are handled by lex_quote first)
PunctChars == {"Period", "Comma", "Apostrophe", "OpenSquare", "CloseSquare", "Hyphen", "Currency"}
HostChars == AsciiAlnum \cup {"Hyphen"}
Whitespace == {"sp", "tab", "nl", "cr", "ws"}       \* "ws": any other white space (traces only)
\* every punctuation token kind (punctuation.rs); a punctuation token's text is the one
\* character whose class carries the same name
PunctKinds == {"Ellipsis", "EnDash", "EmDash", "Ampersand", "Period", "Bang", "Question", "Colon",
               "Semicolon", "Quote", "Comma", "Hyphen", "OpenSquare", "CloseSquare", "OpenRound",
               "CloseRound", "OpenCurly", "CloseCurly", "Hash", "Apostrophe", "Percent",
               "ForwardSlash", "Backslash", "LessThan", "GreaterThan", "Equal", "Star", "Tilde", "At",
               "Caret", "Plus", "Currency", "Pipe", "Underscore"}

AllClasses == Letters \cup Digits \cup {"sp", "tab", "nl", "cr", "Period", "Comma", "Apostrophe", "Quote",
                                       "OpenSquare", "CloseSquare", "Hyphen", "Currency", "acc", "cjk", "half", "emo"}
=============================================================================
