---------------------------- MODULE FileDictName ----------------------------
(* The file name under which a document's dictionary is kept                     *)
(* (harper-ls/src/dictionary_io.rs: file_dict_name): the document's path with    *)
(* every separator replaced by '%'.  A name longer than file systems accept      *)
(* (Max) is replaced by a digest of the WHOLE flattened name followed by its     *)
(* tail.  C07 needs two things of this map: every name fits (or the dictionary   *)
(* can never be saved) and different documents get different names (or a word    *)
(* added for one file is accepted in another).                                    *)
(* Paths are sequences of segment ids; a segment's flattened length is SegLen.    *)
(* The digest is modelled as an ideal (injective) function of what it is applied  *)
(* to.  Shorten = FALSE is the code before the repair: long names are kept and    *)
(* cannot be created.  DigestOfTail = TRUE is a deviation a seeded change          *)
(* introduced: the digest is taken after the front has been cut off.               *)
EXTENDS Naturals, Sequences, FiniteSets

CONSTANTS Segs, SegLen, MaxDepth, Max, Keep, Shorten, DigestOfTail

VARIABLES path
Init == path = <<>>
Next == Len(path) < MaxDepth /\ \E s \in Segs : path' = Append(path, s)
Spec == Init /\ [][Next]_path

Paths == UNION {[1..n -> Segs] : n \in 1..MaxDepth}
FlatLen(p) == Len(p) * (SegLen + 1)
\* the last segments that fit into Keep characters
TailOf(p) == LET k == Keep \div (SegLen + 1) IN IF Len(p) <= k THEN p ELSE SubSeq(p, Len(p) - k + 1, Len(p))
NameOf(p) == IF FlatLen(p) <= Max \/ ~Shorten THEN [digest |-> <<>>, tail |-> p]
             ELSE [digest |-> (IF DigestOfTail THEN TailOf(p) ELSE p), tail |-> TailOf(p)]
NameLen(p) == IF NameOf(p).digest = <<>> THEN FlatLen(p) ELSE 17 + FlatLen(NameOf(p).tail)

\* every reachable document's dictionary can be created ...
Fits == path # <<>> => NameLen(path) <= Max
\* ... and is its own
Distinct == \A q \in Paths : q # path /\ path # <<>> => NameOf(q) # NameOf(path)
=============================================================================
