------------------------------- MODULE DictPath -------------------------------
(* Where the user dictionary lives (harper-ls/src/config.rs: userDictPath;          *)
(* backend.rs: pull_config on every document update, didChangeConfiguration,         *)
(* HarperAddToUserDict).  C07 wants an added word "in the right dictionary file",    *)
(* C10 that nothing but the CONFIGURED files is written.                              *)
(* The client holds the setting; the server's copy changes when the client announces  *)
(* a change (didChangeConfiguration) and also whenever a document update pulls the    *)
(* configuration.  PathCache = TRUE is a deviation a seeded change introduced: the     *)
(* dictionary is cached together with the path it was read from, the cache is dropped  *)
(* on an announcement but not on a pull, and add-word saves to the cached path.        *)
EXTENDS Naturals, FiniteSets

CONSTANTS Paths, Words, MaxSteps, PathCache

VARIABLES clientPath, serverPath, cachedPath, disk, lastWrite, steps
dpvars == <<clientPath, serverPath, cachedPath, disk, lastWrite, steps>>

P0 == CHOOSE p \in Paths : TRUE
Init == clientPath = P0 /\ serverPath = P0 /\ cachedPath = "none" /\ disk = [p \in Paths |-> {}]
        /\ lastWrite = [path |-> "none", configured |-> "none"] /\ steps = 0
Tick == steps < MaxSteps /\ steps' = steps + 1
\* the user points the setting somewhere else; the server is not told
MoveSilently(p) == Tick /\ p # clientPath /\ clientPath' = p /\ UNCHANGED <<serverPath, cachedPath, disk, lastWrite>>
\* ... or the client announces it
Announce(p) == Tick /\ clientPath' = p /\ serverPath' = p /\ cachedPath' = "none" /\ UNCHANGED <<disk, lastWrite>>
\* any didOpen / didChange / didSave: pull the configuration, load the dictionary
UpdateDocument == Tick /\ serverPath' = clientPath
                  /\ cachedPath' = (IF PathCache /\ cachedPath # "none" THEN cachedPath ELSE IF PathCache THEN clientPath ELSE "none")
                  /\ UNCHANGED <<clientPath, disk, lastWrite>>
\* HarperAddToUserDict: load, add, save
AddWord(w) == Tick /\ LET target == IF PathCache /\ cachedPath # "none" THEN cachedPath ELSE serverPath IN
                 /\ disk' = [disk EXCEPT ![target] = @ \cup {w}]
                 /\ lastWrite' = [path |-> target, configured |-> serverPath]
              /\ UNCHANGED <<clientPath, serverPath, cachedPath>>
Next == (\E p \in Paths : MoveSilently(p) \/ Announce(p)) \/ UpdateDocument \/ (\E w \in Words : AddWord(w))
Spec == Init /\ [][Next]_dpvars

\* a word is saved where the server's configuration says the dictionary is
SavedWhereConfigured == lastWrite.path = lastWrite.configured
=============================================================================
