------------------------------ MODULE LspServer ------------------------------
(* The language server's document handling (harper-ls/src/backend.rs,              *)
(* document_state.rs; tower-lsp runs up to four handlers concurrently inside one     *)
(* task, so a handler only loses control at its await points).  Property C09.         *)
(*                                                                                    *)
(* Handler program counters follow the code:                                          *)
(*   didOpen / didChange :  cfg  (workspace/configuration round trip)                 *)
(*                       -> load (user + file dictionaries from disk)                 *)
(*                       -> set  (doc_state lock: insert/replace the document)         *)
(*                       -> pub  (doc_state lock: lint what is stored NOW, send)       *)
(*   didClose            :  close (lock: remove, send empty diagnostics)              *)
(* A didChange for a URL that has no document state creates an entry without a         *)
(* language id, removes it again and publishes nothing useful (empty diagnostics).     *)
(* VersionGuard = FALSE is the code as it is: whichever handler reaches `set` last     *)
(* wins, whatever order the client sent the messages in.                               *)
(*   didSave             :  the editor has written its buffer to disk; the server       *)
(*                          re-reads the file, then cfg -> load -> set -> pub           *)
(*   add-word command /                                                                *)
(*   didChangeConfiguration: re-process the document.  RefreshFromMemory = TRUE: from    *)
(*                          the text held in the document state (the repaired code);    *)
(*                          FALSE: from the file on disk, as it was - an unsaved buffer *)
(*                          is then replaced by the stale file contents.                *)
EXTENDS Naturals, Sequences, FiniteSets, TLC

CONSTANTS Urls, Texts, MaxMsgs, MaxInFlight, VersionGuard, RefreshFromMemory

VARIABLES clientText,   \* newest text the client sent per url ("none": not open)
          docText,      \* server's document state per url ("none": no entry); with the version it came from
          published,    \* what the last publishDiagnostics for the url was computed from ("empty" | text)
          disk,         \* contents of the file behind each url ("none": never saved)
          hs,           \* in-flight handlers: sequence of [kind, u, t, ver, pc]
          sent,         \* number of messages sent
          overlapped    \* history flag: two handlers for the same url were in flight together
lsvars == <<clientText, docText, published, disk, hs, sent, overlapped>>

LInit == /\ clientText = [u \in Urls |-> "none"] /\ docText = [u \in Urls |-> [t |-> "none", v |-> 0]]
         /\ published = [u \in Urls |-> "empty"] /\ disk = [u \in Urls |-> "none"]
         /\ hs = <<>> /\ sent = 0 /\ overlapped = FALSE

SameUrlInFlight(u) == \E i \in DOMAIN hs : hs[i].u = u
Start(h) == /\ sent < MaxMsgs /\ Len(hs) < MaxInFlight
            /\ hs' = Append(hs, h) /\ sent' = sent + 1
            /\ overlapped' = (overlapped \/ SameUrlInFlight(h.u))
SendOpen(u, t) == clientText[u] = "none" /\ Start([kind |-> "open", u |-> u, t |-> t, ver |-> sent + 1, pc |-> "cfg"])
                  /\ clientText' = [clientText EXCEPT ![u] = t] /\ UNCHANGED <<docText, published, disk>>
SendChange(u, t) == clientText[u] # "none" /\ Start([kind |-> "change", u |-> u, t |-> t, ver |-> sent + 1, pc |-> "cfg"])
                    /\ clientText' = [clientText EXCEPT ![u] = t] /\ UNCHANGED <<docText, published, disk>>
\* the editor saves its buffer, then notifies
SendSave(u) == clientText[u] # "none" /\ Start([kind |-> "save", u |-> u, t |-> "disk", ver |-> sent + 1, pc |-> "read"])
               /\ disk' = [disk EXCEPT ![u] = clientText[u]] /\ UNCHANGED <<clientText, docText, published>>
\* an add-to-dictionary command or a configuration change: the document is re-processed
SendRefresh(u) == clientText[u] # "none" /\ Start([kind |-> "refresh", u |-> u, t |-> "?", ver |-> sent + 1, pc |-> "read"])
                  /\ UNCHANGED <<clientText, docText, published, disk>>
SendClose(u) == clientText[u] # "none" /\ Start([kind |-> "close", u |-> u, t |-> "none", ver |-> sent + 1, pc |-> "close"])
                /\ clientText' = [clientText EXCEPT ![u] = "none"] /\ UNCHANGED <<docText, published, disk>>

Remove(i) == SubSeq(hs, 1, i - 1) \o SubSeq(hs, i + 1, Len(hs))
Advance(i, pc) == hs' = [hs EXCEPT ![i].pc = pc]
\* the configuration answer arrives / the dictionaries are loaded
\* where the text to re-process comes from
StepRead(i) ==
  /\ hs[i].pc = "read"
  /\ LET h == hs[i]
         fromDisk == h.kind = "save" \/ ~RefreshFromMemory \/ docText[h.u].t = "none"
         t == IF fromDisk THEN disk[h.u] ELSE docText[h.u].t
     IN hs' = [hs EXCEPT ![i].pc = (IF t = "none" THEN "pub" ELSE "cfg"), ![i].t = t]
  /\ UNCHANGED <<clientText, docText, published, disk, sent, overlapped>>
StepCfg(i) == hs[i].pc = "cfg" /\ Advance(i, "load") /\ UNCHANGED <<clientText, docText, published, disk, sent, overlapped>>
StepLoad(i) == hs[i].pc = "load" /\ Advance(i, "set") /\ UNCHANGED <<clientText, docText, published, disk, sent, overlapped>>
\* update_document under the doc_state lock
StepSet(i) ==
  /\ hs[i].pc = "set" /\ Advance(i, "pub")
  /\ LET h == hs[i] cur == docText[h.u] IN
     docText' = IF h.kind # "open" /\ cur.t = "none" THEN docText                  \* no language id: entry dropped again
                ELSE IF VersionGuard /\ cur.v > h.ver THEN docText                   \* (hypothetical) stale update ignored
                ELSE [docText EXCEPT ![h.u] = [t |-> h.t, v |-> h.ver]]
  /\ UNCHANGED <<clientText, published, disk, sent, overlapped>>
\* publish_diagnostics: lints whatever the document state holds at this moment
StepPub(i) ==
  /\ hs[i].pc = "pub" /\ hs' = Remove(i)
  /\ published' = [published EXCEPT ![hs[i].u] = IF docText[hs[i].u].t = "none" THEN "empty" ELSE docText[hs[i].u].t]
  /\ UNCHANGED <<clientText, docText, disk, sent, overlapped>>
StepClose(i) ==
  /\ hs[i].pc = "close" /\ hs' = Remove(i)
  /\ docText' = [docText EXCEPT ![hs[i].u] = [t |-> "none", v |-> 0]]
  /\ published' = [published EXCEPT ![hs[i].u] = "empty"]
  /\ UNCHANGED <<clientText, disk, sent, overlapped>>

LNext == \/ \E u \in Urls, t \in Texts : SendOpen(u, t) \/ SendChange(u, t)
         \/ \E u \in Urls : SendClose(u) \/ SendSave(u) \/ SendRefresh(u)
         \/ \E i \in DOMAIN hs : StepRead(i) \/ StepCfg(i) \/ StepLoad(i) \/ StepSet(i) \/ StepPub(i) \/ StepClose(i)

Quiescent == hs = <<>>
\* C09: once everything has been processed, the last word on each document is its newest text
LastWord == Quiescent => \A u \in Urls :
   published[u] = (IF clientText[u] = "none" THEN "empty" ELSE clientText[u])
\* ... which the code guarantees only when handlers for one document never overlap
LastWordUnlessOverlapped == LastWord \/ overlapped

\* Liveness: every message is eventually handled (checked without a state constraint, under weak
\* fairness of the handler steps): the server always comes to rest
HandlerSteps == \E i \in DOMAIN hs : StepRead(i) \/ StepCfg(i) \/ StepLoad(i) \/ StepSet(i) \/ StepPub(i) \/ StepClose(i)
LSpec == LInit /\ [][LNext]_lsvars /\ WF_lsvars(HandlerSteps)
ComesToRest == []<>(hs = <<>>)
=============================================================================
