------------------------------ MODULE LspServer ------------------------------
(* The language server's document handling (harper-ls/src/backend.rs,              *)
(* document_state.rs; tower-lsp runs up to four handlers concurrently inside one     *)
(* task, so a handler only loses control at its await points).  Property C09.         *)
(*                                                                                    *)
(* Handler program counters follow the code:                                          *)
(*   didOpen / didChange :  cfg  (workspace/configuration round trip)                 *)
(*                       -> load (user + file dictionaries from disk)                 *)
(*                       -> set  (doc_state lock: insert/replace the document)         *)
(*                       -> pub  (doc_state lock: lint what is stored NOW, send)       *)
(*   didClose            :  close (lock: remove, send empty diagnostics)              *)
(* A didChange for a URL that has no document state creates an entry without a         *)
(* language id, removes it again and publishes nothing useful (empty diagnostics).     *)
(* VersionGuard = FALSE is the code as it is: whichever handler reaches `set` last     *)
(* wins, whatever order the client sent the messages in.  (The hypothetical guard       *)
(* orders texts only: a didOpen that copied the configuration before a                  *)
(* didChangeConfiguration ran still builds its linter with the old one.)                *)
(*   didSave             :  the editor has written its buffer to disk; the server       *)
(*                          re-reads the file, then cfg -> load -> set -> pub           *)
(*   add-word command /                                                                *)
(*   didChangeConfiguration: re-process the document.  RefreshFromMemory = TRUE: from    *)
(*                          the text held in the document state (the repaired code);    *)
(*                          FALSE: from the file on disk, as it was - an unsaved buffer *)
(*                          is then replaced by the stale file contents.                *)
(*   Configuration.  The client holds a configuration (clientCfg); every document        *)
(*   update pulls it (workspace/configuration) into the server's copy (serverCfg), but a  *)
(*   document's linter is built with the configuration only when the document state is    *)
(*   created (docCfg).  didChangeConfiguration stores the announced settings, rebuilds     *)
(*   the linter of EVERY document under the lock, then re-processes and publishes each.    *)
(*   ConfigRebuilds = FALSE is a deviation a seeded change introduced: the linters of      *)
(*   open documents are kept (settings merged into them), so an override that is removed   *)
(*   again stays in force.  The client may also change its settings WITHOUT announcing      *)
(*   them (ChangeSilently): the server then learns of them through a pull, and nothing is   *)
(*   promised until the change is announced.  RebuildOnlyIfChanged = TRUE is another seeded  *)
(*   deviation: the announcement rebuilds the linters only if the server's copy changes -    *)
(*   which it does not when a pull has already delivered the new settings.                   *)
(*   Identifiers.  For a source file the identifiers found in it are merged into the      *)
(*   document's dictionary (so that a comment may mention them).  Every update loads the   *)
(*   dictionary afresh and REPLACES the document's when they differ - which they always    *)
(*   do once identifiers have been merged - and then merges the identifiers again, but     *)
(*   only if they differ from the ones it remembers having merged (identRecord).           *)
(*   ForgetIdentRecord = TRUE is the repaired code: replacing the dictionary also forgets   *)
(*   that record.  FALSE is the code as it was: from the second update on the dictionary    *)
(*   lacks the identifiers.  Every document is treated as a source file and every text      *)
(*   has its own identifiers: dictIdents[u] is the set of texts whose identifiers the       *)
(*   document's dictionary holds, and it is part of what a publish was computed from (it    *)
(*   must be exactly the current text's).  IdentsAccumulate = TRUE is a deviation a seeded   *)
(*   change introduced: identifiers are merged into the dictionary the document already     *)
(*   has, so those of earlier versions of the text linger.                                   *)
EXTENDS Naturals, Sequences, FiniteSets, TLC

CONSTANTS Urls, Texts, Cfgs, MaxMsgs, MaxInFlight, VersionGuard, RefreshFromMemory, ConfigRebuilds, ForgetIdentRecord, IdentsAccumulate, RebuildOnlyIfChanged, FirstOfBatch, PullOnNull, SaveReadsDisk, TamperAllowed

VARIABLES clientText,   \* newest text the client sent per url ("none": not open)
          docText,      \* server's document state per url ("none": no entry); with the version it came from
          published,    \* what the last publishDiagnostics for the url was computed from: [t, c] (t = "none": empty)
          clientCfg,    \* the configuration the client holds (and answers workspace/configuration with)
          announced,    \* has the client announced its current configuration?
          serverCfg,    \* the server's copy
          docCfg,       \* the configuration each document's linter was built with
          dictIdents,   \* whose identifiers (which texts') the document's dictionary holds
          identRecord,  \* which text's identifiers the document state remembers having merged ("none")
          disk,         \* contents of the file behind each url ("none": never saved)
          hs,           \* in-flight handlers: sequence of [kind, u, t, ver, pc]
          sent,         \* number of messages sent
          overlapped    \* history flag: two handlers for the same url were in flight together
lsvars == <<clientText, docText, published, clientCfg, announced, serverCfg, docCfg, dictIdents, identRecord, disk, hs, sent, overlapped>>
cfgvars == <<clientCfg, announced, serverCfg, docCfg, dictIdents, identRecord>>
idvars == <<dictIdents, identRecord>>
C0 == CHOOSE c \in Cfgs : TRUE
Empty == [t |-> "none", c |-> "-", i |-> {}]
\* update of a document state's dictionary for text t: (old identifiers, old record, is the state new?) -> <<identifiers, record>>
IdentUpdate(ids, rec, isNew, t) ==
  LET replaced == ~isNew /\ ids # {}
      ids1 == IF isNew \/ replaced THEN {} ELSE ids
      rec1 == IF isNew THEN "none" ELSE IF replaced /\ ForgetIdentRecord THEN "none" ELSE rec
  IN IF rec1 = t THEN <<ids1, rec1>>
     ELSE <<(IF IdentsAccumulate /\ ~isNew THEN ids ELSE ids1) \cup {t}, t>>

LInit == /\ clientText = [u \in Urls |-> "none"] /\ docText = [u \in Urls |-> [t |-> "none", v |-> 0]]
         /\ published = [u \in Urls |-> Empty] /\ disk = [u \in Urls |-> "none"]
         /\ clientCfg = C0 /\ announced = TRUE /\ serverCfg = C0 /\ docCfg = [u \in Urls |-> C0]
         /\ dictIdents = [u \in Urls |-> {}] /\ identRecord = [u \in Urls |-> "none"]
         /\ hs = <<>> /\ sent = 0 /\ overlapped = FALSE

SameUrlInFlight(u) == \E i \in DOMAIN hs : hs[i].u = u \/ hs[i].kind = "config" \/ u = "*"
Start(h) == /\ sent < MaxMsgs /\ Len(hs) < MaxInFlight
            /\ hs' = Append(hs, h) /\ sent' = sent + 1
            /\ overlapped' = (overlapped \/ SameUrlInFlight(h.u))
SendOpen(u, t) == clientText[u] = "none" /\ Start([kind |-> "open", c |-> C0, changed |-> FALSE, todo |-> <<>>, u |-> u, t |-> t, ver |-> sent + 1, pc |-> "cfg"])
                  /\ clientText' = [clientText EXCEPT ![u] = t] /\ UNCHANGED <<docText, published, disk, cfgvars>>
SendChange(u, t) == clientText[u] # "none" /\ Start([kind |-> "change", c |-> C0, changed |-> FALSE, todo |-> <<>>, u |-> u, t |-> t, ver |-> sent + 1, pc |-> "cfg"])
                    /\ clientText' = [clientText EXCEPT ![u] = t] /\ UNCHANGED <<docText, published, disk, cfgvars>>
\* one didChange notification may carry several content changes; with full-document sync each is a whole text and
\* the last one is the document (FirstOfBatch = TRUE: a seeded deviation that takes the first)
SendChangeBatch(u, t1, t2) == clientText[u] # "none" /\ t1 # t2
                    /\ Start([kind |-> "change", c |-> C0, changed |-> FALSE, todo |-> <<>>, u |-> u, t |-> IF FirstOfBatch THEN t1 ELSE t2, ver |-> sent + 1, pc |-> "cfg"])
                    /\ clientText' = [clientText EXCEPT ![u] = t2] /\ UNCHANGED <<docText, published, disk, cfgvars>>
\* the editor saves its buffer, then notifies
SendSave(u) == clientText[u] # "none" /\ Start([kind |-> "save", c |-> C0, changed |-> FALSE, todo |-> <<>>, u |-> u, t |-> "disk", ver |-> sent + 1, pc |-> "read"])
               /\ disk' = [disk EXCEPT ![u] = clientText[u]] /\ UNCHANGED <<clientText, docText, published, cfgvars>>
\* the file behind an open document comes to differ from the editor's buffer (a byte order mark written by the editor,
\* another program writing to it): only in configurations that allow it
Tamper(u, t) == TamperAllowed /\ clientText[u] # "none" /\ disk[u] # "none" /\ t # disk[u] /\ sent < MaxMsgs /\ sent' = sent + 1
                /\ disk' = [disk EXCEPT ![u] = t] /\ UNCHANGED <<clientText, docText, published, hs, overlapped, cfgvars>>
\* an add-to-file-dictionary command: the document is re-processed.  (An addition to the USER dictionary re-processes
\* every open document since 0a59ac0; in this module it overlaps with every document the way a
\* configuration change does - the dictionary itself is state of UserDict.tla.)
SendRefresh(u) == clientText[u] # "none" /\ Start([kind |-> "refresh", c |-> C0, changed |-> FALSE, todo |-> <<>>, u |-> u, t |-> "?", ver |-> sent + 1, pc |-> "read"])
                  /\ UNCHANGED <<clientText, docText, published, disk, cfgvars>>
\* the user changes a setting: the client stores it and announces it (the notification carries the settings)
SendConfig(c) == (c # clientCfg \/ ~announced) /\ Start([kind |-> "config", c |-> c, changed |-> TRUE, todo |-> <<>>, u |-> "*", t |-> "?", ver |-> sent + 1, pc |-> "store"])
                 /\ clientCfg' = c /\ announced' = TRUE /\ UNCHANGED <<clientText, docText, published, disk, serverCfg, docCfg, idvars>>
\* a client that serves its settings through workspace/configuration announces a change without carrying it
\* (`settings: null`); PullOnNull = FALSE is the code before its repair: nothing to parse, the old settings stay
SendConfigNull == ~announced /\ Start([kind |-> "config", c |-> "null", changed |-> TRUE, todo |-> <<>>, u |-> "*", t |-> "?", ver |-> sent + 1, pc |-> "store"])
                  /\ announced' = TRUE /\ UNCHANGED <<clientText, docText, published, disk, clientCfg, serverCfg, docCfg, idvars>>
\* the settings change on the client's side only
ChangeSilently(c) == c # clientCfg /\ sent < MaxMsgs /\ sent' = sent + 1 /\ clientCfg' = c /\ announced' = FALSE
                     /\ UNCHANGED <<clientText, docText, published, disk, serverCfg, docCfg, idvars, hs, overlapped>>
SendClose(u) == clientText[u] # "none" /\ Start([kind |-> "close", c |-> C0, changed |-> FALSE, todo |-> <<>>, u |-> u, t |-> "none", ver |-> sent + 1, pc |-> "close"])
                /\ clientText' = [clientText EXCEPT ![u] = "none"] /\ UNCHANGED <<docText, published, disk, cfgvars>>

Remove(i) == SubSeq(hs, 1, i - 1) \o SubSeq(hs, i + 1, Len(hs))
Advance(i, pc) == hs' = [hs EXCEPT ![i].pc = pc]
\* the configuration answer arrives / the dictionaries are loaded
\* where the text to re-process comes from
StepRead(i) ==
  /\ hs[i].pc = "read"
  /\ LET h == hs[i]
         \* (SaveReadsDisk = TRUE is the code before its repair: didSave took the file's contents for the document)
         fromDisk == (h.kind = "save" /\ SaveReadsDisk) \/ ~RefreshFromMemory \/ docText[h.u].t = "none"
         t == IF fromDisk THEN disk[h.u] ELSE docText[h.u].t
     IN hs' = [hs EXCEPT ![i].pc = (IF t = "none" THEN "pub" ELSE "cfg"), ![i].t = t]
  /\ UNCHANGED <<clientText, docText, published, disk, sent, overlapped, cfgvars>>
\* pull_config: the client's current configuration becomes the server's; the handler copies it for later
StepCfg(i) == /\ hs[i].pc = "cfg" /\ hs' = [hs EXCEPT ![i].pc = "load", ![i].c = clientCfg]
              /\ serverCfg' = clientCfg
              /\ UNCHANGED <<clientText, docText, published, disk, sent, overlapped, clientCfg, announced, docCfg, idvars>>
StepLoad(i) == hs[i].pc = "load" /\ Advance(i, "set") /\ UNCHANGED <<clientText, docText, published, disk, sent, overlapped, cfgvars>>
\* update_document under the doc_state lock
StepSet(i) ==
  /\ hs[i].pc = "set" /\ Advance(i, "pub")
  /\ LET h == hs[i] cur == docText[h.u] IN
     /\ docText' = (IF h.kind # "open" /\ cur.t = "none" THEN docText                  \* no language id: entry dropped again
                ELSE IF VersionGuard /\ cur.v > h.ver THEN docText                   \* (hypothetical) stale update ignored
                ELSE [docText EXCEPT ![h.u] = [t |-> h.t, v |-> h.ver]])
     \* a new document state gets a linter with the configuration the handler copied; an existing one keeps its linter
     /\ docCfg' = IF h.kind = "open" /\ cur.t = "none" THEN [docCfg EXCEPT ![h.u] = h.c] ELSE docCfg
     \* the dictionary: a new document state starts with the freshly loaded one; an existing one is replaced
     \* when it differs (i.e. when it holds identifiers); then the identifiers are merged in unless the state
     \* remembers having done so
     /\ LET dropped == h.kind # "open" /\ cur.t = "none"
            isNew == h.kind = "open" /\ cur.t = "none"
            stale == VersionGuard /\ cur.v > h.ver
            r == IdentUpdate(dictIdents[h.u], identRecord[h.u], isNew, h.t)
        IN IF dropped \/ stale THEN UNCHANGED idvars
           ELSE /\ dictIdents' = [dictIdents EXCEPT ![h.u] = r[1]]
                /\ identRecord' = [identRecord EXCEPT ![h.u] = r[2]]
  /\ UNCHANGED <<clientText, published, disk, sent, overlapped, clientCfg, announced, serverCfg>>
\* publish_diagnostics: lints whatever the document state holds at this moment
StepPub(i) ==
  /\ hs[i].pc = "pub" /\ hs' = Remove(i)
  /\ published' = [published EXCEPT ![hs[i].u] = IF docText[hs[i].u].t = "none" THEN Empty
                                               ELSE [t |-> docText[hs[i].u].t, c |-> docCfg[hs[i].u], i |-> dictIdents[hs[i].u]]]
  /\ UNCHANGED <<clientText, docText, disk, sent, overlapped, cfgvars>>
StepClose(i) ==
  /\ hs[i].pc = "close" /\ hs' = Remove(i)
  /\ docText' = [docText EXCEPT ![hs[i].u] = [t |-> "none", v |-> 0]]
  /\ published' = [published EXCEPT ![hs[i].u] = Empty]
  /\ dictIdents' = [dictIdents EXCEPT ![hs[i].u] = {}] /\ identRecord' = [identRecord EXCEPT ![hs[i].u] = "none"]
  /\ UNCHANGED <<clientText, disk, sent, overlapped, clientCfg, announced, serverCfg, docCfg>>
\* didChangeConfiguration: store the announced settings ...
StepStore(i) == /\ hs[i].pc = "store" /\ hs' = [hs EXCEPT ![i].pc = "rebuild", ![i].changed = (serverCfg # hs[i].c)]
                /\ serverCfg' = (IF hs[i].c = "null" THEN (IF PullOnNull THEN clientCfg ELSE serverCfg) ELSE hs[i].c)
                /\ UNCHANGED <<clientText, docText, published, disk, sent, overlapped, clientCfg, announced, docCfg, idvars>>
\* ... rebuild every document's linter under the lock and note the documents ...
RECURSIVE SeqOf(_)
SeqOf(S) == IF S = {} THEN <<>> ELSE LET x == CHOOSE y \in S : TRUE IN <<x>> \o SeqOf(S \ {x})
StepRebuild(i) ==
  /\ hs[i].pc = "rebuild"
  /\ LET open == {u \in Urls : docText[u].t # "none"} IN
     /\ docCfg' = IF ConfigRebuilds /\ (~RebuildOnlyIfChanged \/ hs[i].changed)
                  THEN [u \in Urls |-> IF u \in open THEN serverCfg ELSE docCfg[u]] ELSE docCfg
     /\ hs' = IF open = {} THEN Remove(i) ELSE [hs EXCEPT ![i].pc = "each", ![i].todo = SeqOf(open)]
  /\ UNCHANGED <<clientText, docText, published, disk, sent, overlapped, clientCfg, announced, serverCfg, idvars>>
\* ... then, document by document: re-process from memory (which pulls the configuration again) and publish
StepEach(i) ==
  /\ hs[i].pc = "each"
  /\ LET u == Head(hs[i].todo) rest == Tail(hs[i].todo) IN
     /\ serverCfg' = clientCfg
     \* the re-processing is an update of an existing document state: the dictionary rule applies
     /\ LET r == IF docText[u].t = "none" THEN <<dictIdents[u], identRecord[u]>>
                 ELSE IdentUpdate(dictIdents[u], identRecord[u], FALSE, docText[u].t)
        IN /\ dictIdents' = [dictIdents EXCEPT ![u] = r[1]]
           /\ identRecord' = [identRecord EXCEPT ![u] = r[2]]
           /\ published' = [published EXCEPT ![u] = IF docText[u].t = "none" THEN Empty
                                                    ELSE [t |-> docText[u].t, c |-> docCfg[u], i |-> r[1]]]
     /\ hs' = IF rest = <<>> THEN Remove(i) ELSE [hs EXCEPT ![i].todo = rest]
  /\ UNCHANGED <<clientText, docText, disk, sent, overlapped, clientCfg, announced, docCfg>>

LNext == \/ \E u \in Urls, t \in Texts : SendOpen(u, t) \/ SendChange(u, t)
         \/ \E u \in Urls, t1, t2 \in Texts : SendChangeBatch(u, t1, t2)
         \/ \E u \in Urls : SendClose(u) \/ SendSave(u) \/ SendRefresh(u)
         \/ \E c \in Cfgs : SendConfig(c) \/ ChangeSilently(c)
         \/ SendConfigNull
         \/ \E u \in Urls, t \in Texts : Tamper(u, t)
         \/ \E i \in DOMAIN hs : StepRead(i) \/ StepCfg(i) \/ StepLoad(i) \/ StepSet(i) \/ StepPub(i) \/ StepClose(i)
                                  \/ StepStore(i) \/ StepRebuild(i) \/ StepEach(i)

Quiescent == hs = <<>>
\* C09: once everything has been processed, the last word on each document is its newest text
LastWord == Quiescent /\ announced => \A u \in Urls :
   published[u] = (IF clientText[u] = "none" THEN Empty ELSE [t |-> clientText[u], c |-> clientCfg, i |-> {clientText[u]}])
\* ... which the code guarantees only when handlers for one document never overlap
LastWordUnlessOverlapped == LastWord \/ overlapped

\* Liveness: every message is eventually handled (checked without a state constraint, under weak
\* fairness of the handler steps): the server always comes to rest
HandlerSteps == \E i \in DOMAIN hs : StepRead(i) \/ StepCfg(i) \/ StepLoad(i) \/ StepSet(i) \/ StepPub(i) \/ StepClose(i)
                                       \/ StepStore(i) \/ StepRebuild(i) \/ StepEach(i)
LSpec == LInit /\ [][LNext]_lsvars /\ WF_lsvars(HandlerSteps)
ComesToRest == []<>(hs = <<>>)
=============================================================================
