------------------------------ MODULE LspServer ------------------------------
(* The language server's document handling (harper-ls/src/backend.rs,              *)
(* document_state.rs; tower-lsp runs up to four handlers concurrently inside one     *)
(* task, so a handler only loses control at its await points).  Property C09.         *)
(*                                                                                    *)
(* Handler program counters follow the code:                                          *)
(*   didOpen / didChange :  cfg  (workspace/configuration round trip)                 *)
(*                       -> load (user + file dictionaries from disk)                 *)
(*                       -> set  (doc_state lock: insert/replace the document)         *)
(*                       -> pub  (doc_state lock: lint what is stored NOW, send)       *)
(*   didClose            :  close (lock: remove, send empty diagnostics)              *)
(* A didChange for a URL that has no document state creates an entry without a         *)
(* language id, removes it again and publishes nothing useful (empty diagnostics).     *)
(* VersionGuard = FALSE is the code as it is: whichever handler reaches `set` last     *)
(* wins, whatever order the client sent the messages in.                               *)
EXTENDS Naturals, Sequences, FiniteSets, TLC

CONSTANTS Urls, Texts, MaxMsgs, MaxInFlight, VersionGuard

VARIABLES clientText,   \* newest text the client sent per url ("none": not open)
          docText,      \* server's document state per url ("none": no entry); with the version it came from
          published,    \* what the last publishDiagnostics for the url was computed from ("empty" | text)
          hs,           \* in-flight handlers: sequence of [kind, u, t, ver, pc]
          sent,         \* number of messages sent
          overlapped    \* history flag: two handlers for the same url were in flight together
lsvars == <<clientText, docText, published, hs, sent, overlapped>>

LInit == /\ clientText = [u \in Urls |-> "none"] /\ docText = [u \in Urls |-> [t |-> "none", v |-> 0]]
         /\ published = [u \in Urls |-> "empty"] /\ hs = <<>> /\ sent = 0 /\ overlapped = FALSE

SameUrlInFlight(u) == \E i \in DOMAIN hs : hs[i].u = u
Start(h) == /\ sent < MaxMsgs /\ Len(hs) < MaxInFlight
            /\ hs' = Append(hs, h) /\ sent' = sent + 1
            /\ overlapped' = (overlapped \/ SameUrlInFlight(h.u))
SendOpen(u, t) == clientText[u] = "none" /\ Start([kind |-> "open", u |-> u, t |-> t, ver |-> sent + 1, pc |-> "cfg"])
                  /\ clientText' = [clientText EXCEPT ![u] = t] /\ UNCHANGED <<docText, published>>
SendChange(u, t) == clientText[u] # "none" /\ Start([kind |-> "change", u |-> u, t |-> t, ver |-> sent + 1, pc |-> "cfg"])
                    /\ clientText' = [clientText EXCEPT ![u] = t] /\ UNCHANGED <<docText, published>>
SendClose(u) == clientText[u] # "none" /\ Start([kind |-> "close", u |-> u, t |-> "none", ver |-> sent + 1, pc |-> "close"])
                /\ clientText' = [clientText EXCEPT ![u] = "none"] /\ UNCHANGED <<docText, published>>

Remove(i) == SubSeq(hs, 1, i - 1) \o SubSeq(hs, i + 1, Len(hs))
Advance(i, pc) == hs' = [hs EXCEPT ![i].pc = pc]
\* the configuration answer arrives / the dictionaries are loaded
StepCfg(i) == hs[i].pc = "cfg" /\ Advance(i, "load") /\ UNCHANGED <<clientText, docText, published, sent, overlapped>>
StepLoad(i) == hs[i].pc = "load" /\ Advance(i, "set") /\ UNCHANGED <<clientText, docText, published, sent, overlapped>>
\* update_document under the doc_state lock
StepSet(i) ==
  /\ hs[i].pc = "set" /\ Advance(i, "pub")
  /\ LET h == hs[i] cur == docText[h.u] IN
     docText' = IF h.kind = "change" /\ cur.t = "none" THEN docText                \* no language id: entry dropped again
                ELSE IF VersionGuard /\ cur.v > h.ver THEN docText                   \* (hypothetical) stale update ignored
                ELSE [docText EXCEPT ![h.u] = [t |-> h.t, v |-> h.ver]]
  /\ UNCHANGED <<clientText, published, sent, overlapped>>
\* publish_diagnostics: lints whatever the document state holds at this moment
StepPub(i) ==
  /\ hs[i].pc = "pub" /\ hs' = Remove(i)
  /\ published' = [published EXCEPT ![hs[i].u] = IF docText[hs[i].u].t = "none" THEN "empty" ELSE docText[hs[i].u].t]
  /\ UNCHANGED <<clientText, docText, sent, overlapped>>
StepClose(i) ==
  /\ hs[i].pc = "close" /\ hs' = Remove(i)
  /\ docText' = [docText EXCEPT ![hs[i].u] = [t |-> "none", v |-> 0]]
  /\ published' = [published EXCEPT ![hs[i].u] = "empty"]
  /\ UNCHANGED <<clientText, sent, overlapped>>

LNext == \/ \E u \in Urls, t \in Texts : SendOpen(u, t) \/ SendChange(u, t)
         \/ \E u \in Urls : SendClose(u)
         \/ \E i \in DOMAIN hs : StepCfg(i) \/ StepLoad(i) \/ StepSet(i) \/ StepPub(i) \/ StepClose(i)

Quiescent == hs = <<>>
\* C09: once everything has been processed, the last word on each document is its newest text
LastWord == Quiescent => \A u \in Urls :
   published[u] = (IF clientText[u] = "none" THEN "empty" ELSE clientText[u])
\* ... which the code guarantees only when handlers for one document never overlap
LastWordUnlessOverlapped == LastWord \/ overlapped
=============================================================================
