-------------------------------- MODULE Ignore --------------------------------
(* Bounded exploration for C14: build a document, lint it (every "bad" token is a  *)
(* lint), ignore one lint, optionally edit far away from it, lint again.            *)
EXTENDS IgnoreOps

CONSTANTS MaxToks, SequelFromEnd, PrequelClamped, QuoteTwinErased, WindowsSeparate

\* token vocabulary: two misspellings of different widths, two harmless words, blank, quote
Vocab == { [c |-> "an", w |-> 2, q |-> FALSE], [c |-> "teh", w |-> 3, q |-> FALSE],
           [c |-> "x", w |-> 1, q |-> FALSE], [c |-> "yy", w |-> 2, q |-> FALSE],
           [c |-> "sp", w |-> 1, q |-> FALSE], [c |-> "quote", w |-> 1, q |-> TRUE] }
Bad == {"an", "teh"}

VARIABLES doc, ignored, chosen, phase, edited, hood
igvars == <<doc, ignored, chosen, phase, edited, hood>>

Lints(d) == {[tok |-> i, msg |-> d[i].c] : i \in {j \in DOMAIN d : d[j].c \in Bad}}
Ctx(d, l) == Context(d, l, SequelFromEnd, PrequelClamped, QuoteTwinErased, WindowsSeparate)
Visible(d) == {l \in Lints(d) : Ctx(d, l) \notin ignored}

IInit == doc = <<>> /\ ignored = {} /\ chosen = [tok |-> 0, msg |-> ""] /\ phase = "build" /\ edited = FALSE /\ hood = <<>>
Build == phase = "build" /\ Len(doc) < MaxToks /\ \E t \in Vocab : doc' = Append(doc, t)
         /\ UNCHANGED <<ignored, chosen, phase, edited, hood>>
IgnoreOne == phase = "build" /\ \E l \in Lints(doc) :
                /\ ignored' = {Ctx(doc, l)} /\ chosen' = l /\ phase' = "ignored"
                /\ hood' = PId(doc, l)
                /\ UNCHANGED <<doc, edited>>
\* far edits: text added at least three characters (one 3-wide word + blank) away from the lint
Far == <<[c |-> "teh", w |-> 3, q |-> FALSE], [c |-> "sp", w |-> 1, q |-> FALSE], [c |-> "yy", w |-> 2, q |-> FALSE], [c |-> "sp", w |-> 1, q |-> FALSE]>>
FarQ == <<[c |-> "quote", w |-> 1, q |-> TRUE], [c |-> "yy", w |-> 2, q |-> FALSE], [c |-> "sp", w |-> 1, q |-> FALSE], [c |-> "yy", w |-> 2, q |-> FALSE], [c |-> "sp", w |-> 1, q |-> FALSE]>>
Prepend == phase = "ignored" /\ ~edited /\ \E pre \in {Far, FarQ} :
              /\ doc' = pre \o doc /\ chosen' = [chosen EXCEPT !.tok = @ + Len(pre)]
              /\ edited' = TRUE /\ UNCHANGED <<ignored, phase, hood>>
AppendFar == phase = "ignored" /\ ~edited /\ \E suf \in {Far, FarQ} :
              /\ doc' = doc \o <<[c |-> "sp", w |-> 1, q |-> FALSE], [c |-> "yy", w |-> 2, q |-> FALSE], [c |-> "sp", w |-> 1, q |-> FALSE]>> \o suf
              /\ edited' = TRUE /\ UNCHANGED <<ignored, chosen, phase, hood>>
INext == Build \/ IgnoreOne \/ Prepend \/ AppendFar

HidesIt == phase = "ignored" /\ ~edited => chosen \notin Visible(doc)
\* every lint that differs in message or surrounding words is still reported
OnlyIt == phase = "ignored" /\ ~edited =>
   \A l \in Lints(doc) : PId(doc, l) # PId(doc, chosen) => l \in Visible(doc)
\* durable: after a far edit, if the flagged text and the tokens within two characters of it
\* are what they were when the lint was ignored, it is still hidden
KeepsHiding == phase = "ignored" /\ edited /\ PId(doc, chosen) = hood => chosen \notin Visible(doc)
=============================================================================
