------------------------------ MODULE TitleCase ------------------------------
EXTENDS TitleCaseOps
CONSTANTS MaxToks, MaxWord

VARIABLES toks, phase
Chars == [id : 1..2, up : BOOLEAN, ascii : BOOLEAN]
Words == UNION {[1..n -> Chars] : n \in 1..MaxWord}
TokSet == {[wl |-> TRUE, chars |-> w, canon |-> cn, cap |-> cp] :
              w \in Words, cn \in {"none", "Title", "iOS"}, cp \in BOOLEAN}
          \cup {[wl |-> FALSE, chars |-> <<[id |-> 1, up |-> FALSE, ascii |-> FALSE]>>, canon |-> "none", cap |-> FALSE]}

TInit == toks = <<>> /\ phase = "build"
AddTok == phase = "build" /\ Len(toks) < MaxToks /\ \E t \in TokSet : toks' = Append(toks, t) /\ UNCHANGED phase
Run == phase = "build" /\ phase' = "run" /\ UNCHANGED toks
TNext == AddTok \/ Run

LengthKept == phase = "run" => SameLength(Flat(toks), Flat(TC(toks)))
OnlyCase == phase = "run" => CaseOnlyDiff(Flat(toks), Flat(TC(toks)))
FirstCap == phase = "run" => FirstWordCapital(toks, TC(toks))
Idempotent == phase = "run" => TC(TC(toks)) = TC(toks)
=============================================================================
