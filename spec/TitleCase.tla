------------------------------ MODULE TitleCase ------------------------------
EXTENDS TitleCaseOps
CONSTANTS MaxToks, MaxWord

VARIABLES toks, phase
Chars == [id : 1..2, up : BOOLEAN, ascii : BOOLEAN]
Words == UNION {[1..n -> Chars] : n \in 1..MaxWord}
\* a `latin` token is a condensed abbreviation: never a proper noun, never capitalised in mid-title
TokSet == {[wl |-> TRUE, chars |-> w, canon |-> cn, cap |-> cp, latin |-> FALSE] :
              w \in Words, cn \in {"none", "Title", "iOS"}, cp \in BOOLEAN}
          \cup {[wl |-> TRUE, chars |-> w, canon |-> "none", cap |-> FALSE, latin |-> TRUE] : w \in Words}
          \cup {[wl |-> FALSE, chars |-> <<[id |-> 1, up |-> FALSE, ascii |-> FALSE]>>, canon |-> "none", cap |-> FALSE, latin |-> FALSE]}

TInit == toks = <<>> /\ phase = "build"
AddTok == phase = "build" /\ Len(toks) < MaxToks /\ \E t \in TokSet : toks' = Append(toks, t) /\ UNCHANGED phase
Run == phase = "build" /\ phase' = "run" /\ UNCHANGED toks
TNext == AddTok \/ Run

LengthKept == phase = "run" => SameLength(Flat(toks), Flat(TC(toks)))
OnlyCase == phase = "run" => CaseOnlyDiff(Flat(toks), Flat(TC(toks)))
FirstCap == phase = "run" => FirstWordCapital(toks, TC(toks))
Idempotent == phase = "run" => TC(TC(toks)) = TC(toks)
=============================================================================
