------------------------------ MODULE ConfigOps ------------------------------
(* Rule configuration (harper-core/src/linting/lint_group.rs: LintGroupConfig).   *)
(* Property C11.  A configuration is a partial map from rule names to              *)
(* {"On", "Off", "None"}: a key can be absent, or present holding no value         *)
(* (clear() keeps keys, unset removes them).                                        *)
EXTENDS Naturals, Sequences, FiniteSets, TLC

Vals == {"On", "Off", "None"}
Has(c, k) == k \in DOMAIN c
Get(c, k) == IF Has(c, k) THEN c[k] ELSE "None"
\* the user's intention for a key, ignoring how it is stored
Meaning(c, k) == Get(c, k)                      \* "On" | "Off" | "None" (= not mentioned)

Put(c, k, v) == [x \in (DOMAIN c) \cup {k} |-> IF x = k THEN v ELSE c[x]]
Del(c, k) == [x \in (DOMAIN c) \ {k} |-> c[x]]

\* the code's operations
SetRule(c, k, on) == Put(c, k, IF on THEN "On" ELSE "Off")
Unset(c, k) == Del(c, k)
SetIfUnset(c, k, on) == IF Has(c, k) THEN c ELSE SetRule(c, k, on)   \* contains_key: "None" counts as set
Enabled(c, k) == Get(c, k) = "On"
Clear(c) == [x \in DOMAIN c |-> "None"]
\* self.merge_from(other): explicit values of other win; other is cleared afterwards
MergeFrom(self, other) == [x \in (DOMAIN self) \cup {y \in DOMAIN other : other[y] # "None"} |->
                              IF Has(other, x) /\ other[x] # "None" THEN other[x] ELSE self[x]]
\* fill_with_curated: temp = curated; swap(self, temp); self.merge_from(temp)
FillWithCurated(self, curated) == MergeFrom(curated, self)
\* serde: transparent map of Option<bool>; JSON null <-> None
CfgToJson(c) == c
CfgFromJson(j) == j

\* Property level
OverlayOk(user, curated, result) ==
  \A k \in (DOMAIN user) \cup (DOMAIN curated) :
     Meaning(result, k) = IF Meaning(user, k) # "None" THEN Meaning(user, k) ELSE Meaning(curated, k)
MergeOk(a, b, result) ==
  \A k \in (DOMAIN a) \cup (DOMAIN b) :
     Meaning(result, k) = IF Meaning(b, k) # "None" THEN Meaning(b, k) ELSE Meaning(a, k)
=============================================================================
