---------------------------- MODULE CommentLines ----------------------------
(* The line-based comment parsers (harper-comments/src/comment_parsers/unit.rs,   *)
(* jsdoc.rs, mod.rs: CodeFenceTracker).  A comment block reaches them as one text; *)
(* they split it at line feeds, strip the comment leader of each line, hand the    *)
(* rest to the inner (Markdown) parser and move the resulting tokens by the        *)
(* characters traversed so far.  Lines between two Markdown code fences are code   *)
(* and are skipped (their length still counts).  Properties C04 / C02.             *)
(*                                                                                 *)
(* A line is [kind, lead, body]: kind "prose" (its body is one word), "dir" (a     *)
(* tool directive such as `noqa`; prose for the code as it is), and fence lines:    *)
(* "bt" / "tl" three backticks / tildes, "bt4" / "tl4" four of them, "bti" / "tli"   *)
(* three with an info string behind them; lead = width of the stripped leader.       *)
(*                                                                                 *)
(* Named deviations (constants):                                                    *)
(*   Recognised = {"bt"}          before the repair 5b2d4d0: tilde fences unknown    *)
(*   CloseByAny = TRUE            a seeded change: one flag toggled by either kind   *)
(*   Directives = "skip-uncounted" a seeded change: directive lines dropped without  *)
(*                                counting their length ("skip-counted" would be a   *)
(*                                correct way to drop them; "prose" is the code)     *)
(*   Tracked = FALSE              before the repair e9361fe (JSDoc): no fence state  *)
(*   CloseAnyLength = TRUE        the first form of the repair: any fence of the     *)
(*                                same kind closed a block (a block opened by four   *)
(*                                backticks was closed by an inner line of three)    *)
EXTENDS Naturals, Sequences, FiniteSets, TLC
CONSTANTS MaxLines, Recognised, CloseByAny, Directives, Tracked, CloseAnyLength
VARIABLES lines
Kinds == {"prose", "dir", "bt", "tl", "bt4", "tl4", "bti", "tli"}
IsFence(k) == k \notin {"prose", "dir"}
FenceChar(k) == IF k \in {"bt", "bt4", "bti"} THEN "bt" ELSE "tl"
FenceLen(k) == IF k \in {"bt4", "tl4"} THEN 4 ELSE 3
HasInfo(k) == k \in {"bti", "tli"}
None == [ch |-> "none", len |-> 0]
LineSet == [kind : Kinds, lead : 1..2, body : 1..2]
LineLen(ln) == ln.lead + ln.body
\* offset of line i in the block (lines are joined by one line feed)
RECURSIVE Start(_, _)
Start(ls, i) == IF i = 1 THEN 0 ELSE Start(ls, i - 1) + LineLen(ls[i - 1]) + 1
BodyChars(ls, i, at) == {at + ls[i].lead + k : k \in 0..(ls[i].body - 1)}

\* ---- what Markdown means: a block opened by a fence is closed by the next fence of the same kind
RECURSIVE OpenAfter(_, _)
OpenAfter(ls, i) ==     \* the fence open after line i: [ch, len] (None when outside a block)
  IF i = 0 THEN None
  ELSE LET before == OpenAfter(ls, i - 1) k == ls[i].kind IN
       IF ~IsFence(k) THEN before
       ELSE IF before = None THEN [ch |-> FenceChar(k), len |-> FenceLen(k)]
       ELSE IF before.ch = FenceChar(k) /\ FenceLen(k) >= before.len /\ ~HasInfo(k) THEN None ELSE before
IsCodeLine(ls, i) == OpenAfter(ls, i - 1) # None \/ IsFence(ls[i].kind)
Prose(ls) == UNION {BodyChars(ls, i, Start(ls, i)) : i \in {j \in DOMAIN ls : ~IsCodeLine(ls, j)}}

\* ---- what the parser does
ParserSees(k) == FenceChar(k) \in Recognised
RECURSIVE Run(_, _, _, _, _)
Run(ls, i, traversed, open, offered) ==
  IF i > Len(ls) THEN offered
  ELSE LET ln == ls[i]
           fence == IF IsFence(ln.kind) /\ ParserSees(ln.kind) /\ Tracked THEN [ch |-> FenceChar(ln.kind), len |-> FenceLen(ln.kind)] ELSE None
           closes == open # None /\ fence # None
                     /\ (CloseByAny \/ (open.ch = fence.ch /\ (CloseAnyLength \/ (fence.len >= open.len /\ ~HasInfo(ln.kind)))))
           open2 == IF fence = None THEN open ELSE IF open = None THEN fence ELSE IF closes THEN None ELSE open
           next == traversed + LineLen(ln) + 1
       IN IF open2 # None THEN Run(ls, i + 1, next, open2, offered)                   \* inside a block: skipped, counted
          ELSE IF ln.kind = "dir" /\ Directives = "skip-counted" THEN Run(ls, i + 1, next, open2, offered)
          ELSE IF ln.kind = "dir" /\ Directives = "skip-uncounted" THEN Run(ls, i + 1, traversed, open2, offered)
          ELSE IF IsFence(ln.kind) THEN Run(ls, i + 1, next, open2, offered)           \* a closing (or unknown) fence line: the inner
                                                                                        \* parser makes it unlintable
          ELSE Run(ls, i + 1, next, open2, offered \cup BodyChars(ls, i, traversed))
Offered(ls) == Run(ls, 1, 0, None, {})
\* an unrecognised fence line is handed to the inner parser as a line of its own, which (being Markdown) makes an
\* unlintable code block of it: it is never offered.  Lines of code behind it are what goes wrong.

CLInit == lines = <<>>
CLNext == Len(lines) < MaxLines /\ \E ln \in LineSet : lines' = Append(lines, ln)
\* C04: exactly the prose of the comment is offered, each character at its true offset
ExpectedProse(ls) == IF Directives = "prose" THEN Prose(ls)
                     ELSE UNION {BodyChars(ls, i, Start(ls, i)) : i \in {j \in DOMAIN ls : ~IsCodeLine(ls, j) /\ ls[j].kind # "dir"}}
OfferedIsProse == Offered(lines) = ExpectedProse(lines)
=============================================================================
