---------------------------- MODULE PosEncodingOps ----------------------------
(* Operators of PosEncoding (no state): widths per unit, the LSP reading of a       *)
(* position in a unit, both conversion directions, the client's edit application.   *)
EXTENDS Naturals, Integers, Sequences, FiniteSets, TLC, SpansOps

Encodings == {"utf-8", "utf-16", "utf-32"}
W(c, enc) == CASE enc = "utf-32" -> 1
               [] enc = "utf-16" -> (IF c = "a" THEN 2 ELSE 1)
               [] OTHER -> (CASE c = "a" -> 4 [] c = "b3" -> 3 [] c = "b2" -> 2 [] OTHER -> 1)
RECURSIVE UnitsE(_, _)
UnitsE(s, enc) == IF s = <<>> THEN 0 ELSE W(Head(s), enc) + UnitsE(Tail(s), enc)

Effective(ann) == IF ann = "none" THEN "utf-16" ELSE ann
\* what the server may announce for an offer (a sequence of units, <<>> when the client sends none)
MayAnnounce(off) == {"none"} \cup (IF off = <<>> THEN {} ELSE {off[k] : k \in DOMAIN off} \cap Encodings)
\* the first unit of the client's list the server knows
FirstKnown(off) == IF \E k \in DOMAIN off : off[k] \in Encodings
                   THEN off[CHOOSE k \in DOMAIN off : off[k] \in Encodings /\ \A j \in 1..(k - 1) : off[j] \notin Encodings]
                   ELSE "none"

NLBeforeE(x, i) == {k \in 1..i : x[k] = "NL"}
LineOfE(x, i) == Cardinality(NLBeforeE(x, i))
LineStartE(x, i) == IF NLBeforeE(x, i) = {} THEN 0 ELSE CHOOSE k \in NLBeforeE(x, i) : \A j \in NLBeforeE(x, i) : j <= k
LspPosE(x, i, enc) == <<LineOfE(x, i), UnitsE(SubSeq(x, LineStartE(x, i) + 1, i), enc)>>
SpanToRangeE(x, s, e, enc) == <<LspPosE(x, s, enc), LspPosE(x, e, enc)>>
\* the reverse direction as the code does it: walk the line adding widths until the column is reached
RECURSIVE ScanE(_, _, _, _, _, _)
ScanE(x, k, stop, cols, want, enc) ==
  IF k >= stop THEN stop
  ELSE IF cols >= want THEN k
  ELSE ScanE(x, k + 1, stop, cols + W(x[k + 1], enc), want, enc)
LineEndE(x, line) == LET nls == {k \in 1..Len(x) : x[k] = "NL" /\ LineOfE(x, k - 1) = line} IN
                     IF nls = {} THEN Len(x) ELSE (CHOOSE k \in nls : TRUE) - 1
LineBeginE(x, line) == IF line = 0 THEN 0 ELSE LET nls == {k \in 1..Len(x) : x[k] = "NL" /\ LineOfE(x, k) = line} IN
                     IF nls = {} THEN Len(x) ELSE CHOOSE k \in nls : TRUE
PosToIndexE(x, p, enc, rev16) == ScanE(x, LineBeginE(x, p[1]), LineEndE(x, p[1]), 0, p[2], IF rev16 THEN "utf-16" ELSE enc)
ClientOffsetE(x, p, enc) == CHOOSE i \in 0..Len(x) : LspPosE(x, i, enc) = p
ClientApplyE(x, r, new, enc) == SubSeq(x, 1, ClientOffsetE(x, r[1], enc)) \o new \o SubSeq(x, ClientOffsetE(x, r[2], enc) + 1, Len(x))

=============================================================================
