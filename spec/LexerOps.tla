------------------------------ MODULE LexerOps ------------------------------
(* Transcription of harper-core/src/lexing/mod.rs (lex_token and its lexers   *)
(* in precedence order) and parsers/plain_english.rs (the tiling loop) over    *)
(* the class alphabet of module Alphabet.  lex_url and lex_email_address need  *)
(* ':' resp. '@', which the alphabet does not contain, so they return None on  *)
(* every model text (stated as UrlNone/EmailNone below).                       *)
EXTENDS Alphabet, Integers, TLC

None == [len |-> 0, kind |-> "None", n |-> 0]
Tok(kind, len, n) == [len |-> len, kind |-> kind, n |-> n]

\* number of leading elements of src that are in set S
RECURSIVE CountWhile(_, _)
CountWhile(src, S) == IF src = <<>> \/ Head(src) \notin S THEN 0 ELSE 1 + CountWhile(Tail(src), S)

At(src, i) == src[i + 1]                 \* 0-based indexing as in the code
Has(src, i) == i < Len(src)

------------------------------------------------------------------------------
\* lex_regexish: '[' (alnum ('-' alnum)?)+ ']'
RECURSIVE RegexLoop(_, _)
RegexLoop(src, i) ==
  \* returns the index of the closing ']' or -1
  IF ~Has(src, i) \/ At(src, i) \notin UniAlnum THEN -1
  ELSE LET i1 == i + 1
           i2 == IF Has(src, i1) /\ At(src, i1) = "Hyphen"
                 THEN (IF ~Has(src, i1 + 1) \/ At(src, i1 + 1) \notin UniAlnum THEN -1 ELSE i1 + 2)
                 ELSE i1
       IN IF i2 = -1 THEN -1
          ELSE IF ~Has(src, i2) \/ At(src, i2) # "CloseSquare" THEN RegexLoop(src, i2)
          ELSE i2
LexRegexish(src) ==
  IF ~Has(src, 0) \/ At(src, 0) # "OpenSquare" THEN None
  ELSE LET r == RegexLoop(src, 1) IN IF r = -1 THEN None ELSE Tok("Regexish", r + 1, 0)

\* lex_punctuation (lex_quote first)
LexPunctuation(src) ==
  IF src = <<>> THEN None
  ELSE IF Head(src) = "Quote" THEN Tok("Quote", 1, 0)
  ELSE IF Head(src) \in PunctChars THEN Tok(Head(src), 1, 0)
  ELSE None

LexTabs(src) == LET c == CountWhile(src, {"tab"}) IN IF c > 0 THEN Tok("Space", c, 2 * c) ELSE None
LexSpaces(src) == LET c == CountWhile(src, {"sp"}) IN IF c > 0 THEN Tok("Space", c, c) ELSE None
LexNewlines(src) == LET c == CountWhile(src, {"nl"}) IN IF c > 0 THEN Tok("Newline", c, c) ELSE None

\* lex_plural_digit: alnum, optional apostrophe, 's', then end or non-alnum
LexPluralDigit(src) ==
  IF src = <<>> \/ Head(src) \notin AsciiAlnum THEN None
  ELSE LET i1 == IF Has(src, 1) /\ At(src, 1) = "Apostrophe" THEN 2 ELSE 1 IN
       IF Has(src, i1) /\ At(src, i1) = "s"
       THEN (IF ~Has(src, i1 + 1) \/ At(src, i1 + 1) \notin AsciiAlnum THEN Tok("Word", i1 + 1, 0) ELSE None)
       ELSE None

\* lex_hex_number: 0x followed by hex digits; a non-hex alphanumeric aborts
RECURSIVE HexLoop(_, _)
HexLoop(src, i) ==
  IF ~Has(src, i) THEN i
  ELSE IF At(src, i) \in HexDigits THEN HexLoop(src, i + 1)
  ELSE IF At(src, i) \in UniAlnum THEN -1
  ELSE i
LexHex(src) ==
  IF Len(src) < 3 \/ At(src, 0) # "0" \/ At(src, 1) # "x" \/ At(src, 2) \notin HexDigits THEN None
  ELSE LET i == HexLoop(src, 2) IN
       IF i = -1 \/ i - 2 > 16 THEN None ELSE Tok("Number", i, 16)

\* lex_long_decade: [12] d d 0 s   (our "1" stands for 1|2)
LexLongDecade(src) ==
  IF Len(src) >= 5 /\ At(src, 0) = "1" /\ At(src, 1) \in Digits /\ At(src, 2) \in Digits
     /\ At(src, 3) = "0" /\ At(src, 4) = "s"
     /\ (~Has(src, 5) \/ At(src, 5) \notin UniAlnum)      \* the plural s must end the word
  THEN Tok("Decade", 5, 0) ELSE None

\* str::parse::<f64> restricted to the alphabet: d+ ('.' d*)? ('e' '-'? d+)?
RECURSIVE DigitsRun(_, _)
DigitsRun(src, i) == IF Has(src, i) /\ At(src, i) \in Digits THEN DigitsRun(src, i + 1) ELSE i
ParsesF64(src) ==
  LET a == DigitsRun(src, 0) IN
  IF a = 0 THEN FALSE
  ELSE LET b == IF Has(src, a) /\ At(src, a) = "Period" THEN DigitsRun(src, a + 1) ELSE a
           c == IF Has(src, b) /\ At(src, b) = "e"
                THEN LET b1 == IF Has(src, b + 1) /\ At(src, b + 1) = "Hyphen" THEN b + 2 ELSE b + 1
                         b2 == DigitsRun(src, b1)
                     IN IF b2 = b1 THEN -1 ELSE b2
                ELSE b
       IN c = Len(src)
\* lex_number: first char numeric; s = src[0..=last ascii digit]; longest prefix of s that parses
LastDigit(src) == LET S == {i \in 1..Len(src) : src[i] \in Digits} IN
                  IF S = {} THEN 0 ELSE CHOOSE i \in S : \A j \in S : j <= i
RECURSIVE LongestParse(_, _)
\* the literal must end in a digit (a trailing '.' is the sentence's period)
LongestParse(src, n) == IF n = 0 THEN 0
                        ELSE IF src[n] \in Digits /\ ParsesF64(SubSeq(src, 1, n)) THEN n ELSE LongestParse(src, n - 1)
LexNumber(src) ==
  IF src = <<>> \/ Head(src) \notin UniNumeric THEN None
  ELSE LET n == LongestParse(src, LastDigit(src)) IN IF n = 0 THEN None ELSE Tok("Number", n, 10)

UrlNone(src) == None        \* needs ':'
EmailNone(src) == None      \* needs '@'

\* lex_hostname / lex_hostname_token
RECURSIVE HostLoop(_, _)
HostLoop(src, i) ==      \* number of leading chars that are host chars or dots
  IF Has(src, i) /\ (At(src, i) \in HostChars \/ At(src, i) = "Period") THEN HostLoop(src, i + 1) ELSE i
LexHostnameLen(src) ==
  IF src = <<>> \/ Head(src) \notin AsciiAlnum THEN -1 ELSE HostLoop(src, 0)
LexHostname(src) ==
  LET len == LexHostnameLen(src) IN
  IF len <= 1 THEN None
  ELSE IF ~(\E k \in 1..(len - 2) : At(src, k) = "Period") THEN None
  ELSE IF At(src, len - 1) = "Period" THEN None
  ELSE Tok("Hostname", len, 0)

LexWord(src) == LET c == CountWhile(src, WordChars) IN IF c = 0 THEN None ELSE Tok("Word", c, 0)
LexCatch(src) == Tok("Unlintable", 1, 0)

\* lex_token: first lexer that answers wins
LexToken(src) ==
  LET try == <<LexRegexish(src), LexPunctuation(src), LexTabs(src), LexSpaces(src), LexNewlines(src),
               LexPluralDigit(src), LexHex(src), LexLongDecade(src), LexNumber(src), UrlNone(src),
               EmailNone(src), LexHostname(src), LexWord(src), LexCatch(src)>>
      first == CHOOSE i \in 1..Len(try) : try[i] # None /\ \A j \in 1..(i - 1) : try[j] = None
  IN try[first]

\* PlainEnglish::parse — the tiling loop; a token is [k, s, e, n]
RECURSIVE LexAll(_, _)
LexAll(text, cursor) ==
  IF cursor >= Len(text) THEN <<>>
  ELSE LET f == LexToken(SubSeq(text, cursor + 1, Len(text))) IN
       <<[k |-> f.kind, s |-> cursor, e |-> cursor + f.len, n |-> f.n, sfx |-> FALSE]>>
         \o LexAll(text, cursor + f.len)

\* progress contract of every lexer answer (C01: the loop terminates; C02: in bounds)
Progress(src) == LET f == LexToken(src) IN f.len >= 1 /\ f.len <= Len(src)
=============================================================================
