------------------------------ MODULE Patterns ------------------------------
(* Bounded enumeration of the pattern algebra: the environment builds a pattern  *)
(* AST of bounded depth and a token string; the invariants are the C01 contract. *)
EXTENDS PatternsOps

CONSTANTS MaxToks, Deep, FixedInvert

Kinds == {"w", "p", "s"}
Base == {[op |-> "Pred", k |-> "w"], [op |-> "Pred", k |-> "p"], [op |-> "Any"], [op |-> "WS"]}
Un(S) == {[op |-> "Invert", a |-> x] : x \in S} \cup {[op |-> "Consumes", a |-> x] : x \in S}
         \cup {[op |-> "Repeat", a |-> x, n |-> n] : x \in S, n \in {0, 2}}
Bin(S, T) == {[op |-> "Seq", ps |-> <<x, y>>] : x \in S, y \in T}
             \cup {[op |-> "Either", a |-> x, b |-> y] : x \in S, y \in T}
             \cup {[op |-> "All", a |-> x, b |-> y] : x \in S, y \in T}
D1 == Base \cup Un(Base) \cup Bin(Base, Base)
             \cup {[op |-> "Seq", ps |-> <<x, y, z>>] : x \in Base, y \in Un(Base), z \in Base}
\* depth 2: unary over depth 1, binary with one base side
D2 == D1 \cup Un(D1) \cup Bin(D1, Base) \cup Bin(Base, D1)
Pats == IF Deep THEN D2 ELSE D1

VARIABLES pat, toks, phase
pvars == <<pat, toks, phase>>

PInit == pat \in Pats /\ toks = <<>> /\ phase = "build"
AddTok == phase = "build" /\ Len(toks) < MaxToks /\ \E k \in Kinds : toks' = Append(toks, k)
          /\ UNCHANGED <<pat, phase>>
Run == phase = "build" /\ phase' = "run" /\ UNCHANGED <<pat, toks>>
PNext == AddTok \/ Run

MatchContract == phase = "run" => Contract(pat, toks, FixedInvert)
ChunkLoopOk == phase = "run" => ChunkOk(pat, toks, FixedInvert)
=============================================================================
