----------------------------- MODULE PosEncoding -----------------------------
(* The unit positions are counted in (LSP 3.17 general.positionEncodings /          *)
(* capabilities.positionEncoding) and what C08 means under each unit.               *)
(*                                                                                  *)
(* harper-ls as it stands never answers the offer: the effective unit is UTF-16,    *)
(* whatever the client lists (Negotiates = FALSE).  The module also says what a      *)
(* server that does answer must keep: the announced unit is one the client offered   *)
(* (UTF-16 is always allowed), and BOTH directions - span -> range for diagnostics   *)
(* and edits, range -> span for the code-action lookup - count in that unit.         *)
(* ReverseIn16 = TRUE is the named deviation "the lookup still counts UTF-16".        *)
(*                                                                                  *)
(* Classes: "NL", "CR", "b1" ASCII, "b2" two UTF-8 bytes, "b3" three UTF-8 bytes      *)
(* (all one UTF-16 unit), "a" astral (four bytes, two units).  "b" = "b1".            *)
EXTENDS PosEncodingOps
CONSTANTS MaxLen, Negotiates, ReverseIn16
VARIABLES t, offered, announced

Classes == {"NL", "CR", "b1", "b2", "a"}
Offers == {<<>>, <<"utf-16">>, <<"utf-8", "utf-16">>, <<"utf-32", "utf-16">>, <<"utf-8">>, <<"ucs-2", "utf-32", "utf-16">>}
PEInit == t = <<>> /\ offered = <<>> /\ announced = "unset"
Initialize == /\ announced = "unset"
              /\ \E off \in Offers : offered' = off /\ announced' = (IF Negotiates THEN FirstKnown(off) ELSE "none")
              /\ UNCHANGED t
Type == announced # "unset" /\ Len(t) < MaxLen /\ \E c \in Classes : t' = Append(t, c) /\ UNCHANGED <<offered, announced>>
PENext == Initialize \/ Type
WellFormedE(x) == \A k \in DOMAIN x : x[k] = "CR" => (k < Len(x) /\ x[k + 1] = "NL")
LineSpansE == {sp \in (0..Len(t)) \X (0..Len(t)) : sp[1] < sp[2] /\ \A k \in (sp[1] + 1)..sp[2] : t[k] \notin {"NL", "CR"}}
Enc == Effective(announced)

AnnouncedWasOffered == announced # "unset" => announced \in MayAnnounce(offered)
LookupInsideE == (announced # "unset" /\ WellFormedE(t)) => \A sp \in LineSpansE : \A i \in sp[1]..(sp[2] - 1) :
   LET idx == PosToIndexE(t, LspPosE(t, i, Enc), Enc, ReverseIn16) IN sp[1] < idx + 1 /\ idx < sp[2]
EditEqualsSuggestionE == (announced # "unset" /\ WellFormedE(t)) => \A sp \in LineSpansE :
   LET r == SpanToRangeE(t, sp[1], sp[2], Enc) flagged == SubSeq(t, sp[1] + 1, sp[2]) new == <<"b1", "a">> IN
   /\ ClientApplyE(t, r, new, Enc) = Apply("ReplaceWith", new, sp[1], sp[2], t)
   /\ ClientApplyE(t, r, <<>>, Enc) = Apply("Remove", <<>>, sp[1], sp[2], t)
   /\ ClientApplyE(t, r, flagged \o new, Enc) = Apply("InsertAfter", new, sp[1], sp[2], t)
=============================================================================
