------------------------------- MODULE Spans -------------------------------
(* Step-by-step model of Suggestion::apply (three branches, as in the code):   *)
(*  ReplaceWith, equal length : in-place copy, one character per step          *)
(*  ReplaceWith, other length : split_off(start); extend(repl); extend(skip)   *)
(*  Remove                    : shift left one character per step; truncate    *)
(*  InsertAfter               : split_off(end); extend(repl); extend(popped)   *)
EXTENDS SpansOps

CONSTANTS MaxLen, MaxRepl

VARIABLES text, kind, repl, s, e, src, popped, k, pc
svars == <<text, kind, repl, s, e, src, popped, k, pc>>

Kinds == {"ReplaceWith", "InsertAfter", "Remove"}

\* characters are distinct identities: 1..n for the text, 101.. for the replacement
SpInit ==
  /\ \E n \in 0..MaxLen : text = [i \in 1..n |-> i]
  /\ kind \in Kinds
  /\ \E r \in 0..MaxRepl : repl = [i \in 1..r |-> 100 + i]
  /\ \E a \in 0..MaxLen, b \in 0..MaxLen : a <= b /\ b <= Len(text) /\ s = a /\ e = b
  /\ (kind = "Remove" => repl = <<>>)
  /\ src = text /\ popped = <<>> /\ k = 0 /\ pc = "start"

Dispatch ==
  /\ pc = "start"
  /\ pc' = CASE kind = "ReplaceWith" /\ Len(repl) = e - s -> "copy"
             [] kind = "ReplaceWith" /\ Len(repl) # e - s -> "split"
             [] kind = "Remove" -> "shift"
             [] kind = "InsertAfter" -> "split"
  /\ k' = (IF kind = "Remove" THEN e ELSE 0)
  /\ UNCHANGED <<text, kind, repl, s, e, src, popped>>

\* for (index, c) in chars.iter().enumerate() { source[index + span.start] = *c }
CopyStep ==
  /\ pc = "copy" /\ k < Len(repl)
  /\ src' = [src EXCEPT ![k + s + 1] = repl[k + 1]]
  /\ k' = k + 1
  /\ UNCHANGED <<text, kind, repl, s, e, popped, pc>>
CopyEnd == pc = "copy" /\ k >= Len(repl) /\ pc' = "done"
           /\ UNCHANGED <<text, kind, repl, s, e, src, popped, k>>

\* let popped = source.split_off(at)
SplitOff ==
  /\ pc = "split"
  /\ LET at == IF kind = "InsertAfter" THEN e ELSE s IN
       /\ popped' = Suffix(src, at)
       /\ src' = Prefix(src, at)
  /\ pc' = "extend"
  /\ UNCHANGED <<text, kind, repl, s, e, k>>
\* source.extend(chars)
Extend == pc = "extend" /\ src' = src \o repl /\ pc' = "rejoin"
          /\ UNCHANGED <<text, kind, repl, s, e, popped, k>>
\* source.extend(popped.into_iter().skip(span.len()))  /  source.extend(popped)
Rejoin ==
  /\ pc = "rejoin"
  /\ src' = src \o (IF kind = "InsertAfter" THEN popped ELSE Suffix(popped, e - s))
  /\ pc' = "done"
  /\ UNCHANGED <<text, kind, repl, s, e, popped, k>>

\* for i in span.end..source.len() { source[i - span.len()] = source[i] }
ShiftStep ==
  /\ pc = "shift" /\ k < Len(src)
  /\ src' = [src EXCEPT ![k - (e - s) + 1] = src[k + 1]]
  /\ k' = k + 1
  /\ UNCHANGED <<text, kind, repl, s, e, popped, pc>>
\* source.truncate(source.len() - span.len())
Truncate == pc = "shift" /\ k >= Len(src)
            /\ src' = Prefix(src, Len(src) - (e - s)) /\ pc' = "done"
            /\ UNCHANGED <<text, kind, repl, s, e, popped, k>>

SpNext == Dispatch \/ CopyStep \/ CopyEnd \/ SplitOff \/ Extend \/ Rejoin \/ ShiftStep \/ Truncate

AlgRefinesApply == pc = "done" => src = Apply(kind, repl, s, e, text)
ApplyIsLocal == pc = "done" => LocalEdit(kind, repl, s, e, text, Apply(kind, repl, s, e, text))
\* indices stay inside the vector at every step (an out-of-range index is a panic)
InBounds ==
  /\ (pc = "copy" /\ k < Len(repl)) => k + s + 1 \in DOMAIN src
  /\ (pc = "shift" /\ k < Len(src)) => (k - (e - s) + 1) \in DOMAIN src
=============================================================================
