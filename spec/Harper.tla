-------------------------------- MODULE Harper --------------------------------
(* Root of the Harper specification: one place that names, per listed property,  *)
(* the module that states it and the definitions that carry it.  The operator     *)
(* modules (XOps) are instantiated here; the state machines explored by TLC live  *)
(* in the modules of the same name without "Ops" (bounded configurations in mc/,   *)
(* trace specifications in trace/).                                                *)
(*                                                                                 *)
(*  layer 1 - pure text:   Alphabet, SpansOps, OverlapsOps, LexerOps, CondenseOps,  *)
(*                         PatternsOps, OrdinalOps, TitleCaseOps, PosConvOps,       *)
(*                         PosEncodingOps                                          *)
(*  layer 2 - dictionaries: DictOps, (Spell, Dict)                                  *)
(*  layer 3 - stateful components: LintGroup, ConfigOps, IgnoreOps, StatsLog,       *)
(*                         DictFile, FileDictName, SourceFile, SegmentsOps,           *)
(*                         StatsSession, PosEncoding, CommentLines, UserDict         *)
(*  layer 4 - long-lived objects: JsLinter (harper-wasm), LspServer (harper-ls),     *)
(*                         EffectsOps (process boundary)                             *)
EXTENDS Naturals, Sequences

Sp == INSTANCE SpansOps
Ov == INSTANCE OverlapsOps
Co == INSTANCE CondenseOps          \* includes LexerOps and Alphabet
Pa == INSTANCE PatternsOps
Or == INSTANCE OrdinalOps
Di == INSTANCE DictOps
Cf == INSTANCE ConfigOps
Ig == INSTANCE IgnoreOps
Po == INSTANCE PosConvOps
Ef == INSTANCE EffectsOps
Sg == INSTANCE SegmentsOps
Pe == INSTANCE PosEncodingOps

\* C01  a check request returns: every pattern honours the match contract, the lexer advances
C01_MatchContract(p, toks) == Pa!Contract(p, toks, TRUE)
C01_ChunkLoop(p, chunk) == Pa!ChunkOk(p, chunk, TRUE)
C01_LexerProgress(src) == Co!Progress(src)
\* C02  tokens are in bounds, ordered, disjoint, tiling (plain) and well shaped
C02_WellFormed(text, toks, plain) == Co!WellFormed(text, toks, plain, Co!ModelNumShape)
\* C03  a lint points into the text; a suggestion is an exact local edit
C03_SpanOk(s, e, len) == Sp!SpanOk(s, e, len)
C03_Edit(kind, repl, s, e, before, after) == after = Sp!Apply(kind, repl, s, e, before) /\ Sp!LocalEdit(kind, repl, s, e, before, after)
\* C04  only prose is offered, at its true offset          -> SourceFile!OnlyProseIsMasked, Trace_SourceFile;
\*                                                            comment blocks line by line, code fences -> CommentLines!OfferedIsProse
\* C05  caches are unobservable                            -> LintGroup!CacheUnobservable
\* C06  reported misspelt exactly when not in the dictionary -> Spell!ListedAccepted, CasedFormsAccepted, UnknownFlagged
\* C07  added words are accepted and never lost            -> DictFile!NeverLosesExceptKnown, JsLinter!ImportedWordsAccepted,
\*                                                            FileDictName!Fits, Distinct, DictPath!SavedWhereConfigured
\* C08  diagnostics and edits land on the flagged text
C08_RangeCovers(t, s, e) == Po!RangeToSpan(t, Po!SpanToRange(t, s, e), TRUE) = <<s, e>>
C08_ClientEdit(t, s, e, new) == Po!ClientApply(t, Po!SpanToRange(t, s, e), new) = Sp!Apply("ReplaceWith", new, s, e, t)
\*      ... in the unit the server announced for the client's offer (UTF-16 when it announced none) -> PosEncoding, Trace_PosProto
C08_Announce(offered, announced) == announced \in Pe!MayAnnounce(offered)
C08_ClientEditIn(t, s, e, new, enc) == Pe!ClientApplyE(t, Pe!SpanToRangeE(t, s, e, enc), new, enc) = Sp!Apply("ReplaceWith", new, s, e, t)
\* C09  the server's last word is the latest text          -> LspServer!LastWordUnlessOverlapped, ComesToRest;
\*                                                            under the current user dictionary -> UserDict!AcceptedEverywhere
\* C10  the text never leaves the machine
C10_EffectAllowed(mode, e) == Ef!EffectOk(mode, e)
C10_ForbiddenDependency(name) == name \in Ef!ForbiddenDeps
\* C11  rule switches do what they say
C11_Overlay(user, curated) == Cf!OverlayOk(user, curated, Cf!FillWithCurated(user, curated))
C11_Merge(a, b) == Cf!MergeOk(a, b, Cf!MergeFrom(a, b))
\* C12  paragraphs compose                                  -> Paragraphs!Composes, Segments!Composes
C12_Cut(kinds, which, slices) == Sg!PropertyOk(kinds, slices) /\ slices = Sg!Split(kinds, Sg!TermOf(which))
\* C13  overlap removal returns a conflict-free sub-list
C13_Post(in, out) == Ov!Post(in, out)
\* C14  ignoring hides that lint, only it, durably          -> Ignore!HidesIt, OnlyIt, KeepsHiding
C14_Identity(doc, lint) == Ig!PId(doc, lint)
\* C15  dictionary back-ends agree; fuzzy search is sound and complete for lower case
C15_Fuzzy(words, q, bound, cap, res) == Di!FuzzySound(words, q, bound, cap, res) /\ Di!FuzzyComplete(words, q, bound, cap, res)
C15_Distance(a, b) == Di!WagnerFischer(a, b) = Di!Lev(a, b)
\* C16  the JS-facing API is self-consistent                -> JsLinter!CloneBehavesTheSame, AnswerIsCurrent, Trace_JsLinter
\* C17  ordinal suffixes
C17_Verdict(d, sfx, lower) == Or!RuleVerdict(d, sfx, lower, TRUE) = Or!PropertyVerdict(d, sfx)
\* C18  title-casing only changes case and is idempotent    -> TitleCase!LengthKept, OnlyCase, FirstCap, Idempotent
\* C19  the statistics log reads back what was written      -> StatsLog!ReadsBack, NoRawBreakInRecord, SummaryCountsOnce,
\*                                                            BufferedReadsBack; sessions with a moving statsPath -> StatsSession!EachAppliedOnce,
\*                                                            NeverTwice, InOrder (Trace_StatsSession)
=============================================================================
