------------------------------ MODULE PosConvOps ------------------------------
(* Position conversion (harper-ls/src/pos_conv.rs) and the code-action lookup and   *)
(* edit construction (document_state.rs, diagnostics.rs).  Property C08.             *)
(* A text is a sequence of character classes: "NL" line feed, "CR" carriage return   *)
(* (only directly before NL), "b" a BMP character (1 UTF-16 unit), "a" an astral     *)
(* character (2 units).  A position is <<line, col>> with col in UTF-16 units.        *)
EXTENDS Naturals, Integers, Sequences, FiniteSets, TLC

W16(c) == IF c = "a" THEN 2 ELSE 1
RECURSIVE Units(_)
Units(s) == IF s = <<>> THEN 0 ELSE W16(Head(s)) + Units(Tail(s))

\* LSP meaning of a 0-based character index (property level)
NLBefore(t, i) == {k \in 1..i : t[k] = "NL"}
LineOf(t, i) == Cardinality(NLBefore(t, i))
LineStart(t, i) == IF NLBefore(t, i) = {} THEN 0 ELSE CHOOSE k \in NLBefore(t, i) : \A j \in NLBefore(t, i) : j <= k
LspPos(t, i) == <<LineOf(t, i), Units(SubSeq(t, LineStart(t, i) + 1, i))>>

\* index_to_position, as in the code
IndexToPos(t, i) == LspPos(t, i)

\* position_to_index, as in the code.  lastLineFix = FALSE: before the repair, a last line
\* without trailing line feed is looked up on the line before it.
AfterNL(t) == SelectSeq([k \in 1..Len(t) |-> k], LAMBDA k : t[k] = "NL")   \* = idx + 1 in 0-based terms
RECURSIVE Scan(_, _, _, _, _)
Scan(t, k, stop, cols, want) ==      \* k: 0-based index being looked at
  IF k >= stop THEN <<FALSE, cols>>
  ELSE IF cols = want THEN <<TRUE, k>>
  ELSE Scan(t, k + 1, stop, cols + W16(t[k + 1]), want)
PosToIndex(t, p, lastLineFix) ==
  LET nl == AfterNL(t)
      taken == SubSeq(nl, 1, IF p[1] + 1 <= Len(nl) THEN p[1] + 1 ELSE Len(nl))
      lastNonEmpty == Len(nl) = p[1] /\ p[1] > 0 /\ nl[Len(nl)] < Len(t)
      lineEnd == IF lastLineFix /\ lastNonEmpty THEN Len(t)
                 ELSE IF taken = <<>> THEN Len(t) ELSE taken[Len(taken)]
      lineStart == IF lastLineFix /\ lastNonEmpty THEN nl[Len(nl)]
                   ELSE IF Len(taken) >= 2 THEN taken[Len(taken) - 1] ELSE 0
      r == Scan(t, lineStart, lineEnd, 0, p[2])
  IN IF r[1] THEN r[2] ELSE IF r[2] > 0 THEN lineEnd ELSE lineStart

SpanToRange(t, s, e) == <<IndexToPos(t, s), IndexToPos(t, e)>>
RangeToSpan(t, r, fx) == <<PosToIndex(t, r[1], fx), PosToIndex(t, r[2], fx)>>

\* well-formed texts for the property: CR only directly before NL
WellFormedText(t) == \A k \in DOMAIN t : t[k] = "CR" => (k < Len(t) /\ t[k + 1] = "NL")
\* a lint never spans a line break in these checks; its span is [s, e) with s < e
\* code-action lookup: range_to_span(range).with_len(1) overlaps the lint span
LookupHits(t, s, e, i, fx) ==
  LET idx == PosToIndex(t, IndexToPos(t, i), fx) IN (s < idx + 1) /\ (idx < e)

\* client-side application of a text edit: replace the UTF-16 range by newText
ClientOffset(t, p) ==     \* the index the LSP specification assigns to a position (declarative)
  CHOOSE i \in 0..Len(t) : LspPos(t, i) = p
ClientApply(t, r, new) == SubSeq(t, 1, ClientOffset(t, r[1])) \o new \o SubSeq(t, ClientOffset(t, r[2]) + 1, Len(t))
=============================================================================
