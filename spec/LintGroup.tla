------------------------------ MODULE LintGroup ------------------------------
(* The lint group with its chunk cache (harper-core/src/linting/lint_group.rs:     *)
(* LintGroup::lint).  Properties C05 (caches unobservable), C11 (rule switches),   *)
(* C12 (paragraph locality at the level of the group).                             *)
(*                                                                                  *)
(* A document is [lang, chunks], each chunk [chars, toks]: the characters it spans  *)
(* and the token sequence the front-end produced for them (an abstract id).  Rule   *)
(* semantics is uninterpreted: a whole-document rule r on document d yields the     *)
(* lint <<r, "doc", d>>, a pattern rule r on a chunk yields <<r, toks>> - i.e. the  *)
(* result is a function of exactly what the real rule may read.                      *)
(* The cache maps <<chars, configHash>> (KeyHasTokens = FALSE, the code as it was)   *)
(* or <<chars, toks, configHash>> (KeyHasTokens = TRUE, the repaired key) to the     *)
(* lints computed when the entry was inserted; LRU with capacity Cap.                *)
(* A chunk may also record what stands before it (`before`: the terminator or break   *)
(* that closed the previous chunk).  A pattern rule in Peeking reads that too - a      *)
(* deviation a seeded change introduced (a rule walking the source past the start of   *)
(* its chunk); the cache key cannot know, so the same chunk behind two different        *)
(* neighbours shows the cache.  Peeking = {} is the code as it is.                      *)
EXTENDS Naturals, Sequences, FiniteSets, TLC

CONSTANTS WholeRules, PatternRules, Docs, Cap, KeyHasTokens, MaxOps, Peeking
Rules == WholeRules \cup PatternRules

VARIABLES enabled,     \* set of enabled rules (the effective configuration)
          cache,       \* LRU: sequence of [key, val], most recently used last
          result,      \* what the last Lint returned
          fresh,       \* what a freshly built group returns for the same request
          hits,        \* number of cache hits of the last Lint
          lintedWith,  \* the configuration the last Lint ran under
          nops
lgvars == <<enabled, cache, result, fresh, hits, lintedWith, nops>>

CfgHash(E) == E                                  \* the hash distinguishes configurations
Key(ch, E) == IF KeyHasTokens THEN <<ch.chars, ch.toks, CfgHash(E)>> ELSE <<ch.chars, CfgHash(E)>>
Before(ch) == IF "before" \in DOMAIN ch THEN ch.before ELSE "start"
PatternLints(ch, E) == {<<r, ch.toks>> : r \in (PatternRules \cap E) \ Peeking}
                       \cup {<<r, ch.toks, Before(ch)>> : r \in PatternRules \cap E \cap Peeking}
WholeLints(d, E) == {<<r, "doc", d>> : r \in WholeRules \cap E}

\* what a fresh group (empty cache) returns
LintFresh(d, E) == [whole |-> WholeLints(d, E),
                    chunks |-> [i \in DOMAIN d.chunks |-> PatternLints(d.chunks[i], E)]]

Find(c, k) == {i \in DOMAIN c : c[i].key = k}
Touch(c, i) == SubSeq(c, 1, i - 1) \o SubSeq(c, i + 1, Len(c)) \o <<c[i]>>
PutLRU(c, k, v) == LET c2 == Append(c, [key |-> k, val |-> v]) IN
                   IF Len(c2) > Cap THEN Tail(c2) ELSE c2

\* the chunk loop of LintGroup::lint, chunk by chunk: returns <<cache, results, hits>>
RECURSIVE ChunkLoop(_, _, _, _, _, _)
ChunkLoop(chs, i, E, c, acc, h) ==
  IF i > Len(chs) THEN <<c, acc, h>>
  ELSE LET k == Key(chs[i], E) f == Find(c, k) IN
       IF f # {} THEN LET j == CHOOSE j \in f : TRUE IN
                      ChunkLoop(chs, i + 1, E, Touch(c, j), Append(acc, c[j].val), h + 1)
       ELSE LET v == PatternLints(chs[i], E) IN
            ChunkLoop(chs, i + 1, E, PutLRU(c, k, v), Append(acc, v), h)

LGInit == enabled \in SUBSET Rules /\ cache = <<>> /\ result = <<>> /\ fresh = <<>> /\ hits = 0 /\ lintedWith = {} /\ nops = 0

SetConfig(E) == nops < MaxOps /\ enabled' = E /\ nops' = nops + 1 /\ UNCHANGED <<cache, result, fresh, hits, lintedWith>>
Lint(d) ==
  /\ nops < MaxOps
  /\ LET r == ChunkLoop(d.chunks, 1, enabled, cache, <<>>, 0) IN
       /\ cache' = r[1]
       /\ result' = [whole |-> WholeLints(d, enabled), chunks |-> r[2]]
       /\ hits' = r[3]
  /\ fresh' = LintFresh(d, enabled)
  /\ lintedWith' = enabled
  /\ nops' = nops + 1 /\ UNCHANGED enabled
LGNext == (\E E \in SUBSET Rules : SetConfig(E)) \/ (\E d \in Docs : Lint(d))

\* C05: internal caches are unobservable
CacheUnobservable == result = fresh
\* C11: the result under E is the combination of each enabled rule on its own; a rule
\* that is off contributes nothing
RuleOf(lint) == lint[1]
Decomposes ==
  result # <<>> =>
    /\ \A l \in result.whole : RuleOf(l) \in lintedWith
    /\ \A i \in DOMAIN result.chunks : \A l \in result.chunks[i] : RuleOf(l) \in lintedWith
=============================================================================
