--------------------------------- MODULE Dict ---------------------------------
(* Bounded exploration for C15: every word list within bounds (insertion order    *)
(* matters), every query: the back-ends' exact answers against the set-theoretic   *)
(* definition, merged = union, the two-row distance = the recursive definition,    *)
(* and the mutable back-end's fuzzy search is sound and complete.                  *)
(* DedupByConcat = TRUE is a deviation a seeded change introduced: add_dictionary      *)
(* skips a child whose hash is already present, and the hash runs over the words'       *)
(* characters with nothing between them - {a, b} and {ab} collide and the second is     *)
(* dropped.                                                                             *)
EXTENDS DictOps

CONSTANTS Chars, MaxWord, MaxDict, MaxBound, DedupByConcat

VARIABLES ws, phase
dvars == <<ws, phase>>

Words == UNION {[1..n -> Chars] : n \in 1..MaxWord}
Queries == Words \cup {<<>>}

DInit == ws = <<>> /\ phase = "build"
Insert == phase = "build" /\ Len(ws) < MaxDict /\ \E w \in Words : ws' = Append(ws, w) /\ UNCHANGED phase
Freeze == phase = "build" /\ phase' = "query" /\ UNCHANGED ws
DNext == Insert \/ Freeze

\* the word set the user put in, up to Id (a later spelling replaces an earlier one)
\* Set-theoretic reading of the queries
SpecContains(q) == \E i \in DOMAIN ws : Id(ws[i]) = Id(q)

ContainsIsMembership == phase = "query" => \A q \in Queries : MutContains(ws, q) = SpecContains(q)
\* FST and mutable agree on every exact query - unless two entries share an Id, where the
\* survivor depends on insertion order (mutable) vs. sort order (FST): named deviation
BackendsAgree == phase = "query" /\ ~HasIdClash(ws) =>
   \A q \in Queries : /\ FstContains(ws, q) = MutContains(ws, q)
                      /\ FstExact(ws, q) = MutExact(ws, q)
                      /\ FstCanon(ws, q) = MutCanon(ws, q)
BackendsAgreeOnMembership == phase = "query" => \A q \in Queries : FstContains(ws, q) = MutContains(ws, q)
\* merged = union of its parts, for every split of the list into two children
RECURSIVE ConcatAll(_)
ConcatAll(c) == IF c = <<>> THEN <<>> ELSE Head(c) \o ConcatAll(Tail(c))
SecondChild(c1, c2) == IF DedupByConcat /\ c1 # <<>> /\ ConcatAll(c1) = ConcatAll(c2) THEN <<>> ELSE c2
MergedIsUnion == phase = "query" =>
   \A k \in 0..Len(ws) : LET c1 == SubSeq(ws, 1, k) c2 == SecondChild(SubSeq(ws, 1, k), SubSeq(ws, k + 1, Len(ws))) IN
     \A q \in Queries : /\ MergedContains(c1, c2, q) = (MutContains(c1, q) \/ MutContains(c2, q))
                        /\ (~HasIdClash(ws) => MergedContains(c1, c2, q) = MutContains(ws, q))
                        /\ (~HasIdClash(ws) => MergedExact(c1, c2, q) = MutExact(ws, q))
                        /\ (~HasIdClash(ws) => MergedCanon(c1, c2, q) = MutCanon(ws, q))
\* exact implies membership; canonical spelling is a listed word with the same Id
ExactSane == phase = "query" => \A q \in Queries :
   /\ MutExact(ws, q) => MutContains(ws, q)
   /\ MutContains(ws, q) => (MutCanon(ws, q) \in {ws[i] : i \in DOMAIN ws} /\ Id(MutCanon(ws, q)) = Id(q))
DistanceAlgorithms == phase = "query" => \A a \in Queries, b \in Queries :
   /\ WagnerFischer(a, b) = Lev(a, b)
   /\ LevDP(a, b) = Lev(a, b)
MutFuzzySoundComplete == phase = "query" => \A q \in Queries, bd \in 0..MaxBound :
   LET S == MutFuzzySet(ws, q, bd) IN
   /\ \A w \in S : w \in MutWords(ws) /\ QDist(q, w) <= bd
   /\ \A w \in MutWords(ws) : QDist(q, w) <= bd => w \in S
=============================================================================
