------------------------------ MODULE Segments ------------------------------
(* State machine: a token list grows one token at a time; after every step all   *)
(* three cuttings are compared with the closed form and with the property.       *)
EXTENDS SegmentsOps
CONSTANTS MaxLen, Alphabet, MiddleFrom, DropTerm
VARIABLES ks
Init == ks = <<>>
Next == Len(ks) < MaxLen /\ \E k \in Alphabet : ks' = Append(ks, k)
Spec == Init /\ [][Next]_ks

Alg(which) == AlgSplitWith(ks, TermOf(which), MiddleFrom, DropTerm)
Which == {"chunks", "sentences", "paragraphs"}
AlgIsClosedForm == \A w \in Which : Alg(w) = Split(ks, TermOf(w))
AlgSatisfiesProperty == \A w \in Which : PropertyOk(ks, Alg(w))
\* every slice holds at most one terminator, and holds it last; all but the last slice end with one
TerminatorsLast == \A w \in Which : LET sl == Alg(w) IN
  \A i \in 1..Len(sl) : /\ \A j \in sl[i][1]..sl[i][2] : ks[j] \in TermOf(w) => j = sl[i][2]
                        /\ (i < Len(sl) => ks[sl[i][2]] \in TermOf(w))
\* refinement between the levels: sentences are unions of chunks, paragraphs unions of sentences
Refines(fine, coarse) == \A i \in 1..Len(coarse) : \E a, b \in 1..Len(fine) :
  fine[a][1] = coarse[i][1] /\ fine[b][2] = coarse[i][2]
Nested == Len(ks) > 0 => /\ Refines(Alg("chunks"), Alg("sentences")) /\ Refines(Alg("sentences"), Alg("paragraphs"))
\* composition (what C12 and the chunk cache rest on): cutting after a terminator splits the cutting
Composes == \A w \in Which : \A c \in 1..Len(ks) - 1 :
  ks[c] \in TermOf(w) =>
    Split(ks, TermOf(w)) = Split(SubSeq(ks, 1, c), TermOf(w)) \o Shift(Split(SubSeq(ks, c + 1, Len(ks)), TermOf(w)), c)
=============================================================================
