------------------------------ MODULE IgnoreOps ------------------------------
(* Ignoring lints (harper-core/src/ignored_lints/: LintContext::from_lint,        *)
(* IgnoredLints).  Property C14.                                                    *)
(* A document is a sequence of tokens [c, w, q]: content id, width in characters,   *)
(* quote? ; a lint is [tok, msg]: it flags exactly token number tok.  The ignore     *)
(* list stores the hash of a context = kind/message/suggestions (here: msg) + the    *)
(* fat tokens in three windows around the lint.                                      *)
(* Flags reproduce the code before the repair:                                       *)
(*   SequelFromEnd = FALSE : the "sequel" window is [start+2, start+4)               *)
(*   PrequelClamped = FALSE: no prequel at all when the lint starts before offset 2  *)
(*   QuoteTwinErased = FALSE: a quote token's partner index is part of its identity  *)
(*   WindowsSeparate = FALSE: the three windows are concatenated into one token list  *)
EXTENDS Naturals, Integers, Sequences, FiniteSets, TLC

RECURSIVE StartOf(_, _)
StartOf(doc, i) == IF i = 1 THEN 0 ELSE StartOf(doc, i - 1) + doc[i - 1].w
EndOf(doc, i) == StartOf(doc, i) + doc[i].w
\* token indices intersecting the character window [a, b)
Intersecting(doc, a, b) == IF a >= b THEN <<>>
  ELSE SelectSeq([i \in 1..Len(doc) |-> i], LAMBDA i : StartOf(doc, i) < b /\ a < EndOf(doc, i))

\* match_quotes: quotes pair up 1-2, 3-4, ...; twin = token index of the partner (0: none)
QuoteIdx(doc) == SelectSeq([i \in 1..Len(doc) |-> i], LAMBDA i : doc[i].q)
Twin(doc, i) ==
  LET q == QuoteIdx(doc)
      pos == CHOOSE k \in 1..Len(q) : q[k] = i
      partner == IF pos % 2 = 1 THEN pos + 1 ELSE pos - 1
  IN IF partner <= 2 * (Len(q) \div 2) /\ partner >= 1 /\ (pos <= 2 * (Len(q) \div 2)) THEN q[partner] ELSE 0
Fat(doc, i, eraseTwin) == [c |-> doc[i].c, q |-> doc[i].q,
                           twin |-> IF doc[i].q /\ ~eraseTwin THEN Twin(doc, i) ELSE 0]

\* LintContext::from_lint
Context(doc, lint, sequelFromEnd, prequelClamped, eraseTwin, windowsSeparate) ==
  LET s == StartOf(doc, lint.tok) e == EndOf(doc, lint.tok)
      pre == IF s >= 2 THEN Intersecting(doc, s - 2, s)
             ELSE IF prequelClamped THEN Intersecting(doc, 0, s) ELSE <<>>
      prob == Intersecting(doc, s, e)
      seq == IF sequelFromEnd THEN Intersecting(doc, e, e + 2) ELSE Intersecting(doc, s + 2, s + 4)
      idx == pre \o prob \o seq
      F(ix) == [k \in DOMAIN ix |-> Fat(doc, ix[k], eraseTwin)]
  IN IF windowsSeparate THEN [msg |-> lint.msg, pre |-> F(pre), prob |-> F(prob), seq |-> F(seq)]
     ELSE [msg |-> lint.msg, toks |-> F(idx)]

\* Property level: what makes two lints "the same lint" for ignoring (C14's wording):
\* message/kind/suggestions, the flagged text, and the tokens within two characters
PId(doc, lint) ==
  LET s == StartOf(doc, lint.tok) e == EndOf(doc, lint.tok)
      before == Intersecting(doc, IF s >= 2 THEN s - 2 ELSE 0, s)
      after == Intersecting(doc, e, e + 2)
  IN [msg |-> lint.msg, flagged |-> doc[lint.tok].c,
      before |-> [k \in DOMAIN before |-> doc[before[k]].c],
      after |-> [k \in DOMAIN after |-> doc[after[k]].c]]
=============================================================================
