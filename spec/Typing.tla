------------------------------- MODULE Typing -------------------------------
(* Environment model for C01/C02: an editor buffer being typed.  Every          *)
(* reachable buffer is a check request: the plain-English pipeline (lexer tiling *)
(* loop + condensing passes) runs on it and its result must be well-formed.      *)
EXTENDS CondenseOps

CONSTANTS Sigma, MaxLen, FixedInit, ExactSuffix

VARIABLES buf
tyvars == <<buf>>

TyInit == buf = <<>>
Type(c) == Len(buf) < MaxLen /\ buf' = Append(buf, c)
TyNext == \E c \in Sigma : Type(c)

Sfx(text, t) == IF ExactSuffix THEN SuffixExact(text, t) ELSE SuffixLoose(text, t)
Lexed == LexAll(buf, 0)
Parsed == Condense(buf, Lexed, FixedInit, Sfx)

\* C01: every lexer answer makes progress inside the remaining text
LexerProgress == \A c \in 0..(Len(buf) - 1) : Progress(SubSeq(buf, c + 1, Len(buf)))
\* C02: raw lexer output tiles the buffer; after condensing it is still well-formed
LexTiles == Tiling(Len(buf), Lexed)
CondensedWellFormed == WellFormed(buf, Parsed, TRUE, ModelNumShape)
=============================================================================
