----------------------------- MODULE StatsSession -----------------------------
(* The statistics of a language-server session (harper-ls/src/backend.rs):        *)
(* records gathered in memory (HarperRecordLint, configuration updates) are        *)
(* appended to the log named by statsPath when the server shuts down; the path may *)
(* change while the session runs (didChangeConfiguration / a pulled configuration).*)
(* Property C19 at the grain of sessions: summarising counts each applied lint     *)
(* exactly once, and a log holds the batches appended to it in order.              *)
(*                                                                                 *)
(* FlushOnSwitch: what a change of statsPath does with the records gathered so far  *)
(*   "none"  nothing - they go to the log configured at shutdown (the code as is)   *)
(*   "clear" they are appended to the old log and forgotten                         *)
(*   "keep"  they are appended to the old log and stay in memory (named deviation:  *)
(*           a later flush writes them again)                                       *)
EXTENDS Naturals, Sequences, FiniteSets, TLC
CONSTANTS Paths, MaxRecords, MaxSwitches, MaxSessions, FlushOnSwitch
VARIABLES logs,      \* path -> sequence of record ids, as on disk
          pending,   \* records in memory, in the order they were applied
          path,      \* statsPath as the server knows it
          up,        \* a server is running
          applied,   \* every record applied so far, in order (history)
          switches, sessions
ssvars == <<logs, pending, path, up, applied, switches, sessions>>

SSInit == /\ logs = [p \in Paths |-> <<>>] /\ pending = <<>> /\ path \in Paths /\ up = TRUE
          /\ applied = <<>> /\ switches = 0 /\ sessions = 1
Record == /\ up /\ Len(applied) < MaxRecords
          /\ LET id == Len(applied) + 1 IN pending' = Append(pending, id) /\ applied' = Append(applied, id)
          /\ UNCHANGED <<logs, path, up, switches, sessions>>
Switch(p) == /\ up /\ p # path /\ switches < MaxSwitches
             /\ path' = p /\ switches' = switches + 1
             /\ logs' = IF FlushOnSwitch = "none" THEN logs ELSE [logs EXCEPT ![path] = @ \o pending]
             /\ pending' = IF FlushOnSwitch = "clear" THEN <<>> ELSE pending
             /\ UNCHANGED <<up, applied, sessions>>
Shutdown == /\ up /\ up' = FALSE
            /\ logs' = [logs EXCEPT ![path] = @ \o pending]
            /\ pending' = <<>>
            /\ UNCHANGED <<path, applied, switches, sessions>>
Restart == /\ ~up /\ sessions < MaxSessions /\ up' = TRUE /\ sessions' = sessions + 1
           /\ UNCHANGED <<logs, pending, path, applied, switches>>
SSNext == Record \/ (\E p \in Paths : Switch(p)) \/ Shutdown \/ Restart

Occurrences(id) == LET n(p) == Cardinality({i \in DOMAIN logs[p] : logs[p][i] = id}) IN
                   LET RECURSIVE Sum(_) Sum(S) == IF S = {} THEN 0 ELSE LET x == CHOOSE x \in S : TRUE IN n(x) + Sum(S \ {x}) IN Sum(Paths)
\* at rest (no server running) every applied record is on disk exactly once
EachAppliedOnce == ~up => \A id \in 1..Len(applied) : Occurrences(id) = 1
\* never twice, at any time
NeverTwice == \A id \in 1..Len(applied) : Occurrences(id) <= 1
\* a log holds its records in the order they were applied
InOrder == \A p \in Paths : \A i, j \in DOMAIN logs[p] : i < j => logs[p][i] < logs[p][j]
=============================================================================
