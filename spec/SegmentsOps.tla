---------------------------- MODULE SegmentsOps ----------------------------
(* How a token list is cut into chunks, sentences and paragraphs                 *)
(* (harper-core/src/token_string_ext.rs: iter_chunks, iter_sentences,            *)
(* iter_paragraphs; token_kind.rs: is_chunk_terminator, is_sentence_terminator). *)
(* Rules run per chunk / sentence / paragraph and the chunk is the unit of the   *)
(* lint cache, so C12 (paragraph independence) and C05 (cache unobservable)     *)
(* both rest on these cuts being a partition that never spans a paragraph break. *)
(*                                                                               *)
(* A token list is abstracted to its kinds:                                      *)
(*   W word  S space  N newline  O other punctuation  C comma  Q quote  K colon  *)
(*   P period  B bang  U question mark  G paragraph break                        *)
(* A slice is <<from, to>> (1-based, inclusive; to = from - 1 for the empty one).*)
EXTENDS Naturals, Sequences, FiniteSets

Kinds == {"W", "S", "N", "O", "C", "Q", "K", "P", "B", "U", "G"}
ParaTerm == {"G"}
SentTerm == {"P", "B", "U", "G"}
ChunkTerm == SentTerm \cup {"C", "Q", "K"}
TermOf(which) == CASE which = "chunks" -> ChunkTerm [] which = "sentences" -> SentTerm [] which = "paragraphs" -> ParaTerm

TermIdx(ks, T) == {i \in 1..Len(ks) : ks[i] \in T}
Min(S) == CHOOSE x \in S : \A y \in S : x <= y
Max(S) == CHOOSE x \in S : \A y \in S : y <= x

---------------------------------------------------------------------------
(* Property level: what any cutting must satisfy                                *)
IsPartition(ks, sl) ==
  /\ Len(sl) >= 1
  /\ sl[1][1] = 1
  /\ sl[Len(sl)][2] = Len(ks)
  /\ \A i \in 1..Len(sl) - 1 : sl[i + 1][1] = sl[i][2] + 1
  /\ \A i \in 1..Len(sl) : sl[i][1] <= sl[i][2] \/ Len(ks) = 0          \* no empty slice, except for the empty list
\* nothing continues across a paragraph break: a break can only be the last token of a slice
BreaksClose(ks, sl) ==
  \A i \in 1..Len(sl) : \A j \in sl[i][1]..sl[i][2] : ks[j] = "G" => j = sl[i][2]
PropertyOk(ks, sl) == IsPartition(ks, sl) /\ BreaksClose(ks, sl)

---------------------------------------------------------------------------
(* Closed form: cut after every terminator                                      *)
RECURSIVE CutFrom(_, _, _)
CutFrom(ks, T, from) ==
  IF from > Len(ks) THEN <<>>
  ELSE LET later == {i \in TermIdx(ks, T) : i >= from} IN
       IF later = {} THEN << <<from, Len(ks)>> >>
       ELSE << <<from, Min(later)>> >> \o CutFrom(ks, T, Min(later) + 1)
Split(ks, T) == IF Len(ks) = 0 THEN << <<1, 0>> >> ELSE CutFrom(ks, T, 1)

---------------------------------------------------------------------------
(* Algorithm level: the iterator as written - first slice up to the first        *)
(* terminator, windows over consecutive terminators, remainder after the last    *)
(* one if anything is left, the whole list if there is no terminator.            *)
(* MiddleFrom / DropBreak name the two deviations a seeded change introduced     *)
(* (middle slices starting AT the previous terminator; slices without their      *)
(* closing terminator).                                                          *)
RECURSIVE SortedFrom(_, _)
SortedFrom(S, acc) == IF S = {} THEN acc ELSE SortedFrom(S \ {Min(S)}, Append(acc, Min(S)))
AlgSplitWith(ks, T, middleFrom, dropTerm) ==
  LET ts == SortedFrom(TermIdx(ks, T), <<>>)
      n == Len(ts)
  IN IF n = 0 THEN << <<1, Len(ks)>> >>
     ELSE << <<1, ts[1] - dropTerm>> >>
          \o [i \in 1..n - 1 |-> <<ts[i] + middleFrom, ts[i + 1] - dropTerm>>]
          \o (IF ts[n] + 1 <= Len(ks) THEN << <<ts[n] + 1, Len(ks)>> >> ELSE <<>>)
AlgSplit(ks, T) == AlgSplitWith(ks, T, 1, 0)

Shift(sl, by) == [i \in 1..Len(sl) |-> <<sl[i][1] + by, sl[i][2] + by>>]
=============================================================================
