CONSTANTS MaxCtx = 2
          MaxRecords = 2
INIT SLInit
NEXT SLNext
INVARIANTS ReadsBack NoRawBreakInRecord SummaryCountsOnce
CHECK_DEADLOCK FALSE
