CONSTANTS MaxSegs = 5
          ConvertBytes = TRUE
INIT SFInit
NEXT SFNext
INVARIANTS OnlyProseIsMasked MaskInsideFile
CHECK_DEADLOCK FALSE
