CONSTANTS MaxOps = 3
          ResyncOnChange = TRUE
INIT JInit
NEXT JNext
INVARIANTS CloneBehavesTheSame ImportedWordsAccepted IgnoredStayHidden
CHECK_DEADLOCK FALSE
