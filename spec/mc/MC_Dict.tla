------------------------------- MODULE MC_Dict -------------------------------
EXTENDS Dict, Json
CharsQuick == {"a", "b", "A", "q"}
CharsFull == {"a", "b", "A", "B", "q", "Q"}
EmitCase == phase = "query" => PrintT(<<"CASE", ToJson(ws)>>)
=============================================================================
