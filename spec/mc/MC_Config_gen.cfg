CONSTANTS Keys <- KeysC
          Known <- KnownC
          Varies <- NoVaries
          TableFollowsDialect = FALSE
          MaxOps = 0
INIT CInit
NEXT CNext
INVARIANTS EmitCase
CHECK_DEADLOCK FALSE
