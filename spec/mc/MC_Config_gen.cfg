CONSTANTS Keys <- KeysC
          Known <- KnownC
          MaxOps = 0
INIT CInit
NEXT CNext
INVARIANTS EmitCase
CHECK_DEADLOCK FALSE
