CONSTANTS MaxOps = 6
          ResyncOnChange = TRUE
          DocCacheByText = FALSE
          LintMemo = FALSE
INIT JInit
NEXT JNextIgnoreList
VIEW NoHist
INVARIANTS AnswerIsCurrent IgnoredStayHidden PromisedHidden
CHECK_DEADLOCK FALSE
