CONSTANTS MaxOps = 6
          ResyncOnChange = TRUE
          LintMemo = FALSE
INIT JInit
NEXT JNextIgnoreList
VIEW NoHist
INVARIANTS AnswerIsCurrent IgnoredStayHidden
CHECK_DEADLOCK FALSE
