CONSTANTS MaxOps = 4
          ResyncOnChange = TRUE
INIT JInit
NEXT JNext
INVARIANTS CloneBehavesTheSame ImportedWordsAccepted IgnoredStayHidden
CHECK_DEADLOCK FALSE
