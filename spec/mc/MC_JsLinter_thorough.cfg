CONSTANTS MaxOps = 4
          ResyncOnChange = TRUE
          DocCacheByText = FALSE
          LintMemo = FALSE
INIT JInit
NEXT JNext
INVARIANTS CloneBehavesTheSame ImportedWordsAccepted IgnoredStayHidden PromisedHidden AnswerIsCurrent
CHECK_DEADLOCK FALSE
