CONSTANTS Chars <- CharsS
          FirstPartCanon = TRUE
          MaxWord = 2
          MaxDict = 2
INIT SInit
NEXT SNext
INVARIANTS MergedListedAccepted
CHECK_DEADLOCK FALSE
