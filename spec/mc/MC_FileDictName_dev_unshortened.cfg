SPECIFICATION Spec
CONSTANTS Segs = {"a", "b"}
          SegLen = 3
          MaxDepth = 8
          Max = 25
          Keep = 8
          Shorten = FALSE
          DigestOfTail = FALSE
INVARIANTS Fits
CHECK_DEADLOCK FALSE
