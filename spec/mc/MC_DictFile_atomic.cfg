CONSTANTS Vocab <- VocabC
          MaxAdds = 3
          MaxCrashes = 1
          AtomicSave = TRUE
          InitDisks <- InitDisksC
          AppendOnly = FALSE
INIT DFInit
NEXT DFNext
INVARIANTS NeverLosesExceptKnown
CHECK_DEADLOCK FALSE
