CONSTANTS MaxOps = 4
          ResyncOnChange = TRUE
          LintMemo = FALSE
INIT JInit
NEXT JNextIgnoreList
INVARIANTS EmitCase
CHECK_DEADLOCK FALSE
