CONSTANTS Chars <- CharsQuick
          MaxWord = 2
          MaxDict = 3
          MaxBound = 2
INIT DInit
NEXT DNext
INVARIANTS EmitCase
CHECK_DEADLOCK FALSE
