CONSTANTS MaxToks = 5
          SequelFromEnd = TRUE
          PrequelClamped = TRUE
          QuoteTwinErased = FALSE
          WindowsSeparate = TRUE
INIT IInit
NEXT INext
INVARIANTS HidesIt OnlyIt KeepsHiding
CHECK_DEADLOCK FALSE
