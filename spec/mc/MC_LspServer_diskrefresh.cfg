CONSTANTS Urls <- UrlsC
          Texts <- TextsC
          MaxMsgs = 4
          MaxInFlight = 1
          VersionGuard = FALSE
          RefreshFromMemory = FALSE
INIT LInit
NEXT LNext
INVARIANTS LastWordUnlessOverlapped
CHECK_DEADLOCK FALSE
