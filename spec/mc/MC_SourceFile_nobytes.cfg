CONSTANTS MaxSegs = 3
          ConvertBytes = FALSE
INIT SFInit
NEXT SFNext
INVARIANTS OnlyProseIsMasked MaskInsideFile
CHECK_DEADLOCK FALSE
