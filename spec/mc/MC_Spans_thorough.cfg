CONSTANTS MaxLen = 8
          MaxRepl = 5
INIT Init
NEXT Next
INVARIANTS AlgRefinesApply ApplyIsLocal InBounds
CHECK_DEADLOCK FALSE
