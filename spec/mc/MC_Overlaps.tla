---------------------------- MODULE MC_Overlaps ----------------------------
EXTENDS Overlaps, Json
CONSTANTS MaxPos, MaxN

SpanSet == {sp \in [s : 0..MaxPos, e : 0..MaxPos] : sp.s <= sp.e}
Init == OvInit
Next == Build(SpanSet, MaxN) \/ Call \/ OvNext
Spec == Init /\ [][Next]_ovars

\* (R) case generation: one line per finished behaviour
EmitCase == pc = "done" => PrintT(<<"CASE", ToJson(input)>>)
=============================================================================
