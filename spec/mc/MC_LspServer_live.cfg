CONSTANTS Urls <- UrlsC
          Texts <- TextsC
          MaxMsgs = 3
          MaxInFlight = 3
          VersionGuard = FALSE
          RefreshFromMemory = TRUE
SPECIFICATION LSpec
PROPERTY ComesToRest
CHECK_DEADLOCK FALSE
