CONSTANTS Urls <- UrlsC
          Texts <- TextsC
          Cfgs <- CfgsC
          RebuildOnlyIfChanged = FALSE
          FirstOfBatch = FALSE
          PullOnNull = TRUE
          SaveReadsDisk = FALSE
          TamperAllowed = FALSE
          IdentsAccumulate = FALSE
          ForgetIdentRecord = TRUE
          ConfigRebuilds = TRUE
          MaxMsgs = 3
          MaxInFlight = 3
          VersionGuard = FALSE
          RefreshFromMemory = TRUE
SPECIFICATION LSpec
PROPERTY ComesToRest
CHECK_DEADLOCK FALSE
