CONSTANTS MaxCtx = 2
          MaxRecords = 3
INIT SLInit
NEXT SLNext
INVARIANTS ReadsBack NoRawBreakInRecord SummaryCountsOnce
CHECK_DEADLOCK FALSE
