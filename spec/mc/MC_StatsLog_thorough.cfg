CONSTANTS MaxCtx = 2
          BufSize = 4
          BlankShortcut = FALSE
          MaxRecords = 3
INIT SLInit
NEXT SLNext
INVARIANTS BufferedReadsBack ReadsBack NoRawBreakInRecord SummaryCountsOnce
CHECK_DEADLOCK FALSE
