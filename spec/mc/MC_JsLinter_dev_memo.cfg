CONSTANTS MaxOps = 6
          ResyncOnChange = TRUE
          DocCacheByText = FALSE
          LintMemo = TRUE
INIT JInit
NEXT JNextIgnoreList
VIEW NoHist
INVARIANTS AnswerIsCurrent
CHECK_DEADLOCK FALSE
