CONSTANTS MaxOps = 6
          ResyncOnChange = TRUE
          LintMemo = TRUE
INIT JInit
NEXT JNextIgnoreList
VIEW NoHist
INVARIANTS AnswerIsCurrent
CHECK_DEADLOCK FALSE
