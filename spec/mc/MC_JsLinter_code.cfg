CONSTANTS MaxOps = 3
          ResyncOnChange = FALSE
          LintMemo = FALSE
INIT JInit
NEXT JNext
INVARIANTS CloneBehavesTheSame ImportedWordsAccepted IgnoredStayHidden AnswerIsCurrent
CHECK_DEADLOCK FALSE
