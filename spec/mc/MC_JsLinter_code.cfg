CONSTANTS MaxOps = 3
          ResyncOnChange = FALSE
INIT JInit
NEXT JNext
INVARIANTS CloneBehavesTheSame ImportedWordsAccepted IgnoredStayHidden
CHECK_DEADLOCK FALSE
