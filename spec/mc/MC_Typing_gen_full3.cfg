CONSTANTS Sigma <- SigmaFull
          MaxLen = 3
          FixedInit = TRUE
          ExactSuffix = TRUE
INIT Init
NEXT Next
INVARIANTS EmitCase
CHECK_DEADLOCK FALSE
