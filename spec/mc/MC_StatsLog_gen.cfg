CONSTANTS MaxCtx = 1
          BufSize = 4
          BlankShortcut = FALSE
          MaxRecords = 3
INIT SLInit
NEXT SLNext
INVARIANTS EmitCase
CHECK_DEADLOCK FALSE
