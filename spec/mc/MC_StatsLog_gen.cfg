CONSTANTS MaxCtx = 1
          MaxRecords = 3
INIT SLInit
NEXT SLNext
INVARIANTS EmitCase
CHECK_DEADLOCK FALSE
