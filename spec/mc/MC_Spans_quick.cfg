CONSTANTS MaxLen = 5
          MaxRepl = 3
INIT Init
NEXT Next
INVARIANTS AlgRefinesApply ApplyIsLocal InBounds
CHECK_DEADLOCK FALSE
