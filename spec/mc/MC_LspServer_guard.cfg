CONSTANTS Urls <- UrlsC
          Texts <- TextsC
          Cfgs <- OneCfg
          RebuildOnlyIfChanged = FALSE
          FirstOfBatch = FALSE
          PullOnNull = TRUE
          IdentsAccumulate = FALSE
          ForgetIdentRecord = TRUE
          ConfigRebuilds = TRUE
          MaxMsgs = 4
          MaxInFlight = 3
          VersionGuard = TRUE
          RefreshFromMemory = TRUE
INIT LInit
NEXT LNext
INVARIANTS LastWord
CHECK_DEADLOCK FALSE
