CONSTANTS Urls <- UrlsC
          Texts <- TextsC
          MaxMsgs = 4
          MaxInFlight = 3
          VersionGuard = TRUE
INIT LInit
NEXT LNext
INVARIANTS LastWord
CHECK_DEADLOCK FALSE
