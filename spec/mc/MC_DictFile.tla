----------------------------- MODULE MC_DictFile -----------------------------
EXTENDS DictFile
VocabC == {<<"a">>, <<"A">>, <<"b">>}
\* no file; an empty file; files with one or two words, terminated or not
InitDisksC == {Absent, File(<<>>), File(<< <<"b">> >>), OpenFile(<< <<"b">> >>), File(<< <<"b">>, <<"c">> >>), OpenFile(<< <<"b">>, <<"c">> >>)}
OnlyAbsent == {Absent}
=============================================================================
