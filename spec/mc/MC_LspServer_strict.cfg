CONSTANTS Urls <- UrlsC
          Texts <- TextsC
          Cfgs <- CfgsC
          RebuildOnlyIfChanged = FALSE
          FirstOfBatch = FALSE
          PullOnNull = TRUE
          SaveReadsDisk = FALSE
          TamperAllowed = FALSE
          IdentsAccumulate = FALSE
          ForgetIdentRecord = TRUE
          ConfigRebuilds = TRUE
          MaxMsgs = 3
          MaxInFlight = 2
          VersionGuard = FALSE
          RefreshFromMemory = TRUE
INIT LInit
NEXT LNext
INVARIANTS LastWord
CHECK_DEADLOCK FALSE
