CONSTANTS MaxToks = 4
          SequelFromEnd = TRUE
          PrequelClamped = TRUE
          QuoteTwinErased = TRUE
          WindowsSeparate = TRUE
INIT IInit
NEXT INext
INVARIANTS HidesIt OnlyIt KeepsHiding
CHECK_DEADLOCK FALSE
