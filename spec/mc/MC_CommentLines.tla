--------------------------- MODULE MC_CommentLines ---------------------------
EXTENDS CommentLines, Json
Both == {"bt", "tl"}
OnlyBackticks == {"bt"}
\* (R) generation: every sequence of line kinds (widths are the harness's business); the expectation travels along
Narrow == \A i \in DOMAIN lines : lines[i].lead = 1 /\ lines[i].body = 1
KindsOf(ls) == [i \in DOMAIN ls |-> ls[i].kind]
ExpectedLines(ls) == {i \in DOMAIN ls : ~IsCodeLine(ls, i)}
EmitCase == lines # <<>> => PrintT(<<"CASE", ToJson([kinds |-> KindsOf(lines), want |-> [i \in DOMAIN lines |-> ~IsCodeLine(lines, i)]])>>)
=============================================================================
