CONSTANTS Docs <- DocsC
          MaxOps = 6
          OnlyNamed = FALSE
INIT UDInit
NEXT UDNext
INVARIANTS AcceptedEverywhere NotBefore
CHECK_DEADLOCK FALSE
