CONSTANTS MaxToks = 5
          SequelFromEnd = TRUE
          PrequelClamped = FALSE
          QuoteTwinErased = TRUE
          WindowsSeparate = TRUE
INIT IInit
NEXT INext
INVARIANTS HidesIt OnlyIt KeepsHiding
CHECK_DEADLOCK FALSE
