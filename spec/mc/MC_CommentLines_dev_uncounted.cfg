CONSTANTS MaxLines = 4
          Recognised <- Both
          CloseByAny = FALSE
          Directives = "skip-uncounted"
          Tracked = TRUE
INIT CLInit
NEXT CLNext
INVARIANTS OfferedIsProse
CHECK_DEADLOCK FALSE
