CONSTANTS MaxLines = 3
          Recognised <- Both
          CloseByAny = FALSE
          Directives = "skip-uncounted"
          CloseAnyLength = FALSE
          Tracked = TRUE
INIT CLInit
NEXT CLNext
INVARIANTS OfferedIsProse
CHECK_DEADLOCK FALSE
