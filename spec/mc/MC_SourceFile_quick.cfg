CONSTANTS MaxSegs = 4
          ConvertBytes = TRUE
INIT SFInit
NEXT SFNext
INVARIANTS OnlyProseIsMasked MaskInsideFile
CHECK_DEADLOCK FALSE
