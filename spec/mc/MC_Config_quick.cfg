CONSTANTS Keys <- KeysC
          Known <- KnownC
          Varies <- NoVaries
          TableFollowsDialect = FALSE
          MaxOps = 2
INIT CInit
NEXT CNext
INVARIANTS DisabledMeansOffOrUnset OverlayGivesDefaultsWhereUnset OverlayMatchesGroup ExplicitWinsInMerge UnknownKeysHarmless ClearKeepsKeysDropsValues JsonRoundTrip MergeOrderIrrelevantForDisjoint
CHECK_DEADLOCK FALSE
