CONSTANTS Urls <- UrlsC
          Texts <- TextsC
          MaxMsgs = 5
          MaxInFlight = 4
          VersionGuard = FALSE
INIT LInit
NEXT LNext
INVARIANTS LastWordUnlessOverlapped
CHECK_DEADLOCK FALSE
