CONSTANTS Sigma <- SigmaP
          MaxP = 2
          MaxD = 4
          NumberNeedsDigitEnd = TRUE
INIT PInit
NEXT PNext
INVARIANTS Composes
CHECK_DEADLOCK FALSE
