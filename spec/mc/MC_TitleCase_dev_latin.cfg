CONSTANTS AllCapsRule = FALSE
          LatinLower = TRUE
          MaxToks = 2
          MaxWord = 2
INIT TInit
NEXT TNext
INVARIANTS FirstCap
CHECK_DEADLOCK FALSE
