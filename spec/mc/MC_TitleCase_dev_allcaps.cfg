CONSTANTS AllCapsRule = TRUE
          LatinLower = FALSE
          MaxToks = 2
          MaxWord = 2
INIT TInit
NEXT TNext
INVARIANTS Idempotent
CHECK_DEADLOCK FALSE
