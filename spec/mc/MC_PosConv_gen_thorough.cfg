CONSTANTS MaxLen = 7
          LastLineFix = TRUE
INIT PCInit
NEXT PCNext
INVARIANTS EmitCase
CHECK_DEADLOCK FALSE
