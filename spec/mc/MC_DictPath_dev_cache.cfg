SPECIFICATION Spec
CONSTANTS Paths = {"A", "B"}
          Words = {"w"}
          MaxSteps = 5
          PathCache = TRUE
INVARIANTS SavedWhereConfigured
CHECK_DEADLOCK FALSE
