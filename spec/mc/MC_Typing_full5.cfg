CONSTANTS Sigma <- SigmaFull
          MaxLen = 5
          FixedInit = TRUE
          ExactSuffix = TRUE
INIT Init
NEXT Next
INVARIANTS LexerProgress LexTiles CondensedWellFormed
CHECK_DEADLOCK FALSE
