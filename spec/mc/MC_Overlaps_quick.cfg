CONSTANTS CursorOnDropped = FALSE
          MaxPos = 3
          MaxN = 4
INIT Init
NEXT Next
INVARIANTS AlgRefinesProperty AlgMatchesClosedForm
CHECK_DEADLOCK FALSE
