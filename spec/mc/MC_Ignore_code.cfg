CONSTANTS MaxToks = 4
          SequelFromEnd = FALSE
          PrequelClamped = FALSE
          QuoteTwinErased = FALSE
          WindowsSeparate = FALSE
INIT IInit
NEXT INext
INVARIANTS HidesIt OnlyIt KeepsHiding
CHECK_DEADLOCK FALSE
