---------------------------- MODULE MC_Patterns ----------------------------
EXTENDS Patterns, Json
EmitCase == phase = "run" =>
  PrintT(<<"CASE", ToJson([pat |-> pat, toks |-> toks, m |-> Matches(pat, toks, FixedInvert),
                            lints |-> RunLints(pat, toks, 0, FixedInvert)])>>)
=============================================================================
