CONSTANTS Chars <- CharsFull
          DedupByConcat = FALSE
          MaxWord = 2
          MaxDict = 2
          MaxBound = 2
INIT DInit
NEXT DNext
INVARIANTS ContainsIsMembership BackendsAgree BackendsAgreeOnMembership MergedIsUnion ExactSane MutFuzzySoundComplete
CHECK_DEADLOCK FALSE
