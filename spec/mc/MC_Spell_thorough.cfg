CONSTANTS Chars <- CharsS
          FirstPartCanon = FALSE
          MaxWord = 2
          MaxDict = 3
INIT SInit
NEXT SNext
INVARIANTS MergedListedAccepted MergedUnknownFlagged ListedAccepted CasedFormsAccepted UnknownFlagged OtherDialectFlagged
CHECK_DEADLOCK FALSE
