CONSTANTS Chars <- CharsS
          MaxWord = 2
          MaxDict = 3
INIT SInit
NEXT SNext
INVARIANTS ListedAccepted CasedFormsAccepted UnknownFlagged OtherDialectFlagged
CHECK_DEADLOCK FALSE
