----------------------------- MODULE MC_StatsLog -----------------------------
EXTENDS StatsLog, Json
EmitCase == Len(log) = MaxRecords => PrintT(<<"CASE", ToJson(log)>>)
=============================================================================
