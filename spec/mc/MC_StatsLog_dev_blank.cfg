CONSTANTS MaxCtx = 2
          BufSize = 4
          BlankShortcut = TRUE
          MaxRecords = 2
INIT SLInit
NEXT SLNext
INVARIANTS BufferedReadsBack
CHECK_DEADLOCK FALSE
