CONSTANTS MaxToks = 2
          MaxWord = 2
INIT TInit
NEXT TNext
INVARIANTS LengthKept OnlyCase FirstCap Idempotent
CHECK_DEADLOCK FALSE
