----------------------------- MODULE MC_JsLinter -----------------------------
EXTENDS JsLinter, Json
EmitCase == nops = MaxOps => PrintT(<<"CASE", ToJson(hist)>>)
=============================================================================
