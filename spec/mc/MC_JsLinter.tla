----------------------------- MODULE MC_JsLinter -----------------------------
EXTENDS JsLinter, Json
\* the ignore-list calls and lint() only (the user dictionary stays empty)
JNextIgnoreList == \/ \E t \in Texts, i \in 1..2 : IgnoreLint(t, i)
                   \/ ExportIgnored \/ ClearIgnored \/ ImportIgnored
                   \/ \E t \in Texts : Lint(t) \/ LintMd(t)
EmitCase == nops = MaxOps => PrintT(<<"CASE", ToJson(hist)>>)
=============================================================================
