----------------------------- MODULE MC_Typing -----------------------------
EXTENDS Typing, Json
Init == TyInit
Next == TyNext
EmitCase == Len(buf) >= 1 => PrintT(<<"CASE", ToJson([text |-> buf, toks |-> Parsed])>>)
SigmaQuick == {"t", "s", "1", "0", "sp", "nl", "Period", "Apostrophe", "Quote", "tab"}
SigmaFull == AllClasses
=============================================================================
