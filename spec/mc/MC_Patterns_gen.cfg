CONSTANTS MaxToks = 3
          Deep = FALSE
          FixedInvert = TRUE
INIT PInit
NEXT PNext
INVARIANTS EmitCase
CHECK_DEADLOCK FALSE
