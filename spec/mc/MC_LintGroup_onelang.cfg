CONSTANTS WholeRules <- Whole
          PatternRules <- Pattern
          Docs <- DocsOneLang
          Cap = 2
          KeyHasTokens = FALSE
          MaxOps = 4
          Peeking <- NoRules
INIT LGInit
NEXT LGNext
INVARIANTS CacheUnobservable Decomposes
CHECK_DEADLOCK FALSE
