CONSTANTS Chars <- CharsQuick
          DedupByConcat = TRUE
          MaxWord = 2
          MaxDict = 3
          MaxBound = 1
INIT DInit
NEXT DNext
INVARIANTS MergedIsUnion
CHECK_DEADLOCK FALSE
