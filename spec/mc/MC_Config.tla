------------------------------ MODULE MC_Config ------------------------------
EXTENDS Config, Json
KeysC == {"r1", "r2", "zz"}
KnownC == {"r1", "r2"}
NoVaries == {}
OneVaries == {<<"r1", "British">>}
\* (R) generation: every (cfg, other) pair; the harness applies every operation to each
ToRec(c) == [k \in DOMAIN c |-> c[k]]
EmitCase == nops = 0 => PrintT(<<"CASE", ToJson([cfg |-> cfg, other |-> other])>>)
=============================================================================
