CONSTANTS MaxDigits = 4
          DecadeChecksNext = TRUE
INIT OInit
NEXT ONext
INVARIANTS VerdictMatches FixIsClean
CHECK_DEADLOCK FALSE
