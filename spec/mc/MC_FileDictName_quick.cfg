SPECIFICATION Spec
CONSTANTS Segs = {"a", "b"}
          SegLen = 3
          MaxDepth = 8
          Max = 25
          Keep = 8
          Shorten = TRUE
          DigestOfTail = FALSE
INVARIANTS Fits Distinct
CHECK_DEADLOCK FALSE
