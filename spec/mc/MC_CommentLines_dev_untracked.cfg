CONSTANTS MaxLines = 3
          Recognised <- Both
          CloseByAny = FALSE
          Directives = "prose"
          CloseAnyLength = FALSE
          Tracked = FALSE
INIT CLInit
NEXT CLNext
INVARIANTS OfferedIsProse
CHECK_DEADLOCK FALSE
