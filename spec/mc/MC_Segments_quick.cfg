SPECIFICATION Spec
CONSTANTS
  MaxLen = 7
  Alphabet = {"W", "S", "C", "P", "G"}
  MiddleFrom = 1
  DropTerm = 0
INVARIANTS AlgIsClosedForm AlgSatisfiesProperty TerminatorsLast Nested Composes
CHECK_DEADLOCK FALSE
