CONSTANTS MaxLines = 4
          Recognised <- Both
          CloseByAny = FALSE
          Directives = "skip-counted"
          Tracked = TRUE
INIT CLInit
NEXT CLNext
INVARIANTS OfferedIsProse
CHECK_DEADLOCK FALSE
