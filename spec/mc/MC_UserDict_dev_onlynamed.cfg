CONSTANTS Docs <- DocsC
          MaxOps = 6
          OnlyNamed = TRUE
INIT UDInit
NEXT UDNext
INVARIANTS AcceptedEverywhere NotBefore
CHECK_DEADLOCK FALSE
