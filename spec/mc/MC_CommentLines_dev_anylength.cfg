CONSTANTS MaxLines = 3
          Recognised <- Both
          CloseByAny = FALSE
          Directives = "prose"
          CloseAnyLength = TRUE
          Tracked = TRUE
INIT CLInit
NEXT CLNext
INVARIANTS OfferedIsProse
CHECK_DEADLOCK FALSE
