CONSTANTS MaxToks = 3
          Deep = FALSE
          FixedInvert = TRUE
INIT PInit
NEXT PNext
INVARIANTS MatchContract ChunkLoopOk
CHECK_DEADLOCK FALSE
