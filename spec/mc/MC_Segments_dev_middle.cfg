SPECIFICATION Spec
CONSTANTS
  MaxLen = 5
  Alphabet = {"W", "S", "C", "P", "G"}
  MiddleFrom = 0
  DropTerm = 0
INVARIANTS AlgSatisfiesProperty
CHECK_DEADLOCK FALSE
