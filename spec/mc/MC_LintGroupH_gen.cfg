CONSTANTS WholeRules <- Whole
          PatternRules <- Pattern
          Docs <- DocsC
          Cap = 2
          KeyHasTokens = TRUE
          MaxOps = 4
INIT InitH
NEXT NextH
INVARIANTS EmitCase
CHECK_DEADLOCK FALSE
