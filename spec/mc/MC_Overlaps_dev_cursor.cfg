CONSTANTS CursorOnDropped = TRUE
          MaxPos = 3
          MaxN = 3
INIT Init
NEXT Next
INVARIANTS AlgRefinesProperty
CHECK_DEADLOCK FALSE
