CONSTANTS Urls <- UrlsC
          Texts <- TextsC
          Cfgs <- CfgsC
          RebuildOnlyIfChanged = FALSE
          FirstOfBatch = FALSE
          PullOnNull = TRUE
          SaveReadsDisk = TRUE
          TamperAllowed = TRUE
          IdentsAccumulate = FALSE
          ForgetIdentRecord = TRUE
          ConfigRebuilds = TRUE
          MaxMsgs = 4
          MaxInFlight = 1
          VersionGuard = FALSE
          RefreshFromMemory = TRUE
INIT LInit
NEXT LNext
INVARIANTS LastWordUnlessOverlapped
CHECK_DEADLOCK FALSE
