CONSTANTS MaxLines = 5
          Recognised <- Both
          CloseByAny = FALSE
          Directives = "prose"
          Tracked = TRUE
INIT CLInit
NEXT CLNext
CONSTRAINT Narrow
INVARIANTS EmitCase
CHECK_DEADLOCK FALSE
