CONSTANTS MaxLen = 6
          LastLineFix = TRUE
INIT PCInit
NEXT PCNext
INVARIANTS RoundTrip RangeCovers LookupInside EditEqualsSuggestion
CHECK_DEADLOCK FALSE
