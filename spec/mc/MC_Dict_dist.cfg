CONSTANTS Chars <- CharsQuick
          DedupByConcat = FALSE
          MaxWord = 3
          MaxDict = 0
          MaxBound = 2
INIT DInit
NEXT DNext
INVARIANTS DistanceAlgorithms
CHECK_DEADLOCK FALSE
