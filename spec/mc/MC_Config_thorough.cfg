CONSTANTS Keys <- KeysC
          Known <- KnownC
          MaxOps = 3
INIT CInit
NEXT CNext
INVARIANTS DisabledMeansOffOrUnset OverlayGivesDefaultsWhereUnset ExplicitWinsInMerge UnknownKeysHarmless ClearKeepsKeysDropsValues JsonRoundTrip MergeOrderIrrelevantForDisjoint
CHECK_DEADLOCK FALSE
