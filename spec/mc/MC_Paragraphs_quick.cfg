CONSTANTS Sigma <- SigmaP
          MaxP = 2
          MaxD = 3
          NumberNeedsDigitEnd = TRUE
INIT PInit
NEXT PNext
INVARIANTS Composes
CHECK_DEADLOCK FALSE
