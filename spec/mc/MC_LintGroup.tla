---------------------------- MODULE MC_LintGroup ----------------------------
EXTENDS LintGroup, Json
\* same characters tokenised differently by two front-ends (plain vs. Markdown: `*she*`),
\* the same clause at two offsets, and a two-chunk document
DocsC == { [lang |-> "plain", chunks |-> <<[chars |-> "c1", toks |-> "c1/plain"]>>],
           [lang |-> "md",    chunks |-> <<[chars |-> "c1", toks |-> "c1/md"]>>],
           [lang |-> "plain", chunks |-> <<[chars |-> "c2", toks |-> "c2/plain"], [chars |-> "c1", toks |-> "c1/plain"]>>],
           [lang |-> "plain", chunks |-> <<[chars |-> "c3", toks |-> "c3/plain"], [chars |-> "c3", toks |-> "c3/plain"]>>] }
\* one-language pool: the situation in harper-ls (one linter per document)
DocsOneLang == {d \in DocsC : d.lang = "plain"}
\* the same clause after a paragraph break and glued to a terminator
DocsGlue == { [lang |-> "plain", chunks |-> <<[chars |-> "c1", toks |-> "c1/plain", before |-> "start"]>>],
              [lang |-> "plain", chunks |-> <<[chars |-> "c2", toks |-> "c2/plain", before |-> "start"], [chars |-> "c1", toks |-> "c1/plain", before |-> "break"]>>],
              [lang |-> "plain", chunks |-> <<[chars |-> "c2", toks |-> "c2/plain", before |-> "start"], [chars |-> "c1", toks |-> "c1/plain", before |-> "comma"]>>] }
NoRules == {}
PeekP1 == {"p1"}
Whole == {"w1"}
Pattern == {"p1", "p2"}
=============================================================================
