CONSTANTS WholeRules <- Whole
          PatternRules <- Pattern
          Docs <- DocsGlue
          Cap = 2
          KeyHasTokens = TRUE
          MaxOps = 3
          Peeking <- PeekP1
INIT LGInit
NEXT LGNext
INVARIANTS CacheUnobservable
CHECK_DEADLOCK FALSE
