CONSTANTS MaxLen = 5
          Negotiates = FALSE
          ReverseIn16 = FALSE
INIT PEInit
NEXT PENext
INVARIANTS AnnouncedWasOffered LookupInsideE EditEqualsSuggestionE
CHECK_DEADLOCK FALSE
