CONSTANTS Urls <- UrlsC
          Texts <- TextsC
          Cfgs <- OneCfg
          RebuildOnlyIfChanged = FALSE
          FirstOfBatch = FALSE
          PullOnNull = TRUE
          SaveReadsDisk = FALSE
          TamperAllowed = FALSE
          IdentsAccumulate = TRUE
          ForgetIdentRecord = TRUE
          ConfigRebuilds = TRUE
          MaxMsgs = 3
          MaxInFlight = 1
          VersionGuard = FALSE
          RefreshFromMemory = TRUE
INIT LInit
NEXT LNext
INVARIANTS LastWordUnlessOverlapped
CHECK_DEADLOCK FALSE
