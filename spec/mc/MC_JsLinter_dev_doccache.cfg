CONSTANTS MaxOps = 3
          ResyncOnChange = TRUE
          DocCacheByText = TRUE
          LintMemo = FALSE
INIT JInit
NEXT JNextIgnoreList
VIEW NoHist
INVARIANTS PromisedHidden
CHECK_DEADLOCK FALSE
