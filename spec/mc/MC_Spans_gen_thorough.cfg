CONSTANTS MaxLen = 8
          MaxRepl = 5
INIT Init
NEXT Next
INVARIANTS EmitCase
CHECK_DEADLOCK FALSE
