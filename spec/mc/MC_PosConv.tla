------------------------------ MODULE MC_PosConv ------------------------------
EXTENDS PosConv, Json
EmitCase == WellFormedText(t) => PrintT(<<"CASE", ToJson(t)>>)
=============================================================================
