CONSTANTS MaxLines = 5
          Recognised <- Both
          CloseByAny = FALSE
          Directives = "prose"
          Tracked = TRUE
INIT CLInit
NEXT CLNext
INVARIANTS OfferedIsProse
CHECK_DEADLOCK FALSE
