CONSTANTS MaxLines = 4
          Recognised <- Both
          CloseByAny = FALSE
          Directives = "prose"
          CloseAnyLength = FALSE
          Tracked = TRUE
INIT CLInit
NEXT CLNext
INVARIANTS OfferedIsProse
CHECK_DEADLOCK FALSE
