CONSTANTS WholeRules <- Whole
          PatternRules <- Pattern
          Docs <- DocsC
          Cap = 2
          KeyHasTokens = TRUE
          MaxOps = 6
          Peeking <- NoRules
INIT LGInit
NEXT LGNext
INVARIANTS CacheUnobservable Decomposes
CHECK_DEADLOCK FALSE
