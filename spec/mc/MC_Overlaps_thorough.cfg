CONSTANTS CursorOnDropped = FALSE
          MaxPos = 4
          MaxN = 4
INIT Init
NEXT Next
INVARIANTS AlgRefinesProperty AlgMatchesClosedForm
CHECK_DEADLOCK FALSE
