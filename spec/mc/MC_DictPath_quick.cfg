SPECIFICATION Spec
CONSTANTS Paths = {"A", "B"}
          Words = {"w"}
          MaxSteps = 5
          PathCache = FALSE
INVARIANTS SavedWhereConfigured
CHECK_DEADLOCK FALSE
