CONSTANTS MaxPos = 3
          MaxN = 3
INIT Init
NEXT Next
INVARIANTS EmitCase
CHECK_DEADLOCK FALSE
