CONSTANTS Modes <- ModesC
INIT EInit
NEXT ENext
INVARIANTS OnlyAllowedEffects
CHECK_DEADLOCK FALSE
