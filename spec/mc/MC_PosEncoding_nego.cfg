CONSTANTS MaxLen = 5
          Negotiates = TRUE
          ReverseIn16 = FALSE
INIT PEInit
NEXT PENext
INVARIANTS AnnouncedWasOffered LookupInsideE EditEqualsSuggestionE
CHECK_DEADLOCK FALSE
