------------------------------ MODULE MC_Spans ------------------------------
EXTENDS Spans, Json
Init == SpInit
Next == SpNext
EmitCase == pc = "done" =>
  PrintT(<<"CASE", ToJson([n |-> Len(text), kind |-> kind, r |-> Len(repl), s |-> s, e |-> e])>>)
=============================================================================
