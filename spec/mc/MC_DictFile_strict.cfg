CONSTANTS Vocab <- VocabC
          MaxAdds = 3
          MaxCrashes = 1
          AtomicSave = FALSE
          InitDisks <- InitDisksC
          TempExclusive = FALSE
          AppendOnly = FALSE
INIT DFInit
NEXT DFNext
INVARIANTS NeverLoses
CHECK_DEADLOCK FALSE
