CONSTANTS Urls <- UrlsC
          Texts <- TextsC
          MaxMsgs = 4
          MaxInFlight = 3
          VersionGuard = FALSE
INIT LInit
NEXT LNext
INVARIANTS LastWordUnlessOverlapped
CHECK_DEADLOCK FALSE
