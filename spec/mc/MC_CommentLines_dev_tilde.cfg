CONSTANTS MaxLines = 3
          Recognised <- OnlyBackticks
          CloseByAny = FALSE
          Directives = "prose"
          CloseAnyLength = FALSE
          Tracked = TRUE
INIT CLInit
NEXT CLNext
INVARIANTS OfferedIsProse
CHECK_DEADLOCK FALSE
