CONSTANTS MaxLines = 4
          Recognised <- OnlyBackticks
          CloseByAny = FALSE
          Directives = "prose"
          Tracked = TRUE
INIT CLInit
NEXT CLNext
INVARIANTS OfferedIsProse
CHECK_DEADLOCK FALSE
