CONSTANTS WholeRules <- Whole
          PatternRules <- Pattern
          Docs <- DocsGlue
          Cap = 2
          KeyHasTokens = TRUE
          MaxOps = 4
          Peeking <- NoRules
INIT LGInit
NEXT LGNext
INVARIANTS CacheUnobservable Decomposes
CHECK_DEADLOCK FALSE
