CONSTANTS MaxToks = 5
          SequelFromEnd = FALSE
          PrequelClamped = TRUE
          QuoteTwinErased = TRUE
          WindowsSeparate = TRUE
INIT IInit
NEXT INext
INVARIANTS HidesIt OnlyIt KeepsHiding
CHECK_DEADLOCK FALSE
