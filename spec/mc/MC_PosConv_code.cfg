CONSTANTS MaxLen = 5
          LastLineFix = FALSE
INIT PCInit
NEXT PCNext
INVARIANTS RoundTrip RangeCovers LookupInside EditEqualsSuggestion
CHECK_DEADLOCK FALSE
