CONSTANTS Chars <- CharsQuick
          DedupByConcat = FALSE
          MaxWord = 2
          MaxDict = 3
          MaxBound = 2
INIT DInit
NEXT DNext
INVARIANTS ContainsIsMembership BackendsAgree BackendsAgreeOnMembership MergedIsUnion ExactSane MutFuzzySoundComplete
CHECK_DEADLOCK FALSE
