CONSTANTS CursorOnDropped = FALSE
          MaxPos = 3
          MaxN = 4
INIT Init
NEXT Next
INVARIANTS EmitCase
CHECK_DEADLOCK FALSE
