CONSTANTS Vocab <- VocabC
          MaxAdds = 2
          MaxCrashes = 0
          AtomicSave = FALSE
          InitDisks <- InitDisksC
          TempExclusive = FALSE
          AppendOnly = TRUE
INIT DFInit
NEXT DFNext
INVARIANTS NeverLosesExceptKnown EveryFinishedAddSticks
CHECK_DEADLOCK FALSE
