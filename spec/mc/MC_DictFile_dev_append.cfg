CONSTANTS Vocab <- VocabC
          MaxAdds = 2
          MaxCrashes = 0
          AtomicSave = FALSE
          InitDisks <- InitDisksC
          AppendOnly = TRUE
INIT DFInit
NEXT DFNext
INVARIANTS NeverLosesExceptKnown
CHECK_DEADLOCK FALSE
