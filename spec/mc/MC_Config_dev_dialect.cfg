CONSTANTS Keys <- KeysC
          Known <- KnownC
          Varies <- OneVaries
          TableFollowsDialect = FALSE
          MaxOps = 1
INIT CInit
NEXT CNext
INVARIANTS DisabledMeansOffOrUnset OverlayGivesDefaultsWhereUnset OverlayMatchesGroup ExplicitWinsInMerge UnknownKeysHarmless ClearKeepsKeysDropsValues JsonRoundTrip MergeOrderIrrelevantForDisjoint
CHECK_DEADLOCK FALSE
