SPECIFICATION Spec
CONSTANTS
  MaxLen = 5
  Alphabet = {"W", "S", "C", "P", "G"}
  MiddleFrom = 1
  DropTerm = 1
INVARIANTS AlgSatisfiesProperty
CHECK_DEADLOCK FALSE
