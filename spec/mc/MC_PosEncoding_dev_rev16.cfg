CONSTANTS MaxLen = 5
          Negotiates = TRUE
          ReverseIn16 = TRUE
INIT PEInit
NEXT PENext
INVARIANTS AnnouncedWasOffered LookupInsideE EditEqualsSuggestionE
CHECK_DEADLOCK FALSE
