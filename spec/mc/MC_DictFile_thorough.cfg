CONSTANTS Vocab <- VocabC
          MaxAdds = 3
          MaxCrashes = 2
          AtomicSave = FALSE
          InitDisks <- InitDisksC
          AppendOnly = FALSE
INIT DFInit
NEXT DFNext
INVARIANTS NeverLosesExceptKnown
CHECK_DEADLOCK FALSE
