---------------------------- MODULE MC_LintGroupH ----------------------------
(* MC_LintGroup with a history variable, used only to print behaviours for (R). *)
EXTENDS MC_LintGroup
VARIABLE hist
DocSeq == <<[lang |-> "plain", chunks |-> <<[chars |-> "c1", toks |-> "c1/plain"]>>],
            [lang |-> "md",    chunks |-> <<[chars |-> "c1", toks |-> "c1/md"]>>],
            [lang |-> "plain", chunks |-> <<[chars |-> "c2", toks |-> "c2/plain"], [chars |-> "c1", toks |-> "c1/plain"]>>],
            [lang |-> "plain", chunks |-> <<[chars |-> "c3", toks |-> "c3/plain"], [chars |-> "c3", toks |-> "c3/plain"]>>]>>
CfgId(E) == (IF "w1" \in E THEN 1 ELSE 0) + (IF "p1" \in E THEN 2 ELSE 0) + (IF "p2" \in E THEN 4 ELSE 0)
InitH == LGInit /\ enabled = {} /\ hist = <<>>
NextH == \/ \E E \in SUBSET Rules : SetConfig(E) /\ hist' = Append(hist, [op |-> "cfg", id |-> CfgId(E)])
         \/ \E i \in DOMAIN DocSeq : Lint(DocSeq[i]) /\ hist' = Append(hist, [op |-> "lint", id |-> i - 1])
EmitCase == nops = MaxOps => PrintT(<<"CASE", ToJson(hist)>>)
=============================================================================
