CONSTANTS Urls <- UrlsC
          Texts <- TextsC
          Cfgs <- CfgsC
          RebuildOnlyIfChanged = FALSE
          FirstOfBatch = FALSE
          PullOnNull = TRUE
          SaveReadsDisk = FALSE
          TamperAllowed = FALSE
          IdentsAccumulate = FALSE
          ForgetIdentRecord = TRUE
          ConfigRebuilds = FALSE
          MaxMsgs = 4
          MaxInFlight = 1
          VersionGuard = FALSE
          RefreshFromMemory = TRUE
INIT LInit
NEXT LNext
INVARIANTS LastWordUnlessOverlapped
CHECK_DEADLOCK FALSE
