CONSTANTS Paths <- PathsC
          MaxRecords = 3
          MaxSwitches = 2
          MaxSessions = 2
          FlushOnSwitch = "none"
INIT SSInit
NEXT SSNext
INVARIANTS EachAppliedOnce NeverTwice InOrder
CHECK_DEADLOCK FALSE
