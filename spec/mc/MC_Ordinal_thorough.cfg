CONSTANTS MaxDigits = 5
          DecadeChecksNext = TRUE
INIT OInit
NEXT ONext
INVARIANTS VerdictMatches FixIsClean
CHECK_DEADLOCK FALSE
