CONSTANTS MaxToks = 3
          Deep = TRUE
          FixedInvert = TRUE
INIT PInit
NEXT PNext
INVARIANTS MatchContract ChunkLoopOk
CHECK_DEADLOCK FALSE
