CONSTANTS MaxLen = 5
          MaxRepl = 3
INIT Init
NEXT Next
INVARIANTS EmitCase
CHECK_DEADLOCK FALSE
