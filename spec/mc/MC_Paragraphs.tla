---------------------------- MODULE MC_Paragraphs ----------------------------
EXTENDS Paragraphs
SigmaP == {"t", "s", "1", "0", "e", "sp", "nl", "Period", "Apostrophe", "Quote", "Hyphen", "Comma"}
=============================================================================
