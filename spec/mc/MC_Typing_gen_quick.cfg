CONSTANTS Sigma <- SigmaQuick
          MaxLen = 4
          FixedInit = TRUE
          ExactSuffix = TRUE
INIT Init
NEXT Next
INVARIANTS EmitCase
CHECK_DEADLOCK FALSE
