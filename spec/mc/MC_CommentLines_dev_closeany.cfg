CONSTANTS MaxLines = 3
          Recognised <- Both
          CloseByAny = TRUE
          Directives = "prose"
          CloseAnyLength = FALSE
          Tracked = TRUE
INIT CLInit
NEXT CLNext
INVARIANTS OfferedIsProse
CHECK_DEADLOCK FALSE
