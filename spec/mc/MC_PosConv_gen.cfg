CONSTANTS MaxLen = 6
          LastLineFix = TRUE
INIT PCInit
NEXT PCNext
INVARIANTS EmitCase
CHECK_DEADLOCK FALSE
