CONSTANTS MaxOps = 3
          ResyncOnChange = TRUE
INIT JInit
NEXT JNext
INVARIANTS EmitCase
CHECK_DEADLOCK FALSE
