CONSTANTS MaxOps = 3
          ResyncOnChange = TRUE
          LintMemo = FALSE
INIT JInit
NEXT JNext
INVARIANTS EmitCase
CHECK_DEADLOCK FALSE
