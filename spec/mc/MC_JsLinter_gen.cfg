CONSTANTS MaxOps = 3
          ResyncOnChange = TRUE
          DocCacheByText = FALSE
          LintMemo = FALSE
INIT JInit
NEXT JNext
INVARIANTS EmitCase
CHECK_DEADLOCK FALSE
