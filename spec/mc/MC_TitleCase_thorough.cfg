CONSTANTS AllCapsRule = FALSE
          LatinLower = FALSE
          MaxToks = 3
          MaxWord = 1
INIT TInit
NEXT TNext
INVARIANTS LengthKept OnlyCase FirstCap Idempotent
CHECK_DEADLOCK FALSE
