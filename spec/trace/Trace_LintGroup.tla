--------------------------- MODULE Trace_LintGroup ---------------------------
(* Trace validation for C05 (and the cache part of C11).  One session = one        *)
(* long-lived real LintGroup:                                                       *)
(*   Reset | SetCfg{cfg} | Lint{lang, cfg, chunks[{chars,toks}], hits, misses,       *)
(*                              reused[], fresh[]} | LintPanic{...}                  *)
(*   Threads{threads, diff} | Proc{digest} | Proc2{digest}                           *)
(* Property level: every Lint returns what a freshly built group returns.            *)
(* Algorithm level: the spec's LRU cache (keys <<chars, toks, cfg>>, capacity        *)
(* 10000) predicts the number of hits reported by the hook counters (DRIFT).         *)
EXTENDS Naturals, Sequences, FiniteSets, Json, IOUtils, TLC

Rec == ndJsonDeserialize(IOEnv.TRACE)
CONSTANT KeyHasTokens
Cap == 10000
VARIABLES l, cache, cfg, proc

Key(ch, c) == IF KeyHasTokens THEN <<ch.chars, ch.toks, c>> ELSE <<ch.chars, c>>
\* set-based cache is enough below capacity; sessions in the traces stay far below it
RECURSIVE Loop(_, _, _, _, _)
Loop(chs, i, c, cch, h) ==
  IF i > Len(chs) THEN <<cch, h>>
  ELSE LET k == Key(chs[i], c) IN
       IF k \in cch THEN Loop(chs, i + 1, c, cch, h + 1) ELSE Loop(chs, i + 1, c, cch \cup {k}, h)

TraceInit == l = 1 /\ cache = {} /\ cfg = 0 /\ proc = ""
Step(e) ==
  CASE e.ev = "Reset" -> cache' = {} /\ cfg' = 0 /\ UNCHANGED proc
    [] e.ev = "SetCfg" -> cfg' = e.cfg /\ UNCHANGED <<cache, proc>>
    [] e.ev = "Lint" ->
         LET r == Loop(e.chunks, 1, cfg, cache, 0) IN
         /\ cache' = r[1] /\ UNCHANGED <<cfg, proc>>
         /\ IF e.reused # e.fresh THEN PrintT(<<"REJECT", l, "differs-from-fresh-linter">>)
            ELSE IF e.cfg # cfg THEN PrintT(<<"REJECT", l, "trace-config-out-of-step">>)
            ELSE IF e.hits # r[2] \/ e.hits + e.misses # Len(e.chunks) THEN PrintT(<<"DRIFT", l, e.hits, r[2]>>)
            ELSE TRUE
    [] e.ev = "LintPanic" ->
         /\ UNCHANGED <<cache, cfg, proc>>
         /\ IF e.reused_panicked # e.fresh_panicked THEN PrintT(<<"REJECT", l, "panics-only-when-reused-or-fresh">>) ELSE TRUE
    [] e.ev = "Threads" ->
         /\ UNCHANGED <<cache, cfg, proc>>
         /\ IF e.diff # 0 THEN PrintT(<<"REJECT", l, "differs-between-thread-counts">>) ELSE TRUE
    [] e.ev = "Proc" -> proc' = e.digest /\ UNCHANGED <<cache, cfg>>
    [] e.ev = "Proc2" ->
         /\ UNCHANGED <<cache, cfg, proc>>
         /\ IF e.digest # proc THEN PrintT(<<"REJECT", l, "differs-between-processes">>) ELSE TRUE
    [] OTHER -> UNCHANGED <<cache, cfg, proc>> /\ PrintT(<<"REJECT", l, "unknown-event">>)

TraceNext == l <= Len(Rec) /\ Step(Rec[l]) /\ l' = l + 1
Consumed == PrintT(<<"CONSUMED", TLCGet("stats").diameter - 1>>)
=============================================================================
