---------------------------- MODULE Trace_Typing ----------------------------
(* Trace validation for C01.                                                    *)
(*  Run{len, front, wrap, cfg, dialect, out, loc, ms, nlints} - one check request *)
(*     (Document::new + LintGroup::lint) executed on the real code.  The spec has *)
(*     an action only for a normal return: a panic or a watchdog timeout is not a *)
(*     behaviour of the specification.                                            *)
(*  Pat{pat, toks, m, lints, model_m, model_lints} - a TLC-enumerated pattern AST  *)
(*     run through the real pattern algebra and the real chunk loop: the match     *)
(*     contract of PatternsOps must hold; the model's prediction is compared.      *)
EXTENDS PatternsOps, Json, IOUtils

Rec == ndJsonDeserialize(IOEnv.TRACE)
VARIABLES l

\* generous, deterministic-in-kind stand-in for "low-degree polynomial": the watchdog
\* in the harness turns anything slower into out = "timeout"
Check(e) ==
  CASE e.ev = "Run" ->
         IF e.out = "ok" THEN TRUE
         ELSE IF e.out = "panic" THEN PrintT(<<"REJECT", l, "panic", e.loc>>)
         ELSE PrintT(<<"REJECT", l, "timeout", "">>)
    [] e.ev = "Pat" ->
         IF e.m < 0 \/ e.m > Len(e.toks) THEN PrintT(<<"REJECT", l, "match-contract", "">>)
         ELSE IF e.lints < 0 \/ e.lints > Len(e.toks) THEN PrintT(<<"REJECT", l, "chunk-loop", "">>)
         ELSE IF e.m # Matches(e.pat, e.toks, TRUE) \/ e.lints # RunLints(e.pat, e.toks, 0, TRUE)
              THEN PrintT(<<"DRIFT", l>>)
         ELSE TRUE
    [] OTHER -> PrintT(<<"REJECT", l, "unknown-event", "">>)

TraceInit == l = 1
TraceNext == l <= Len(Rec) /\ Check(Rec[l]) /\ l' = l + 1
Consumed == PrintT(<<"CONSUMED", TLCGet("stats").diameter - 1>>)
=============================================================================
