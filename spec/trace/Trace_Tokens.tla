---------------------------- MODULE Trace_Tokens ----------------------------
(* Trace validation for C02.                                                    *)
(*  Tokens{plain, classes[], toks[{k,s,e,n,sfx,numok}]} - one document parsed by *)
(*     the real code with some front-end; must satisfy WellFormed.               *)
(*  Case{classes[], model[], toks[]} - a TLC-enumerated class string parsed by    *)
(*     the real plain-English pipeline; must satisfy WellFormed, and is compared  *)
(*     with the algorithm-level model's prediction (mismatch = DRIFT).            *)
EXTENDS CondenseOps, Json, IOUtils

Rec == ndJsonDeserialize(IOEnv.TRACE)
VARIABLES l

TraceNumShape(text, t) == t.numok
Core(toks) == [i \in DOMAIN toks |-> [k |-> toks[i].k, s |-> toks[i].s, e |-> toks[i].e,
                                       n |-> toks[i].n, sfx |-> toks[i].sfx]]

Check(e) ==
  CASE e.ev = "Tokens" ->
         LET r == WFReason(e.classes, e.toks, e.plain, TraceNumShape) IN
         IF r # "ok" THEN PrintT(<<"REJECT", l, r, WFWhere(e.classes, e.toks, e.plain, TraceNumShape)>>) ELSE TRUE
    [] e.ev = "Case" ->
         LET r == WFReason(e.classes, e.toks, TRUE, TraceNumShape) IN
         IF r # "ok" THEN PrintT(<<"REJECT", l, r, WFWhere(e.classes, e.toks, TRUE, TraceNumShape)>>)
         ELSE IF Core(e.toks) # Core(e.model) THEN PrintT(<<"DRIFT", l>>)
         ELSE TRUE
    [] e.ev = "Panic" -> TRUE      \* C01 decides panics
    [] OTHER -> PrintT(<<"REJECT", l, "unknown-event", 0>>)

TraceInit == l = 1
TraceNext == l <= Len(Rec) /\ Check(Rec[l]) /\ l' = l + 1
Consumed == PrintT(<<"CONSUMED", TLCGet("stats").diameter - 1>>)
=============================================================================
