--------------------------- MODULE Trace_TitleCase ---------------------------
(* Trace validation for C18.  Title{in[], out[], out2[], inf[], outf[], fw,       *)
(* fwAscii, api}: code points of the input, of its title-cased form and of the     *)
(* form title-cased again; inf/outf are the per-character case-folded code points *)
(* (computed by the harness with the standard library, not by Harper); fw is the   *)
(* 0-based start of the first word-like token (or -1).                             *)
EXTENDS Naturals, Integers, Sequences, Json, IOUtils, TLC

Rec == ndJsonDeserialize(IOEnv.TRACE)
VARIABLES l

Apostrophes == {39, 8217}     \* ' and the curly apostrophe
CaseOnlyDiffCp(in, out, inf, outf) ==
  \A k \in DOMAIN in : \/ out[k] = in[k]
                       \/ outf[k] = inf[k]
                       \/ (in[k] \in Apostrophes /\ out[k] \in Apostrophes)
IsAsciiLetter(c) == (c >= 65 /\ c <= 90) \/ (c >= 97 /\ c <= 122)
IsAsciiUpper(c) == c >= 65 /\ c <= 90

Check(e) ==
  CASE e.ev = "Title" ->
         IF Len(e.out) # Len(e.in) THEN PrintT(<<"REJECT", l, "length-changed">>)
         ELSE IF ~CaseOnlyDiffCp(e.in, e.out, e.inf, e.outf) THEN PrintT(<<"REJECT", l, "not-only-case">>)
         ELSE IF e.fw >= 0 /\ IsAsciiLetter(e.in[e.fw + 1]) /\ ~IsAsciiUpper(e.out[e.fw + 1])
              THEN PrintT(<<"REJECT", l, "first-word-not-capitalised">>)
         ELSE IF e.out2 # e.out THEN PrintT(<<"REJECT", l, "not-idempotent">>)
         ELSE TRUE
    [] e.ev = "TitlePanic" -> PrintT(<<"REJECT", l, "panic">>)
    [] OTHER -> PrintT(<<"REJECT", l, "unknown-event">>)

TraceInit == l = 1
TraceNext == l <= Len(Rec) /\ Check(Rec[l]) /\ l' = l + 1
Consumed == PrintT(<<"CONSUMED", TLCGet("stats").diameter - 1>>)
=============================================================================
