------------------------- MODULE Trace_CommentLines -------------------------
(* Trace validation for CommentLines: every sequence of line kinds TLC generated,   *)
(* rendered as a real comment block in a real language and parsed by the real       *)
(* comment parser.                                                                  *)
(*  CL{kinds, lang, style, offered[i], stray}: offered[i] - the word of line i was    *)
(*  offered as a word token at its true offset; stray - word tokens anywhere else.    *)
EXTENDS Naturals, Sequences, FiniteSets, TLC, Json, IOUtils
Rec == ndJsonDeserialize(IOEnv.TRACE)
VARIABLES l
IsFence(k) == k \notin {"prose", "dir"}
FenceChar(k) == IF k \in {"bt", "bt4", "bti"} THEN "bt" ELSE "tl"
FenceLen(k) == IF k \in {"bt4", "tl4"} THEN 4 ELSE 3
HasInfo(k) == k \in {"bti", "tli"}
None == [ch |-> "none", len |-> 0]
RECURSIVE OpenAfter(_, _)
OpenAfter(ks, i) ==
  IF i = 0 THEN None
  ELSE LET before == OpenAfter(ks, i - 1) k == ks[i] IN
       IF ~IsFence(k) THEN before
       ELSE IF before = None THEN [ch |-> FenceChar(k), len |-> FenceLen(k)]
       ELSE IF before.ch = FenceChar(k) /\ FenceLen(k) >= before.len /\ ~HasInfo(k) THEN None ELSE before
IsCode(ks, i) == OpenAfter(ks, i - 1) # None \/ IsFence(ks[i])
TraceInit == l = 1
Step(e) ==
  IF e.ev = "Panic" THEN PrintT(<<"REJECT", l, "panic">>)
  ELSE IF e.ev # "CL" THEN PrintT(<<"REJECT", l, "unknown-event">>)
  ELSE IF \E i \in DOMAIN e.kinds : IsCode(e.kinds, i) /\ e.offered[i] THEN PrintT(<<"REJECT", l, "code-line-of-a-comment-offered">>)
  ELSE IF \E i \in DOMAIN e.kinds : ~IsCode(e.kinds, i) /\ ~e.offered[i] THEN PrintT(<<"REJECT", l, "prose-line-of-a-comment-missing-or-misplaced">>)
  ELSE IF e.stray > 0 THEN PrintT(<<"REJECT", l, "word-offered-at-a-wrong-place">>)
  ELSE TRUE
TraceNext == l <= Len(Rec) /\ Step(Rec[l]) /\ l' = l + 1
Consumed == PrintT(<<"CONSUMED", TLCGet("stats").diameter - 1>>)
=============================================================================
