------------------------- MODULE Trace_StatsSession -------------------------
(* Trace validation for C19 at the grain of language-server sessions.              *)
(*  Reset{paths, path}  a fresh directory; statsPath = path                          *)
(*  Rec{id}             a lint record applied (HarperRecordLint), ids 1, 2, 3, ...   *)
(*  Switch{to}          statsPath changed while the server runs                      *)
(*  Down{logs}          the server shut down; logs: path -> ids found in that log     *)
(*  Up                  a new server over the same directory                         *)
(* Judged by the property (each applied record in the logs exactly once, each log in  *)
(* order, nothing unknown); compared with StatsSession's "none" behaviour as drift.   *)
EXTENDS Naturals, Sequences, FiniteSets, TLC, Json, IOUtils
Rec == ndJsonDeserialize(IOEnv.TRACE)
VARIABLES l, paths, path, napplied, mlogs, mpend

Count(logs, ps, id) ==
  LET n(p) == Cardinality({i \in DOMAIN logs[p] : logs[p][i] = id}) IN
  LET RECURSIVE Sum(_) Sum(S) == IF S = {} THEN 0 ELSE LET x == CHOOSE x \in S : TRUE IN n(x) + Sum(S \ {x}) IN Sum(ps)
ToSet(s) == {s[i] : i \in DOMAIN s}

TraceInit == l = 1 /\ paths = {} /\ path = "" /\ napplied = 0 /\ mlogs = <<>> /\ mpend = <<>>
Step(e) ==
  CASE e.ev = "Reset" ->
         /\ paths' = ToSet(e.paths) /\ path' = e.path /\ napplied' = 0
         /\ mlogs' = [p \in ToSet(e.paths) |-> <<>>] /\ mpend' = <<>>
    [] e.ev = "Rec" ->
         /\ napplied' = napplied + 1 /\ mpend' = Append(mpend, e.id) /\ UNCHANGED <<paths, path, mlogs>>
         /\ IF e.id # napplied + 1 THEN PrintT(<<"REJECT", l, "driver-ids-out-of-sequence">>) ELSE TRUE
    [] e.ev = "Switch" ->
         /\ path' = e.to /\ UNCHANGED <<paths, napplied, mlogs, mpend>>
    [] e.ev = "Down" ->
         /\ mlogs' = [mlogs EXCEPT ![path] = @ \o mpend] /\ mpend' = <<>> /\ UNCHANGED <<paths, path, napplied>>
         /\ IF \E p \in paths : \E i \in DOMAIN e.logs[p] : e.logs[p][i] \notin 1..napplied
              THEN PrintT(<<"REJECT", l, "log-holds-something-that-was-never-applied">>)
            ELSE IF \E id \in 1..napplied : Count(e.logs, paths, id) > 1 THEN PrintT(<<"REJECT", l, "applied-record-logged-twice">>)
            ELSE IF \E id \in 1..napplied : Count(e.logs, paths, id) = 0 THEN PrintT(<<"REJECT", l, "applied-record-not-logged">>)
            ELSE IF \E p \in paths : \E i, j \in DOMAIN e.logs[p] : i < j /\ e.logs[p][i] >= e.logs[p][j]
              THEN PrintT(<<"REJECT", l, "log-out-of-order">>)
            ELSE IF \E p \in paths : e.logs[p] # (mlogs[p] \o (IF p = path THEN mpend ELSE <<>>)) THEN PrintT(<<"DRIFT", l>>)
            ELSE TRUE
    [] e.ev = "Up" -> UNCHANGED <<paths, path, napplied, mlogs, mpend>>
    [] OTHER -> UNCHANGED <<paths, path, napplied, mlogs, mpend>> /\ PrintT(<<"REJECT", l, "unknown-event">>)
TraceNext == l <= Len(Rec) /\ Step(Rec[l]) /\ l' = l + 1
Consumed == PrintT(<<"CONSUMED", TLCGet("stats").diameter - 1>>)
=============================================================================
