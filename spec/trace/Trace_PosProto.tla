---------------------------- MODULE Trace_PosProto ----------------------------
(* Trace validation for C08 at the protocol level: the real harper-ls binary over    *)
(* stdio, driven by an LSP client that offers position encodings.                    *)
(*  Init{offered, announced}  the initialize exchange                                *)
(*  Doc{t, ndiag}             didOpen and the publishDiagnostics that answers it     *)
(*  Diag{s, e, range}         one diagnostic; s, e: the span of the lint embedded in  *)
(*                            the HarperIgnoreLint action found inside its range      *)
(*                            (-1 when no position inside the range returned it)     *)
(*  Actions{s, e, at, pos, found}  codeAction at character `at` (pos as sent)         *)
(*  Edit{range, new, before, t, want, edit_present}  a quick fix, applied client-side *)
(* Positions are read in the unit the server announced (UTF-16 when it announced none)*)
EXTENDS PosEncodingOps, Json, IOUtils

Rec == ndJsonDeserialize(IOEnv.TRACE)
VARIABLES l, cur, enc

AsPos(p) == <<p[1], p[2]>>
AsRange(r) == <<AsPos(r[1]), AsPos(r[2])>>
ClientEditOkE(e) ==
  LET r == AsRange(e.range)
      okPos(p) == \E i \in 0..Len(e.t) : LspPosE(e.t, i, enc) = p
  IN /\ okPos(r[1]) /\ okPos(r[2])
     /\ LET a == ClientOffsetE(e.t, r[1], enc) b == ClientOffsetE(e.t, r[2], enc) IN
          a <= b /\ SubSeq(e.before, 1, a) \o e.new \o SubSeq(e.before, b + 1, Len(e.before)) = e.want

TraceInit == l = 1 /\ cur = <<>> /\ enc = "utf-16"
Step(e) ==
  CASE e.ev = "Init" ->
         /\ cur' = <<>>
         /\ enc' = Effective(e.announced)
         /\ IF e.announced \notin MayAnnounce(e.offered) THEN PrintT(<<"REJECT", l, "announced-encoding-was-not-offered">>) ELSE TRUE
    [] e.ev = "Doc" ->
         /\ cur' = e.t /\ UNCHANGED enc
    [] e.ev = "Diag" ->
         /\ UNCHANGED <<cur, enc>>
         /\ IF e.s < 0 THEN PrintT(<<"REJECT", l, "no-position-inside-the-range-returns-the-lint">>)
            ELSE IF ~SpanOk(e.s, e.e, Len(cur)) THEN PrintT(<<"REJECT", l, "lint-span-outside-text">>)
            ELSE IF AsRange(e.range) # SpanToRangeE(cur, e.s, e.e, enc) THEN PrintT(<<"REJECT", l, "diagnostic-range-does-not-cover-the-lint">>)
            ELSE TRUE
    [] e.ev = "Actions" ->
         /\ UNCHANGED <<cur, enc>>
         /\ IF AsPos(e.pos) # LspPosE(cur, e.at, enc) THEN PrintT(<<"REJECT", l, "driver-sent-a-wrong-position">>)
            ELSE IF ~e.found THEN PrintT(<<"REJECT", l, "code-actions-inside-range-miss-the-lint">>) ELSE TRUE
    [] e.ev = "Edit" ->
         /\ UNCHANGED <<cur, enc>>
         /\ IF ~e.edit_present THEN PrintT(<<"REJECT", l, "no-edit-for-a-suggestion">>)
            ELSE IF ~ClientEditOkE(e) THEN PrintT(<<"REJECT", l, "client-side-edit-differs-from-suggestion">>)
            ELSE TRUE
    [] e.ev = "Dead" -> UNCHANGED <<cur, enc>> /\ PrintT(<<"REJECT", l, "server-died">>)
    [] OTHER -> UNCHANGED <<cur, enc>> /\ PrintT(<<"REJECT", l, "unknown-event">>)

TraceNext == l <= Len(Rec) /\ Step(Rec[l]) /\ l' = l + 1
Consumed == PrintT(<<"CONSUMED", TLCGet("stats").diameter - 1>>)
=============================================================================
