----------------------------- MODULE Trace_Effects -----------------------------
(* Trace validation for C10: every system call of interest made by a real process   *)
(* (strace -f of the real harper-ls binary in stdio and TCP mode during complete      *)
(* LSP sessions, and of a process that only uses the library and the JS-facing API)   *)
(* must be in the alphabet of module Effects; and no forbidden package may appear in   *)
(* the resolved dependency set of the shipped crates (cargo metadata).                 *)
EXTENDS EffectsOps, Json, IOUtils

Rec == ndJsonDeserialize(IOEnv.TRACE)
VARIABLES l, tmode

TraceInit == l = 1 /\ tmode = "lib"
Step(e) ==
  CASE e.ev = "Proc" -> tmode' = e.mode
    [] e.ev = "Sys" -> /\ UNCHANGED tmode
                       /\ IF EffectOk(tmode, e) THEN TRUE ELSE PrintT(<<"REJECT", l, e.call>>)
    [] e.ev = "Dep" -> /\ UNCHANGED tmode
                       /\ IF e.name \in ForbiddenDeps THEN PrintT(<<"REJECT", l, "forbidden-dependency">>) ELSE TRUE
    [] e.ev = "SessionOk" -> /\ UNCHANGED tmode
                             /\ IF ~e.ok THEN PrintT(<<"REJECT", l, "session-did-not-complete">>) ELSE TRUE
    [] OTHER -> UNCHANGED tmode /\ PrintT(<<"REJECT", l, "unknown-event">>)
TraceNext == l <= Len(Rec) /\ Step(Rec[l]) /\ l' = l + 1
Consumed == PrintT(<<"CONSUMED", TLCGet("stats").diameter - 1>>)
=============================================================================
