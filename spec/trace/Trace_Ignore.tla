----------------------------- MODULE Trace_Ignore -----------------------------
(* Trace validation for C14.  One session = one ignore list (the real               *)
(* IgnoredLints, and in some sessions harper-wasm's Linter alongside):               *)
(*   Reset | Ignored{pid} | Edit{kind} | ExportImport | Lints{all[{id,pid,wv}],       *)
(*   visible[id], wasm}                                                               *)
(* pid / lpid are property-level identities of a lint computed by the harness: kind,  *)
(* message, suggestions, flagged text and the tokens within two characters on either  *)
(* side - pid counts every token, lpid only "words" (not white space or breaks).      *)
(* The spec state is the sets of identities ignored so far.  A re-lint must hide      *)
(* every lint whose strict identity was ignored (C14: stays ignored while the tokens  *)
(* within two characters are untouched) and must show every lint whose loose identity *)
(* was not (C14: a lint that differs in surrounding words is still reported); a lint  *)
(* that differs from an ignored one only in adjacent white space is left to the       *)
(* implementation.                                                                    *)
EXTENDS Naturals, Sequences, FiniteSets, Json, IOUtils, TLC

Rec == ndJsonDeserialize(IOEnv.TRACE)
VARIABLES l, ignoredP, ignoredL, ignoredW

Elems(s) == {s[i] : i \in DOMAIN s}
TraceInit == l = 1 /\ ignoredP = {} /\ ignoredL = {} /\ ignoredW = {}
Step(e) ==
  CASE e.ev = "Reset" -> ignoredP' = {} /\ ignoredL' = {} /\ ignoredW' = {}
    [] e.ev = "Ignored" -> /\ ignoredP' = ignoredP \cup {e.pid} /\ ignoredL' = ignoredL \cup {e.lpid}
                           \* the JS-facing linter only ignored it if it was showing it (e.w)
                           /\ ignoredW' = IF e.w THEN ignoredW \cup {e.pid} ELSE ignoredW
    [] e.ev \in {"Edit", "ExportImport"} -> UNCHANGED <<ignoredP, ignoredL, ignoredW>>
    [] e.ev = "Lints" ->
         /\ UNCHANGED <<ignoredP, ignoredL, ignoredW>>
         /\ LET vis == Elems(e.visible)
                back == {i \in DOMAIN e.all : e.all[i].pid \in ignoredP /\ e.all[i].id \in vis}
                lost == {i \in DOMAIN e.all : e.all[i].lpid \notin ignoredL /\ e.all[i].id \notin vis}
                wback == {i \in DOMAIN e.all : e.wasm /\ e.all[i].pid \in ignoredW /\ e.all[i].wv}
            IN IF back # {} THEN PrintT(<<"REJECT", l, "ignored-lint-is-reported", CHOOSE i \in back : TRUE>>)
               ELSE IF lost # {} THEN PrintT(<<"REJECT", l, "a-different-lint-is-hidden", CHOOSE i \in lost : TRUE>>)
               ELSE IF wback # {} THEN PrintT(<<"REJECT", l, "js-linter-reports-ignored-lint", CHOOSE i \in wback : TRUE>>)
               ELSE TRUE
    [] e.ev = "Panic" -> UNCHANGED <<ignoredP, ignoredL, ignoredW>>
    [] OTHER -> UNCHANGED <<ignoredP, ignoredL, ignoredW>> /\ PrintT(<<"REJECT", l, "unknown-event", 0>>)

TraceNext == l <= Len(Rec) /\ Step(Rec[l]) /\ l' = l + 1
Consumed == PrintT(<<"CONSUMED", TLCGet("stats").diameter - 1>>)
=============================================================================
