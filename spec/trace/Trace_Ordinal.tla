---------------------------- MODULE Trace_Ordinal ----------------------------
(* Trace validation for C17.  Ord{digits[], sfx, lower, flagged, rs, re, sugg,    *)
(* after}: the real CorrectNumberSuffix rule run on a sentence containing         *)
(* "<digits><sfx>"; rs/re = lint span relative to the start of the number;        *)
(* after = number of lints once the suggestion has been applied.  The expected     *)
(* verdict is recomputed from the digit sequence by PropertyVerdict.               *)
EXTENDS OrdinalOps, Json, IOUtils, TLC

Rec == ndJsonDeserialize(IOEnv.TRACE)
VARIABLES l

Check(e) ==
  IF e.ev # "Ord" THEN PrintT(<<"REJECT", l, "unknown-event">>)
  ELSE LET want == PropertyVerdict(e.digits, e.sfx) n == Len(e.digits) IN
    IF e.flagged # want[1] THEN PrintT(<<"REJECT", l, IF want[1] THEN "missed-wrong-suffix" ELSE "flagged-correct-suffix">>)
    ELSE IF ~e.flagged THEN TRUE
    ELSE IF e.rs # n \/ e.re # n + 2 THEN PrintT(<<"REJECT", l, "span-not-the-suffix">>)
    ELSE IF e.sugg # want[2] THEN PrintT(<<"REJECT", l, "wrong-suggestion">>)
    ELSE IF e.after # 0 THEN PrintT(<<"REJECT", l, "still-reported-after-fix">>)
    ELSE IF RuleVerdict(e.digits, e.sfx, e.lower, TRUE) # <<e.flagged, e.sugg>> THEN PrintT(<<"DRIFT", l>>)
    ELSE TRUE

TraceInit == l = 1
TraceNext == l <= Len(Rec) /\ Check(Rec[l]) /\ l' = l + 1
Consumed == PrintT(<<"CONSUMED", TLCGet("stats").diameter - 1>>)
=============================================================================
