------------------------------ MODULE Trace_Dict ------------------------------
(* Trace validation for C15.                                                      *)
(*  Q{ws, q, bound, cap, mut, fst, merged[], fzmut, fzfst} - a TLC-enumerated      *)
(*     word list built into the real MutableDictionary / FstDictionary /           *)
(*     MergedDictionary (every split) and queried; exact answers are checked        *)
(*     against the set-theoretic reading and the union law, fuzzy results against   *)
(*     FuzzySound / FuzzyComplete; the algorithm-level predictions are compared     *)
(*     (DRIFT).                                                                     *)
(*  F{q, lower, bound, cap, fst[], mut[], merged[], agree} - the curated dictionary *)
(*     (words as code points; `indict` = membership in the harness's own word set). *)
(*  Dist{a, b, d} - the distance function through a one-word dictionary.            *)
EXTENDS DictOps, Json, IOUtils

Rec == ndJsonDeserialize(IOEnv.TRACE)
VARIABLES l

ListedWords(ws) == {ws[i] : i \in DOMAIN ws}
SpecContains(ws, q) == \E i \in DOMAIN ws : Id(ws[i]) = Id(q)

\* exact-query clauses for one back-end answer record a, on word list ws
ExactOk(ws, q, a) ==
  /\ a.contains = SpecContains(ws, q)
  /\ a.meta = a.contains
  /\ (a.exact => a.contains)
  /\ (a.contains => (a.canon \in ListedWords(ws) /\ Id(a.canon) = Id(q)))
  /\ (a.exact = (a.contains /\ Norm(a.canon) = Norm(q)))      \* both sides normalised (6e44128)
  /\ a.str_agree

\* a merged dictionary behaves as the union of its parts (first part wins for the spelling)
MergedOk(ws, q, a) ==
  LET c1 == SubSeq(ws, 1, a.k) c2 == SubSeq(ws, a.k + 1, Len(ws)) IN
  /\ a.contains = (MutContains(c1, q) \/ MutContains(c2, q))
  /\ a.contains = SpecContains(ws, q)
  /\ a.meta = a.contains
  /\ a.exact = (MutExact(c1, q) \/ MutExact(c2, q))
  /\ a.canon = MergedCanon(c1, c2, q)
  /\ a.str_agree

QReason(e) ==
  LET ws == e.ws q == e.q clash == HasIdClash(ws) IN
  IF ~ExactOk(ws, q, e.mut) THEN "mutable-exact-answers"
  ELSE IF ~ExactOk(ws, q, e.fst) THEN "fst-exact-answers"
  ELSE IF \E k \in DOMAIN e.merged : ~MergedOk(ws, q, e.merged[k]) THEN "merged-is-not-the-union"
  ELSE IF [x \in {"contains", "exact", "canon"} |-> e.mut[x]] # [x \in {"contains", "exact", "canon"} |-> e.fst[x]]
       THEN (IF clash THEN "backends-disagree-on-case-variants" ELSE "backends-disagree")
  ELSE IF \E k \in DOMAIN e.merged :
            ~clash /\ [x \in {"contains", "exact", "canon"} |-> e.merged[k][x]] # [x \in {"contains", "exact", "canon"} |-> e.mut[x]]
       THEN "merged-is-not-the-union"
  ELSE LET r1 == FuzzyReason(MutWords(ws), q, e.bound, e.cap, e.fzmut)
           r2 == FuzzyReason(ListedWords(ws), q, e.bound, e.cap, e.fzfst)
       IN IF r1 # "ok" THEN "mutable-fuzzy-" \o r1
          ELSE IF r2 # "ok" THEN "fst-fuzzy-" \o r2
          ELSE IF \E k \in DOMAIN e.merged :
                    FuzzyReason(MutWords(SubSeq(ws, 1, e.merged[k].k)) \cup MutWords(SubSeq(ws, e.merged[k].k + 1, Len(ws))),
                                q, e.bound, e.cap, e.merged[k].fz) # "ok"
               THEN "merged-fuzzy"
          \* a union holds each word once: a word that two parts know is one result
          ELSE IF \E k \in DOMAIN e.merged : \E i, j \in DOMAIN e.merged[k].fz : i < j /\ e.merged[k].fz[i].w = e.merged[k].fz[j].w
               THEN "merged-fuzzy-lists-a-word-twice"
          ELSE "ok"

QDrift(e) ==
  \/ e.mut.contains # MutContains(e.ws, e.q) \/ e.mut.exact # MutExact(e.ws, e.q) \/ e.mut.canon # MutCanon(e.ws, e.q)
  \/ e.fst.contains # FstContains(e.ws, e.q) \/ e.fst.exact # FstExact(e.ws, e.q) \/ e.fst.canon # FstCanon(e.ws, e.q)
  \/ {e.fzmut[i].w : i \in DOMAIN e.fzmut} \ MutFuzzySet(e.ws, e.q, e.bound) # {}

\* curated dictionary: soundness of one result list
\* qn: the query with apostrophes normalised; ql: qn lower-cased (both from the harness, using
\* the standard library's case mapping)
CurSound(qn, ql, bound, cap, res) ==
  /\ Len(res) <= cap
  /\ \A i \in DOMAIN res : /\ res[i].indict
                           /\ (res[i].d = LevDP(qn, res[i].w) \/ res[i].d = LevDP(ql, res[i].w))
                           /\ res[i].d <= bound
  /\ \A i \in 1..(Len(res) - 1) : res[i].d <= res[i + 1].d
Dists(res) == [i \in DOMAIN res |-> res[i].d]
FReason(e) ==
  IF ~e.agree THEN "curated-exact-answers-disagree"
  ELSE IF ~CurSound(e.qn, e.ql, e.bound, e.cap, e.fst) THEN "fst-fuzzy-unsound"
  ELSE IF ~CurSound(e.qn, e.ql, e.bound, e.cap, e.mut) THEN "mutable-fuzzy-unsound"
  ELSE IF ~CurSound(e.qn, e.ql, e.bound, e.cap, e.merged) THEN "merged-fuzzy-unsound"
  \* completeness for lower-case queries: the fast back-end returns as good a set as the full scan
  ELSE IF e.lower /\ Dists(e.fst) # Dists(e.mut) THEN "fst-missed-a-near-word"
  ELSE "ok"

Check(e) ==
  CASE e.ev = "Q" -> LET r == QReason(e) IN
                     IF r # "ok" THEN PrintT(<<"REJECT", l, r>>)
                     ELSE IF QDrift(e) THEN PrintT(<<"DRIFT", l>>) ELSE TRUE
    [] e.ev = "F" -> LET r == FReason(e) IN IF r # "ok" THEN PrintT(<<"REJECT", l, r>>) ELSE TRUE
    [] e.ev = "Dist" -> IF e.b # <<>> /\ e.d # LevDP(e.a, e.b) THEN PrintT(<<"REJECT", l, "distance-function">>) ELSE TRUE
    [] e.ev = "StrAgree" -> IF ~e.agree THEN PrintT(<<"REJECT", l, "string-and-character-lookups-disagree">>) ELSE TRUE
    [] e.ev = "Panic" -> PrintT(<<"REJECT", l, "panic">>)
    [] OTHER -> PrintT(<<"REJECT", l, "unknown-event">>)

TraceInit == l = 1
TraceNext == l <= Len(Rec) /\ Check(Rec[l]) /\ l' = l + 1
Consumed == PrintT(<<"CONSUMED", TLCGet("stats").diameter - 1>>)
=============================================================================
