------------------------------ MODULE Trace_Spell ------------------------------
(* Trace validation for C06.  Spell{word, form, active, entry_dialect,             *)
(* listed_exact, lower_listed_exact, entry_is_lower, known_any_case, ntok, flagged, *)
(* span_exact, bad_suggestions[]}: one word (a curated entry in its listed form, its *)
(* Capitalised / UPPER-CASE form, or a non-word) placed in a sentence and checked    *)
(* by the real SpellCheck rule under one dialect.  listed_* come from the harness's  *)
(* own word set.  The expectation is recomputed here from those facts.               *)
EXTENDS Naturals, Sequences, Json, IOUtils, TLC

Rec == ndJsonDeserialize(IOEnv.TRACE)
VARIABLES l

DialectOk(e) == e.entry_dialect = "none" \/ e.entry_dialect = e.active
\* must the word be accepted?
MustAccept(e) ==
  \/ (e.form = "listed" /\ e.listed_exact /\ DialectOk(e))
  \/ (e.form \in {"cap", "upper"} /\ e.entry_is_lower /\ e.lower_listed_exact /\ DialectOk(e))
MustFlag(e) == e.form = "nonword" /\ ~e.known_any_case

Check(e) ==
  CASE e.ev = "Spell" ->
         IF e.bad_suggestions # <<>> THEN PrintT(<<"REJECT", l, "suggestion-not-a-dictionary-word-of-the-dialect">>)
         ELSE IF MustAccept(e) /\ e.flagged
              THEN PrintT(<<"REJECT", l, IF e.ntok = 1 THEN "listed-word-reported" ELSE "listed-multi-token-word-reported">>)
         ELSE IF MustFlag(e) /\ ~e.flagged THEN PrintT(<<"REJECT", l, "unknown-word-not-reported">>)
         ELSE IF MustFlag(e) /\ e.ntok = 1 /\ ~e.span_exact THEN PrintT(<<"REJECT", l, "span-is-not-the-word">>)
         ELSE TRUE
    [] e.ev = "SpellPanic" -> PrintT(<<"REJECT", l, "panic">>)
    [] OTHER -> PrintT(<<"REJECT", l, "unknown-event">>)

TraceInit == l = 1
TraceNext == l <= Len(Rec) /\ Check(Rec[l]) /\ l' = l + 1
Consumed == PrintT(<<"CONSUMED", TLCGet("stats").diameter - 1>>)
=============================================================================
