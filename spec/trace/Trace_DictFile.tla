---------------------------- MODULE Trace_DictFile ----------------------------
(* Trace validation for C07.  One session = one directory, one or more server      *)
(* incarnations of the real harper-ls Backend:                                      *)
(*   Reset | Preexisting{scope, doc, words[]} | Added{scope, w, doc, completed} | Crashed{scope, w, doc, at, finished}  *)
(*   | Restart | Reloaded{scope, doc, present, words[]} | Published{doc, flagged[],  *)
(*   other}                                                                           *)
(* Spec state (as in DictFile.tla, at the granularity of whole commands): the words   *)
(* added to the user dictionary and to each document's file dictionary, and the words *)
(* whose add was interrupted by a crash (they may or may not have reached the disk).  *)
EXTENDS Naturals, Integers, Sequences, FiniteSets, Json, IOUtils, TLC

Rec == ndJsonDeserialize(IOEnv.TRACE)
VARIABLES l, user, file, maybeU, maybeF, crashedAt, baseline, afterCrash

Docs == {1, 2}
Elems(s) == {s[i] : i \in DOMAIN s}
\* Lower-casing is done by the harness (field names *_lc are not needed: the vocabulary's case
\* variants are listed here)
SameLetters(a, b) == a # b /\ <<a, b>> \in {<<"zzyzxq", "Zzyzxq">>, <<"Zzyzxq", "zzyzxq">>, <<"zzyzxq", "ZZYZXQ">>, <<"ZZYZXQ", "zzyzxq">>,
                                           <<"Zzyzxq", "ZZYZXQ">>, <<"ZZYZXQ", "Zzyzxq">>}
CaseClashWith(w, S) == \E x \in S : SameLetters(w, x)

TraceInit == l = 1 /\ user = {} /\ file = [d \in Docs |-> {}] /\ maybeU = {} /\ maybeF = [d \in Docs |-> {}] /\ crashedAt = 0
             /\ baseline = [d \in Docs |-> -1] /\ afterCrash = {}
Unch == UNCHANGED <<user, file, maybeU, maybeF, crashedAt, baseline, afterCrash>>
Step(e) ==
  CASE e.ev = "Reset" -> user' = {} /\ file' = [d \in Docs |-> {}] /\ maybeU' = {} /\ maybeF' = [d \in Docs |-> {}] /\ crashedAt' = 0
                         /\ baseline' = [d \in Docs |-> -1] /\ afterCrash' = {}
    \* a dictionary file that was there before the server ran: its words are stored words
    [] e.ev = "Preexisting" ->
         /\ IF e.scope = "user" THEN user' = user \cup Elems(e.words) /\ UNCHANGED file
            ELSE file' = [file EXCEPT ![e.doc] = @ \cup Elems(e.words)] /\ UNCHANGED user
         \* lines of a hand-edited file that are not words (a phrase, a remark): they may stay in the file, nothing more is claimed
         /\ IF e.scope = "user" THEN maybeU' = maybeU \cup Elems(e.lines) /\ UNCHANGED maybeF
            ELSE maybeF' = [maybeF EXCEPT ![e.doc] = @ \cup Elems(e.lines)] /\ UNCHANGED maybeU
         /\ UNCHANGED <<crashedAt, baseline, afterCrash>>
    [] e.ev = "Added" ->
         /\ IF e.scope = "user" THEN user' = user \cup {e.w} /\ UNCHANGED file
            ELSE file' = [file EXCEPT ![e.doc] = @ \cup {e.w}] /\ UNCHANGED user
         /\ UNCHANGED <<maybeU, maybeF, crashedAt, baseline>>
         \* words added once a crash is behind us: the truncate-before-write window of THAT crash cannot explain their loss
         /\ afterCrash' = IF crashedAt # 0 THEN afterCrash \cup {e.w} ELSE afterCrash
         /\ IF ~e.completed THEN PrintT(<<"REJECT", l, "add-word-command-did-not-finish", "">>) ELSE TRUE
    [] e.ev = "Crashed" ->
         /\ IF e.scope = "user" THEN maybeU' = maybeU \cup {e.w} /\ UNCHANGED maybeF
            ELSE maybeF' = [maybeF EXCEPT ![e.doc] = @ \cup {e.w}] /\ UNCHANGED maybeU
         /\ crashedAt' = e.at /\ UNCHANGED <<user, file, baseline, afterCrash>>
    [] e.ev \in {"Restart", "Moved"} -> Unch
    \* DictPath.tla (SavedWhereConfigured): after the user dictionary has moved, nothing may appear at its old place
    [] e.ev = "Stray" -> Unch /\ IF e.exists THEN PrintT(<<"REJECT", l, "word-stored-where-no-dictionary-is-configured", "">>) ELSE TRUE
    \* FileDictName.tla: Fits and Distinct for the two documents of a long-path session
    [] e.ev = "Deep" ->
         /\ Unch
         /\ IF e.name_bytes > 255 THEN PrintT(<<"REJECT", l, "file-dictionary-name-longer-than-a-file-name", "">>)
            ELSE IF e.same_name THEN PrintT(<<"REJECT", l, "two-documents-share-a-file-dictionary-name", "">>)
            ELSE TRUE
    [] e.ev = "Reloaded" ->
         /\ Unch
         /\ LET want == IF e.scope = "user" THEN user ELSE file[e.doc]
                may == IF e.scope = "user" THEN maybeU ELSE maybeF[e.doc]
                got == Elems(e.words)
                missing == want \ got
                extra == got \ (want \cup may)
            IN IF missing # {} THEN
                  (IF \E w \in missing : CaseClashWith(w, want \cup may)
                   THEN PrintT(<<"REJECT", l, "added-word-replaced-by-its-case-variant", "">>)
                   ELSE IF missing \cap afterCrash # {} THEN PrintT(<<"REJECT", l, "word-added-after-a-crash-is-missing-from-the-file", "">>)
                   ELSE IF crashedAt # 0 THEN PrintT(<<"REJECT", l, "crash-during-save-lost-earlier-words", "">>)
                   ELSE PrintT(<<"REJECT", l, "added-word-missing-from-the-file", "">>))
               ELSE IF extra # {} THEN PrintT(<<"REJECT", l, "file-holds-a-word-never-added", "">>)
               ELSE TRUE
    [] e.ev = "Published" ->
         /\ UNCHANGED <<user, file, maybeU, maybeF, crashedAt, afterCrash>>
         /\ baseline' = IF baseline[e.doc] = -1 THEN [baseline EXCEPT ![e.doc] = e.other] ELSE baseline
         /\ LET fl == Elems(e.flagged)
                mine == user \cup file[e.doc]
                others == UNION {file[d] : d \in Docs \ {e.doc}} \ (mine \cup maybeU \cup maybeF[e.doc])
                \* an added word is reported again ...
                back == {w \in mine : w \in fl}
                \* a word that only another file's dictionary holds must still be reported here;
                \* its case variants in this file's or the user dictionary accept it, too
                leak == {w \in others : w \notin fl /\ ~CaseClashWith(w, mine \cup maybeU \cup maybeF[e.doc])
                                          /\ ~(\E m \in mine \cup maybeU \cup maybeF[e.doc] : m = "zzyzxq" /\ w \in {"Zzyzxq", "ZZYZXQ"})}
            IN IF back # {} THEN
                  (IF \E w \in back : CaseClashWith(w, mine \cup maybeU \cup maybeF[e.doc])
                   THEN PrintT(<<"REJECT", l, "added-word-replaced-by-its-case-variant", "">>)
                   ELSE IF back \cap afterCrash # {} THEN PrintT(<<"REJECT", l, "word-added-after-a-crash-is-reported", "">>)
                   ELSE IF crashedAt # 0 THEN PrintT(<<"REJECT", l, "crash-during-save-lost-earlier-words", "">>)
                   ELSE PrintT(<<"REJECT", l, "added-word-reported", "">>))
               ELSE IF leak # {} THEN PrintT(<<"REJECT", l, "file-dictionary-word-accepted-in-another-file", "">>)
               ELSE IF baseline[e.doc] # -1 /\ e.other # baseline[e.doc] THEN PrintT(<<"REJECT", l, "other-lints-changed", "">>)
               ELSE TRUE
    [] OTHER -> Unch /\ PrintT(<<"REJECT", l, "unknown-event", "">>)

TraceNext == l <= Len(Rec) /\ Step(Rec[l]) /\ l' = l + 1
Consumed == PrintT(<<"CONSUMED", TLCGet("stats").diameter - 1>>)
=============================================================================
