--------------------------- MODULE Trace_Paragraphs ---------------------------
(* Trace validation for C12.  Pair{lenP, lp[], ld[], lpd[]}: digests of the lints  *)
(* of a complete paragraph P, of a following text D (spans already shifted by       *)
(* Len(P)) and of P \o D, all rules on.  The lints of the whole must be exactly the  *)
(* lints of P plus the shifted lints of D (as multisets).                            *)
(* Seg{kinds[], chunks[], sentences[], paragraphs[]}: the kinds of a document's       *)
(* tokens (letters of SegmentsOps) and the slices iter_chunks / iter_sentences /      *)
(* iter_paragraphs returned.  Property level: each is a partition of the token list   *)
(* and nothing continues across a paragraph break; algorithm level (drift): the       *)
(* slices are those of SegmentsOps!Split.                                             *)
EXTENDS SegmentsOps, Json, IOUtils, TLC

Rec == ndJsonDeserialize(IOEnv.TRACE)
VARIABLES l
Count(s, x) == Cardinality({i \in DOMAIN s : s[i] = x})
Elems(s) == {s[i] : i \in DOMAIN s}
BagSum(e, a, b) == \A x \in Elems(e) \cup Elems(a) \cup Elems(b) : Count(e, x) = Count(a, x) + Count(b, x)

Check(e) ==
  CASE e.ev = "Pair" ->
         IF BagSum(e.lpd, e.lp, e.ld) THEN TRUE
         ELSE IF \E x \in Elems(e.lp) \cup Elems(e.ld) : Count(e.lpd, x) < Count(e.lp, x) + Count(e.ld, x)
              THEN PrintT(<<"REJECT", l, "lint-lost-or-moved-when-paragraphs-are-joined">>)
         ELSE PrintT(<<"REJECT", l, "extra-lint-when-paragraphs-are-joined">>)
    [] e.ev = "Seg" ->
         LET bad == {w \in {"chunks", "sentences", "paragraphs"} : ~PropertyOk(e.kinds, e[w])}
             off == {w \in {"chunks", "sentences", "paragraphs"} : e[w] # Split(e.kinds, TermOf(w))}
         IN IF bad # {} THEN PrintT(<<"REJECT", l, "cut-is-not-a-partition-closed-at-paragraph-breaks">>)
            ELSE IF off # {} THEN PrintT(<<"DRIFT", l, "cut">>)
            ELSE TRUE
    [] e.ev = "PairPanic" -> TRUE     \* C01 decides panics
    [] OTHER -> PrintT(<<"REJECT", l, "unknown-event">>)

TraceInit == l = 1
TraceNext == l <= Len(Rec) /\ Check(Rec[l]) /\ l' = l + 1
Consumed == PrintT(<<"CONSUMED", TLCGet("stats").diameter - 1>>)
=============================================================================
