---------------------------- MODULE Trace_Spans ----------------------------
(* Trace validation for C03.  Events recorded from the real code:             *)
(*   Doc{len, lints[{s,e}]}  - one document linted; every span must lie in it *)
(*   Applied{kind, repl, s, e, before, after} - one Suggestion::apply call     *)
(*   ApplyPanic{...} - apply panicked on a span inside the text                *)
EXTENDS SpansOps, Json, IOUtils

Rec == ndJsonDeserialize(IOEnv.TRACE)
VARIABLES l

BadSpans(e) == {k \in DOMAIN e.lints : ~SpanOk(e.lints[k].s, e.lints[k].e, e.len)}

Check(e) ==
  CASE e.ev = "Doc" ->
         IF BadSpans(e) # {} THEN PrintT(<<"REJECT", l, "span-outside-text", CHOOSE k \in BadSpans(e) : TRUE>>)
         ELSE TRUE
    [] e.ev = "Applied" ->
         IF ~SpanOk(e.s, e.e, Len(e.before)) THEN PrintT(<<"REJECT", l, "span-outside-text", 0>>)
         ELSE IF e.after # Apply(e.kind, e.repl, e.s, e.e, e.before)
              THEN PrintT(<<"REJECT", l, "edit-differs-from-Apply", 0>>)
         ELSE IF ~LocalEdit(e.kind, e.repl, e.s, e.e, e.before, e.after)
              THEN PrintT(<<"REJECT", l, "edit-not-local", 0>>)
         ELSE TRUE
    [] e.ev = "ApplyPanic" -> PrintT(<<"REJECT", l, "apply-panicked", 0>>)
    [] OTHER -> PrintT(<<"REJECT", l, "unknown-event", 0>>)

TraceInit == l = 1
TraceNext == l <= Len(Rec) /\ Check(Rec[l]) /\ l' = l + 1
Consumed == PrintT(<<"CONSUMED", TLCGet("stats").diameter - 1>>)
=============================================================================
