-------------------------- MODULE Trace_SourceFile --------------------------
(* Trace validation for C04.  Src{lang, len, segs[{kind,s,e}], prose[{w,s}],        *)
(* forbidden[], toks[{k,s,e,text}]}: one generated source file; segs/prose are the   *)
(* ground truth recorded while the file was rendered (character offsets), toks the   *)
(* tokens the real front-end produced (white space and breaks left out).             *)
EXTENDS Naturals, Sequences, FiniteSets, Json, IOUtils, TLC

Rec == ndJsonDeserialize(IOEnv.TRACE)
VARIABLES l

WordLike == {"Word", "Number", "Hostname", "Url", "EmailAddress", "Decade"}
ProseSegs(e) == {i \in DOMAIN e.segs : e.segs[i].kind = "prose"}
InsideProse(e, t) == \E i \in ProseSegs(e) : e.segs[i].s <= t.s /\ t.e <= e.segs[i].e
\* (i) every prose word is seen as a Word token with identical text at its true offset
Missing(e) == {i \in DOMAIN e.prose : ~\E j \in DOMAIN e.toks :
                 e.toks[j].k = "Word" /\ e.toks[j].s = e.prose[i].s /\ e.toks[j].text = e.prose[i].w}
\* (ii) nothing outside the prose is offered to the rules as lintable text
Leaked(e) == {j \in DOMAIN e.toks : e.toks[j].k \in WordLike /\ ~InsideProse(e, e.toks[j])}
\* (iii) in particular none of the marker words placed in code, strings, URLs, ignored comments
Elems(s) == {s[i] : i \in DOMAIN s}
Marked(e) == {j \in DOMAIN e.toks : e.toks[j].k \in WordLike /\ e.toks[j].text \in Elems(e.forbidden)}
InBounds(e) == \A j \in DOMAIN e.toks : e.toks[j].s <= e.toks[j].e /\ e.toks[j].e <= e.len

Check(e) ==
  CASE e.ev = "Src" ->
         IF ~InBounds(e) THEN PrintT(<<"REJECT", l, "token-outside-file", 0>>)
         ELSE IF Missing(e) # {} THEN PrintT(<<"REJECT", l, "prose-word-missing-or-misplaced", CHOOSE i \in Missing(e) : TRUE>>)
         ELSE IF Marked(e) # {} THEN PrintT(<<"REJECT", l, "non-prose-marker-offered-to-rules", CHOOSE j \in Marked(e) : TRUE>>)
         ELSE IF Leaked(e) # {} THEN PrintT(<<"REJECT", l, "non-prose-text-offered-to-rules", CHOOSE j \in Leaked(e) : TRUE>>)
         ELSE TRUE
    [] e.ev = "SrcPanic" -> TRUE     \* C01 decides panics
    [] OTHER -> PrintT(<<"REJECT", l, "unknown-event", 0>>)

TraceInit == l = 1
TraceNext == l <= Len(Rec) /\ Check(Rec[l]) /\ l' = l + 1
Consumed == PrintT(<<"CONSUMED", TLCGet("stats").diameter - 1>>)
=============================================================================
