--------------------------- MODULE Trace_LspServer ---------------------------
(* Trace validation for C09.  One session on the real Backend:                     *)
(*   Reset | Recv{seq, kind, url, text, cfg} | Sched{order} | Pub{url, ids[], handler}  *)
(*   | Quiescent{overlap} | Stuck{kind}                                               *)
(* text is the identity of a text, cfg of a configuration.  ids lists the (text,       *)
(* configuration) pairs [t, c] for which a FRESH server publishes exactly these          *)
(* diagnostics (t = "none": empty diagnostics): each pool text has its own misspelling   *)
(* and each configuration leaves its own mark, so a publish identifies what it was       *)
(* computed from.  The spec keeps   *)
(* LspServer's client-side variables (clientText, open) and `published`; at every      *)
(* quiescent point the last publish for each url must be its newest text, or empty     *)
(* diagnostics once it is closed or deleted.                                           *)
EXTENDS Naturals, Integers, Sequences, FiniteSets, Json, IOUtils, TLC

Rec == ndJsonDeserialize(IOEnv.TRACE)
VARIABLES l, clientText, clientCfg, published, tainted, announced

Urls == {0, 1, 2, 3, 4, 5}
\* tainted: urls left stale by an overlapping batch (already reported); cleared when the client
\* sends a new text for the url
Nothing == {[t |-> "none", c |-> ""]}
Elems(s) == {s[i] : i \in DOMAIN s}
\* is the last publish what a fresh server would say about the client's text under the client's configuration?
UpToDate(u) == IF clientText[u] = "none" THEN \E x \in published[u] : x.t = "none"
               ELSE \E x \in published[u] : x.t = clientText[u] /\ x.c = clientCfg
TraceInit == l = 1 /\ clientText = [u \in Urls |-> "none"] /\ clientCfg = "c0" /\ published = [u \in Urls |-> Nothing] /\ tainted = {} /\ announced = TRUE
Step(e) ==
  CASE e.ev = "Reset" -> clientText' = [u \in Urls |-> "none"] /\ clientCfg' = "c0" /\ published' = [u \in Urls |-> Nothing] /\ tainted' = {} /\ announced' = TRUE
    [] e.ev = "Recv" ->
         /\ clientText' = CASE e.kind \in {"open", "change"} -> [clientText EXCEPT ![e.url] = e.text]
                            [] e.kind \in {"close", "delete"} -> [clientText EXCEPT ![e.url] = "none"]
                            \* every document that lives in the deleted directory (all but the untitled one, url 2)
                            [] e.kind \in {"deletedir", "deletedir/"} -> [u \in Urls |-> IF u = 2 THEN clientText[u] ELSE "none"]
                            [] OTHER -> clientText
         /\ clientCfg' = IF e.kind \in {"config", "silentcfg"} THEN e.cfg ELSE clientCfg
         \* settings changed without a notification: nothing is promised until the change is announced
         /\ announced' = (IF e.kind = "silentcfg" THEN FALSE ELSE IF e.kind \in {"config", "confignull"} THEN TRUE ELSE announced)
         /\ tainted' = IF e.kind \in {"open", "change", "close", "delete"} THEN tainted \ {e.url}
                       ELSE IF e.kind \in {"deletedir", "deletedir/"} THEN tainted \ (Urls \ {2}) ELSE tainted
         /\ UNCHANGED published
    [] e.ev = "Sched" -> UNCHANGED <<clientText, clientCfg, published, tainted, announced>>
    [] e.ev = "Pub" -> /\ published' = IF e.url \in Urls THEN [published EXCEPT ![e.url] = Elems(e.ids)] ELSE published
                       /\ UNCHANGED <<clientText, clientCfg, tainted, announced>>
    [] e.ev = "Quiescent" ->
         /\ UNCHANGED <<clientText, clientCfg, published, announced>>
         /\ LET bad == IF announced THEN {u \in Urls : ~UpToDate(u)} \ tainted ELSE {} IN
            /\ tainted' = IF e.overlap THEN tainted \cup bad ELSE tainted
            /\ IF bad = {} THEN TRUE
               ELSE IF e.overlap THEN PrintT(<<"REJECT", l, "stale-last-word-after-overlapping-handlers", CHOOSE u \in bad : TRUE>>)
               ELSE PrintT(<<"REJECT", l, "stale-last-word-after-sequential-handling", CHOOSE u \in bad : TRUE>>)
    [] e.ev = "Stuck" -> UNCHANGED <<clientText, clientCfg, published, tainted, announced>> /\ PrintT(<<"REJECT", l, "handler-never-finished", 0>>)
    [] OTHER -> UNCHANGED <<clientText, clientCfg, published, tainted, announced>> /\ PrintT(<<"REJECT", l, "unknown-event", 0>>)

TraceNext == l <= Len(Rec) /\ Step(Rec[l]) /\ l' = l + 1
Consumed == PrintT(<<"CONSUMED", TLCGet("stats").diameter - 1>>)
=============================================================================
