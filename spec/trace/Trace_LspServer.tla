--------------------------- MODULE Trace_LspServer ---------------------------
(* Trace validation for C09.  One session on the real Backend:                     *)
(*   Reset | Recv{seq, kind, url, text} | Sched{order} | Pub{url, text, handler}     *)
(*   | Quiescent{overlap} | Stuck{kind}                                               *)
(* text is the identity of a text (each pool text has its own misspelling, so the     *)
(* published diagnostics identify the text they were computed from).  The spec keeps   *)
(* LspServer's client-side variables (clientText, open) and `published`; at every      *)
(* quiescent point the last publish for each url must be its newest text, or empty     *)
(* diagnostics once it is closed or deleted.                                           *)
EXTENDS Naturals, Integers, Sequences, FiniteSets, Json, IOUtils, TLC

Rec == ndJsonDeserialize(IOEnv.TRACE)
VARIABLES l, clientText, published, tainted

Urls == {0, 1, 2}
\* tainted: urls left stale by an overlapping batch (already reported); cleared when the client
\* sends a new text for the url
TraceInit == l = 1 /\ clientText = [u \in Urls |-> "none"] /\ published = [u \in Urls |-> "empty"] /\ tainted = {}
Step(e) ==
  CASE e.ev = "Reset" -> clientText' = [u \in Urls |-> "none"] /\ published' = [u \in Urls |-> "empty"] /\ tainted' = {}
    [] e.ev = "Recv" ->
         /\ clientText' = CASE e.kind \in {"open", "change"} -> [clientText EXCEPT ![e.url] = e.text]
                            [] e.kind \in {"close", "delete"} -> [clientText EXCEPT ![e.url] = "none"]
                            [] OTHER -> clientText
         /\ tainted' = IF e.kind \in {"open", "change", "close", "delete"} THEN tainted \ {e.url} ELSE tainted
         /\ UNCHANGED published
    [] e.ev = "Sched" -> UNCHANGED <<clientText, published, tainted>>
    [] e.ev = "Pub" -> /\ published' = IF e.url \in Urls THEN [published EXCEPT ![e.url] = e.text] ELSE published
                       /\ UNCHANGED <<clientText, tainted>>
    [] e.ev = "Quiescent" ->
         /\ UNCHANGED <<clientText, published>>
         /\ LET bad == {u \in Urls : published[u] # (IF clientText[u] = "none" THEN "empty" ELSE clientText[u])} \ tainted IN
            /\ tainted' = IF e.overlap THEN tainted \cup bad ELSE tainted
            /\ IF bad = {} THEN TRUE
               ELSE IF e.overlap THEN PrintT(<<"REJECT", l, "stale-last-word-after-overlapping-handlers", CHOOSE u \in bad : TRUE>>)
               ELSE PrintT(<<"REJECT", l, "stale-last-word-after-sequential-handling", CHOOSE u \in bad : TRUE>>)
    [] e.ev = "Stuck" -> UNCHANGED <<clientText, published, tainted>> /\ PrintT(<<"REJECT", l, "handler-never-finished", 0>>)
    [] OTHER -> UNCHANGED <<clientText, published, tainted>> /\ PrintT(<<"REJECT", l, "unknown-event", 0>>)

TraceNext == l <= Len(Rec) /\ Step(Rec[l]) /\ l' = l + 1
Consumed == PrintT(<<"CONSUMED", TLCGet("stats").diameter - 1>>)
=============================================================================
