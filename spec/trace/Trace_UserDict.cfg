INIT TraceInit
NEXT TraceNext
POSTCONDITION Consumed
CHECK_DEADLOCK FALSE
