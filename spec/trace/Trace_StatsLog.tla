--------------------------- MODULE Trace_StatsLog ---------------------------
(* Trace validation for C19.  One session of the real Stats::write/read (also    *)
(* through harper-ls's append-mode save and harper-wasm's export/import):         *)
(*   Reset                    a fresh, empty log                                  *)
(*   Wrote{recs[{id,kind,len,rawbreaks}], flen}  a batch appended; flen = size of  *)
(*                            the log afterwards (characters)                      *)
(*   ReadBack{ids[], kinds[]} the whole log read back                              *)
(*   ReadError{msg}           the log could not be read                            *)
(*   Summary{total}           Stats::summarize().total_applied after reading back  *)
(* The spec state is the abstract log (sequence of records written so far) and     *)
(* the file length; Wrote is StatsLog!WriteRecord batched, ReadBack must return     *)
(* exactly the log.                                                                 *)
EXTENDS Naturals, Sequences, Json, IOUtils, TLC

Rec == ndJsonDeserialize(IOEnv.TRACE)
VARIABLES l, log, flen, skip

RECURSIVE SumLen(_)
SumLen(rs) == IF rs = <<>> THEN 0 ELSE Head(rs).len + 1 + SumLen(Tail(rs))
Ids(s) == [i \in DOMAIN s |-> s[i].id]
Kinds(s) == [i \in DOMAIN s |-> s[i].kind]
LintCount(s) == Len(SelectSeq(s, LAMBDA r : r.kind = "Lint"))

Reject(reason) == PrintT(<<"REJECT", l, reason>>)

TraceInit == l = 1 /\ log = <<>> /\ flen = 0 /\ skip = FALSE
Step(e) ==
  IF e.ev = "Reset" THEN log' = <<>> /\ flen' = 0 /\ skip' = FALSE
  ELSE IF skip THEN UNCHANGED <<log, flen, skip>>       \* rest of a rejected session
  ELSE CASE e.ev = "Wrote" ->
         IF \E i \in DOMAIN e.recs : e.recs[i].rawbreaks # 0
         THEN Reject("raw-line-break-inside-record") /\ skip' = TRUE /\ UNCHANGED <<log, flen>>
         ELSE IF e.flen # flen + SumLen(e.recs)
         THEN Reject("not-an-append") /\ skip' = TRUE /\ UNCHANGED <<log, flen>>
         ELSE log' = log \o e.recs /\ flen' = e.flen /\ UNCHANGED skip
    [] e.ev = "ReadBack" ->
         IF e.ids # Ids(log) \/ e.kinds # Kinds(log)
         THEN Reject("read-back-differs") /\ skip' = TRUE /\ UNCHANGED <<log, flen>>
         ELSE UNCHANGED <<log, flen, skip>>
    [] e.ev = "ReadError" -> Reject("read-error") /\ skip' = TRUE /\ UNCHANGED <<log, flen>>
    [] e.ev = "Summary" ->
         IF e.total # LintCount(log)
         THEN Reject("summary-miscounts") /\ skip' = TRUE /\ UNCHANGED <<log, flen>>
         ELSE UNCHANGED <<log, flen, skip>>
    [] OTHER -> Reject("unknown-event") /\ UNCHANGED <<log, flen, skip>>

TraceNext == l <= Len(Rec) /\ Step(Rec[l]) /\ l' = l + 1
Consumed == PrintT(<<"CONSUMED", TLCGet("stats").diameter - 1>>)
=============================================================================
