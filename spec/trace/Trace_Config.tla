---------------------------- MODULE Trace_Config ----------------------------
(* Trace validation for C11.                                                     *)
(*  Cfg{op, k, on, before, other, after, other_after, enabled_after, stray}:      *)
(*     one operation on the real LintGroupConfig, projected onto the three model  *)
(*     keys (r1: a rule whose curated default is on, r2: one whose default is off, *)
(*     zz: an unknown name).  after must equal the ConfigOps operator applied to   *)
(*     before (the spec's action); stray counts keys outside the projection that    *)
(*     differ from the curated defaults.                                            *)
(*  Parts{e[], a[], b[], e2[], fresh[], order}: lints (digests) of one document under an enabled *)
(*     set E, under the two halves of a partition E = A + B (in a logged order, on  *)
(*     one long-lived linter), under E again, and under E on a fresh linter.        *)
(*  Switch{entry, rule, value, got, moved}: one rule switched on or off through the   *)
(*     harper-ls settings or the harper-wasm JSON, overlaid on the curated defaults:   *)
(*     the explicit choice comes out and no other rule moves (every rule, both ways).  *)
(*  Effective{entry, explicit, unknown, missing, wrong}: a configuration of a given   *)
(*     shape (complete, nearly complete, padded with unknown names, nulls) overlaid on   *)
(*     the curated defaults: wrong counts the rules whose effective switch is not        *)
(*     "explicit value, else curated default".                                           *)
(*  Overlay{want[], ls[], wasm_ok, wasm_roundtrip_ok}: user settings overlaid on    *)
(*     curated defaults through harper-ls's and harper-wasm's entry formats.        *)
EXTENDS ConfigOps, Json, IOUtils

Rec == ndJsonDeserialize(IOEnv.TRACE)
VARIABLES l

\* JSON objects arrive as records; an empty object arrives as an empty record/tuple
AsCfg(r) == r
Curated3 == [k \in {"r1", "r2"} |-> IF k = "r1" THEN "On" ELSE "Off"]
Expected(e) ==
  LET c == AsCfg(e.before) o == AsCfg(e.other) IN
  CASE e.op = "Set" -> SetRule(c, e.k, e.on)
    [] e.op = "SetIfUnset" -> SetIfUnset(c, e.k, e.on)
    [] e.op = "Unset" -> Unset(c, e.k)
    [] e.op = "Clear" -> Clear(c)
    [] e.op = "MergeFrom" -> MergeFrom(c, o)
    [] e.op = "FillWithCurated" -> FillWithCurated(c, Curated3)
    [] e.op = "Json" -> CfgFromJson(CfgToJson(c))
SameMap(a, b) == DOMAIN a = DOMAIN b /\ \A k \in DOMAIN a : a[k] = b[k]
Names == <<"r1", "r2", "zz">>

Count(s, x) == Cardinality({i \in DOMAIN s : s[i] = x})
Elems(s) == {s[i] : i \in DOMAIN s}
BagSum(e, a, b) == \A x \in Elems(e) \cup Elems(a) \cup Elems(b) : Count(e, x) = Count(a, x) + Count(b, x)
BagEq(a, b) == \A x \in Elems(a) \cup Elems(b) : Count(a, x) = Count(b, x)

Check(e) ==
  CASE e.ev = "Cfg" ->
         LET want == Expected(e) got == AsCfg(e.after) IN
         \* property level: what the switches mean after the operation
         IF \E i \in 1..3 : e.enabled_after[i] # Enabled(got, Names[i]) THEN PrintT(<<"REJECT", l, "enabled-does-not-mean-on", e.op>>)
         ELSE IF e.op = "FillWithCurated" /\ ~OverlayOk(AsCfg(e.before), Curated3, got) THEN PrintT(<<"REJECT", l, "overlay-wrong", e.op>>)
         ELSE IF e.op = "MergeFrom" /\ ~MergeOk(AsCfg(e.before), AsCfg(e.other), got) THEN PrintT(<<"REJECT", l, "merge-wrong", e.op>>)
         ELSE IF e.op = "Json" /\ ~SameMap(got, AsCfg(e.before)) THEN PrintT(<<"REJECT", l, "json-round-trip", e.op>>)
         ELSE IF e.op = "Set" /\ Enabled(got, e.k) # e.on THEN PrintT(<<"REJECT", l, "set-did-not-take", e.op>>)
         ELSE IF e.op = "Clear" /\ \E i \in 1..3 : e.enabled_after[i] THEN PrintT(<<"REJECT", l, "clear-left-a-rule-on", e.op>>)
         ELSE IF e.stray # 0 /\ e.op # "FillWithCurated" THEN PrintT(<<"REJECT", l, "touched-other-rules", e.op>>)
         ELSE IF ~SameMap(got, want) THEN PrintT(<<"DRIFT", l, e.op>>)
         ELSE TRUE
    [] e.ev = "Parts" ->
         IF ~BagSum(e.e, e.a, e.b) THEN PrintT(<<"REJECT", l, "not-the-combination-of-its-parts", "">>)
         ELSE IF ~BagEq(e.e, e.e2) THEN PrintT(<<"REJECT", l, "same-config-different-result", "">>)
         ELSE IF ~BagEq(e.e, e.fresh) THEN PrintT(<<"REJECT", l, "history-of-configurations-shows", "">>)
         ELSE TRUE
    [] e.ev = "Switch" ->
         IF e.got # e.value THEN PrintT(<<"REJECT", l, "explicit-choice-lost", e.entry>>)
         ELSE IF e.moved # 0 THEN PrintT(<<"REJECT", l, "switch-moved-another-rule", e.entry>>)
         ELSE TRUE
    \* a rule the user first chose and then set back to "default" (null): it takes its curated default again
    [] e.ev = "Unset" ->
         IF e.got # e.want THEN PrintT(<<"REJECT", l, "rule-set-back-to-default-keeps-its-old-value", e.entry>>) ELSE TRUE
    [] e.ev = "Effective" ->
         IF e.wrong # 0 THEN PrintT(<<"REJECT", l, "overlay-gives-a-rule-the-wrong-switch", e.entry>>) ELSE TRUE
    [] e.ev = "Overlay" ->
         IF ~BagEq(e.want, e.ls) THEN PrintT(<<"REJECT", l, "ls-overlay-differs", "">>)
         ELSE IF ~e.wasm_ok THEN PrintT(<<"REJECT", l, "wasm-overlay-differs", "">>)
         ELSE IF ~e.wasm_roundtrip_ok THEN PrintT(<<"REJECT", l, "wasm-config-json-round-trip", "">>)
         ELSE TRUE
    [] OTHER -> PrintT(<<"REJECT", l, "unknown-event", "">>)

TraceInit == l = 1
TraceNext == l <= Len(Rec) /\ Check(Rec[l]) /\ l' = l + 1
Consumed == PrintT(<<"CONSUMED", TLCGet("stats").diameter - 1>>)
=============================================================================
