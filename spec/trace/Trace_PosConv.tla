---------------------------- MODULE Trace_PosConv ----------------------------
(* Trace validation for C08.                                                      *)
(*  Conv{t, s, e, range, back, hits[]}: a TLC-enumerated class string run through   *)
(*     the real span_to_range / range_to_span and the code-action lookup.           *)
(*  Doc{t, ndiag, nlints} Diag{s, e, range} Actions{found} Edit{range, new, before,  *)
(*     t, want, edit_present, client_ok}: a real document in the real DocumentState: *)
(*     published diagnostics, code actions requested at every character of each      *)
(*     range, and each text edit applied the way an LSP client does.                 *)
EXTENDS PosConvOps, SpansOps, Json, IOUtils

Rec == ndJsonDeserialize(IOEnv.TRACE)
VARIABLES l, cur

AsPos(p) == <<p[1], p[2]>>
AsRange(r) == <<AsPos(r[1]), AsPos(r[2])>>

\* the client's reading of the edit: offsets from the class string, content from code points
ClientEditOk(e) ==
  LET r == AsRange(e.range)
      okPos(p) == \E i \in 0..Len(e.t) : LspPos(e.t, i) = p
  IN /\ okPos(r[1]) /\ okPos(r[2])
     /\ LET a == ClientOffset(e.t, r[1]) b == ClientOffset(e.t, r[2]) IN
          a <= b /\ SubSeq(e.before, 1, a) \o e.new \o SubSeq(e.before, b + 1, Len(e.before)) = e.want

TraceInit == l = 1 /\ cur = <<>>
Step(e) ==
  CASE e.ev = "Conv" ->
         /\ UNCHANGED cur
         /\ IF AsRange(e.range) # SpanToRange(e.t, e.s, e.e) THEN PrintT(<<"REJECT", l, "range-does-not-cover-the-span">>)
            ELSE IF <<e.back[1], e.back[2]>> # <<e.s, e.e>> THEN PrintT(<<"REJECT", l, "range-does-not-map-back-to-the-span">>)
            ELSE IF \E k \in DOMAIN e.hits : ~e.hits[k] THEN PrintT(<<"REJECT", l, "position-inside-range-misses-the-lint">>)
            ELSE TRUE
    [] e.ev = "Doc" ->
         /\ cur' = e.t
         /\ IF e.ndiag # e.nlints THEN PrintT(<<"REJECT", l, "diagnostics-do-not-match-lints">>) ELSE TRUE
    [] e.ev = "Diag" ->
         /\ UNCHANGED cur
         /\ IF ~SpanOk(e.s, e.e, Len(cur)) THEN PrintT(<<"REJECT", l, "lint-span-outside-text">>)
            ELSE IF AsRange(e.range) # SpanToRange(cur, e.s, e.e) THEN PrintT(<<"REJECT", l, "diagnostic-range-does-not-cover-the-lint">>)
            ELSE IF ~e.msg_same THEN PrintT(<<"REJECT", l, "diagnostic-message-differs">>)
            ELSE TRUE
    [] e.ev = "Actions" ->
         /\ UNCHANGED cur
         /\ IF ~e.found THEN PrintT(<<"REJECT", l, "code-actions-inside-range-miss-the-lint">>) ELSE TRUE
    [] e.ev = "Edit" ->
         /\ UNCHANGED cur
         /\ IF ~e.edit_present THEN PrintT(<<"REJECT", l, "no-edit-for-a-suggestion">>)
            ELSE IF ~e.client_ok THEN PrintT(<<"REJECT", l, "client-side-edit-differs-from-suggestion">>)
            ELSE IF ~ClientEditOk(e) THEN PrintT(<<"REJECT", l, "client-side-edit-differs-from-suggestion(tlc)">>)
            ELSE TRUE
    [] e.ev = "Panic" -> UNCHANGED cur /\ PrintT(<<"REJECT", l, "panic">>)
    [] OTHER -> UNCHANGED cur /\ PrintT(<<"REJECT", l, "unknown-event">>)

TraceNext == l <= Len(Rec) /\ Step(Rec[l]) /\ l' = l + 1
Consumed == PrintT(<<"CONSUMED", TLCGet("stats").diameter - 1>>)
=============================================================================
