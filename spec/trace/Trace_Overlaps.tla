--------------------------- MODULE Trace_Overlaps ---------------------------
(* Trace validation for C13: every Case event recorded from the real          *)
(* harper_core::remove_overlaps must satisfy the property-level postcondition *)
(* of module Overlaps; the algorithm-level closed form is compared as well     *)
(* (a mismatch that still satisfies the property is model drift, not a         *)
(* violation).                                                                 *)
EXTENDS OverlapsOps, Json, IOUtils

Rec == ndJsonDeserialize(IOEnv.TRACE)

VARIABLES l
tvars == <<l>>

Proj(seq) == [k \in DOMAIN seq |-> [id |-> seq[k].id, s |-> seq[k].s, e |-> seq[k].e]]

Check(e) ==
  IF e.ev = "Case" THEN
     LET r == PostReason(e.in, e.out) IN
       IF r # "ok" THEN PrintT(<<"REJECT", l, r>>)
       ELSE IF Proj(e.out) # ModelResult(Proj(e.in)) THEN PrintT(<<"DRIFT", l>>)
       ELSE TRUE
  ELSE PrintT(<<"REJECT", l, "unknown-event">>)

TraceInit == l = 1
TraceNext == l <= Len(Rec) /\ Check(Rec[l]) /\ l' = l + 1
TraceSpec == TraceInit /\ [][TraceNext]_tvars

Consumed == PrintT(<<"CONSUMED", TLCGet("stats").diameter - 1>>)
=============================================================================
