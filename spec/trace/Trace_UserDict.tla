--------------------------- MODULE Trace_UserDict ---------------------------
(* Trace validation for UserDict: sessions of the in-process language server with     *)
(* several open documents that all contain one unknown word.                          *)
(*  Reset  Open{d}  Change{d}  Close{d}  Add{d}                                       *)
(*  Rest{flagged}   the server is at rest; flagged: the open documents whose last      *)
(*                  published diagnostics still report the word                        *)
EXTENDS Naturals, Sequences, FiniteSets, TLC, Json, IOUtils
Rec == ndJsonDeserialize(IOEnv.TRACE)
VARIABLES l, open, added
ToSet(s) == {s[i] : i \in DOMAIN s}
TraceInit == l = 1 /\ open = {} /\ added = FALSE
Step(e) ==
  CASE e.ev = "Reset" -> open' = {} /\ added' = FALSE
    [] e.ev = "Open" -> open' = open \cup {e.d} /\ UNCHANGED added
    [] e.ev = "Change" -> UNCHANGED <<open, added>>
    [] e.ev = "Close" -> open' = open \ {e.d} /\ UNCHANGED added
    [] e.ev = "Add" -> added' = TRUE /\ UNCHANGED open
    [] e.ev = "Rest" ->
         /\ UNCHANGED <<open, added>>
         /\ IF added /\ ToSet(e.flagged) \cap open # {} THEN PrintT(<<"REJECT", l, "word-in-the-user-dictionary-still-reported-in-an-open-document">>)
            ELSE IF ~added /\ ToSet(e.flagged) # open THEN PrintT(<<"REJECT", l, "unknown-word-not-reported">>)
            ELSE TRUE
    [] OTHER -> UNCHANGED <<open, added>> /\ PrintT(<<"REJECT", l, "unknown-event">>)
TraceNext == l <= Len(Rec) /\ Step(Rec[l]) /\ l' = l + 1
Consumed == PrintT(<<"CONSUMED", TLCGet("stats").diameter - 1>>)
=============================================================================
