---------------------------- MODULE Trace_JsLinter ----------------------------
(* Trace validation for C16 (and the JS side of C07).  One session = one real       *)
(* harper_wasm::Linter:                                                             *)
(*   Reset | Import{words, exported} | Lint{text, len, lints[{s,e,problem,slice,msg}]} *)
(*   | Ignore{text, key{s,e,msg}, ident} | IgnoredRoundTrip{ok} | ExportIgnored         *)
(*   | ClearIgnored | ImportIgnored{ok} | Config{ok} | Json{ok}                         *)
(*   | Applied{kind, repl, s, e, before, after} | Clone{probes[{orig[], clone[]}]}     *)
(* Spec state: the words imported so far (spelling as given), and - between an         *)
(* Ignore and the next Lint of the same text - what that Lint must return (the         *)
(* previous result minus the ignored lint), the ignore list in force (ign: the         *)
(* (text, language, identity) triples ignored and not cleared) and the exported one     *)
(* (saved): a lint in force must not come back in its own document.                      *)
EXTENDS SpansOps, OverlapsOps, FiniteSets, Json, IOUtils

Rec == ndJsonDeserialize(IOEnv.TRACE)
VARIABLES l, added, last, pending, ign, saved

KeyOf(x) == <<x.s, x.e, x.msg, x.ident>>
Keys(lints) == [i \in DOMAIN lints |-> KeyOf(lints[i])]
\* ignoring is by identity, not by position: every lint with the ignored lint's identity goes
Without(ks, id) == SelectSeq(ks, LAMBDA x : x[4] # id)
LowerEq(a, b) == a = b   \* placeholder: case folding is done by the harness (fields *_lc)

TraceInit == l = 1 /\ added = {} /\ last = [text |-> "", lang |-> "", keys |-> <<>>] /\ pending = <<>> /\ ign = {} /\ saved = {}
Unch == UNCHANGED <<added, last, pending, ign, saved>>
Step(e) ==
  CASE e.ev = "Reset" -> added' = {} /\ last' = [text |-> "", lang |-> "", keys |-> <<>>] /\ pending' = <<>> /\ ign' = {} /\ saved' = {}
    [] e.ev = "Import" -> added' = added \cup {e.words[i] : i \in DOMAIN e.words} /\ UNCHANGED <<last, pending, ign, saved>>
    [] e.ev = "Lint" ->
         /\ last' = [text |-> e.text, lang |-> e.lang, keys |-> Keys(e.lints)] /\ pending' = <<>> /\ UNCHANGED <<added, ign, saved>>
         /\ LET spans == [i \in DOMAIN e.lints |-> [id |-> i, s |-> e.lints[i].s, e |-> e.lints[i].e]] IN
            IF \E i \in DOMAIN e.lints : ~SpanOk(e.lints[i].s, e.lints[i].e, e.len) THEN PrintT(<<"REJECT", l, "lint-outside-text">>)
            ELSE IF ~ConflictFree(spans) THEN PrintT(<<"REJECT", l, "lints-overlap">>)
            ELSE IF \E i \in DOMAIN e.lints : e.lints[i].problem # e.lints[i].slice THEN PrintT(<<"REJECT", l, "problem-text-is-not-the-span">>)
            ELSE IF pending # <<>> /\ pending[1] = <<e.text, e.lang>> /\ Keys(e.lints) # pending[2]
                 THEN PrintT(<<"REJECT", l, "ignore-changed-more-or-less-than-that-lint">>)
            ELSE IF \E i \in DOMAIN e.lints : <<e.text, e.lang, e.lints[i].ident>> \in ign
                 THEN PrintT(<<"REJECT", l, "ignored-lint-is-reported">>)
            ELSE IF \E i \in DOMAIN e.lints : e.lints[i].kind = "Spelling" /\ e.lints[i].problem \in added
                 THEN PrintT(<<"REJECT", l, "added-word-reported">>)
            ELSE TRUE
    [] e.ev = "Ignore" ->
         /\ UNCHANGED <<added, last, saved>>
         /\ ign' = ign \cup {<<e.text, e.lang, e.ident>>}
         /\ pending' = IF last.text = e.text /\ last.lang = e.lang
                       THEN <<<<e.text, e.lang>>, Without(last.keys, e.ident)>> ELSE <<>>
    [] e.ev = "ExportIgnored" -> saved' = ign /\ UNCHANGED <<added, last, pending, ign>>
    [] e.ev = "ClearIgnored" -> ign' = {} /\ pending' = <<>> /\ UNCHANGED <<added, last, saved>>
    [] e.ev = "ImportIgnored" ->
         /\ ign' = ign \cup saved /\ pending' = <<>> /\ UNCHANGED <<added, last, saved>>
         /\ IF ~e.ok THEN PrintT(<<"REJECT", l, "round-trip-failed-ImportIgnored">>) ELSE TRUE
    [] e.ev \in {"IgnoredRoundTrip", "Config", "Json"} ->
         /\ Unch /\ IF ~e.ok THEN PrintT(<<"REJECT", l, "round-trip-failed-" \o e.ev>>) ELSE TRUE
    [] e.ev = "Applied" ->
         /\ Unch
         /\ IF ~SpanOk(e.s, e.e, Len(e.before)) THEN PrintT(<<"REJECT", l, "lint-outside-text">>)
            ELSE IF e.after # Apply(e.kind, e.repl, e.s, e.e, e.before) THEN PrintT(<<"REJECT", l, "apply-suggestion-edits-elsewhere">>)
            ELSE TRUE
    [] e.ev = "ApplyError" -> Unch /\ PrintT(<<"REJECT", l, "apply-suggestion-failed">>)
    [] e.ev = "Clone" ->
         /\ Unch
         /\ IF \E i \in DOMAIN e.probes : e.probes[i].orig # e.probes[i].clone
            THEN PrintT(<<"REJECT", l, "export-import-clone-behaves-differently">>) ELSE TRUE
    [] e.ev = "Panic" -> Unch /\ PrintT(<<"REJECT", l, "panic">>)
    [] OTHER -> Unch /\ PrintT(<<"REJECT", l, "unknown-event">>)

TraceNext == l <= Len(Rec) /\ Step(Rec[l]) /\ l' = l + 1
Consumed == PrintT(<<"CONSUMED", TLCGet("stats").diameter - 1>>)
=============================================================================
