----------------------------- MODULE TitleCaseOps -----------------------------
(* Title casing (harper-core/src/title_case.rs: make_title_case).  Property C18. *)
(* A character is [id, up, ascii]: letter identity, upper-case?, ASCII letter?    *)
(* (to_ascii_uppercase / to_ascii_lowercase only touch ASCII letters).  A token   *)
(* is [wl, chars, canon, cap]: word-like?, its characters, the dictionary's       *)
(* canonical capitalisation pattern when the word is a known proper noun          *)
(* ("none" | "Title" | "iOS"), and should_capitalize_token's answer (a function   *)
(* of the case-folded word, hence stable under re-casing).                        *)
EXTENDS Naturals, Sequences, TLC

Up(c) == IF c.ascii THEN [c EXCEPT !.up = TRUE] ELSE c
Low(c) == IF c.ascii THEN [c EXCEPT !.up = FALSE] ELSE c

\* dictionary's verbatim spelling of a proper noun: same letters, canonical case
Canon(pattern, chars) ==
  [i \in DOMAIN chars |->
     CASE pattern = "Title" -> [chars[i] EXCEPT !.up = (i = 1)]
       [] pattern = "iOS"   -> [chars[i] EXCEPT !.up = (i # 1)]
       [] OTHER -> chars[i]]

WordLikeIdx(toks) == SelectSeq([i \in 1..Len(toks) |-> i], LAMBDA i : toks[i].wl)

\* make_title_case, token by token
TCToken(t, first, last) ==
  IF ~t.wl \/ t.chars = <<>> THEN t
  ELSE LET c1 == IF t.canon # "none" THEN Canon(t.canon, t.chars) ELSE t.chars
           cap == t.cap \/ first \/ last
           c2 == IF cap THEN [c1 EXCEPT ![1] = Up(c1[1])]
                 ELSE [i \in DOMAIN c1 |-> Low(c1[i])]
       IN [t EXCEPT !.chars = c2]

TC(toks) ==
  LET wl == WordLikeIdx(toks) IN
  [i \in DOMAIN toks |->
     IF toks[i].wl THEN TCToken(toks[i], wl # <<>> /\ wl[1] = i, wl # <<>> /\ wl[Len(wl)] = i)
     ELSE toks[i]]

RECURSIVE Flat(_)
Flat(toks) == IF toks = <<>> THEN <<>> ELSE Head(toks).chars \o Flat(Tail(toks))

\* Property level, on flattened character sequences
SameLength(a, b) == Len(a) = Len(b)
CaseOnlyDiff(a, b) == Len(a) = Len(b) /\ \A i \in DOMAIN a : a[i].id = b[i].id /\ a[i].ascii = b[i].ascii
FirstWordCapital(toks, out) ==
  LET wl == WordLikeIdx(toks) IN
  wl # <<>> /\ toks[wl[1]].chars # <<>> /\ toks[wl[1]].chars[1].ascii => out[wl[1]].chars[1].up
=============================================================================
