----------------------------- MODULE TitleCaseOps -----------------------------
(* Title casing (harper-core/src/title_case.rs: make_title_case).  Property C18. *)
(* A character is [id, up, ascii]: letter identity, upper-case?, ASCII letter?    *)
(* (to_ascii_uppercase / to_ascii_lowercase only touch ASCII letters).  A token   *)
(* is [wl, chars, canon, cap]: word-like?, its characters, the dictionary's       *)
(* canonical capitalisation pattern when the word is a known proper noun          *)
(* ("none" | "Title" | "iOS"), and should_capitalize_token's answer (a function   *)
(* of the case-folded word, hence stable under re-casing).                        *)
(* Two deviations that seeded changes introduced are kept as switches (both FALSE is    *)
(* the code as it is):                                                                   *)
(*  AllCapsRule   - when the INPUT has an upper-case letter and no lower-case one, every  *)
(*                  capitalised word without a dictionary spelling gets the rest of its   *)
(*                  letters lower-cased.  A mixed-case input can produce an all-capitals   *)
(*                  output (tRNA -> TRNA), which the next pass then rewrites (-> Trna).    *)
(*  LatinLower    - a token flagged `latin` (a condensed abbreviation such as "vs.") is    *)
(*                  set in lower case before the position rules are looked at, also when   *)
(*                  it is the first word.                                                   *)
EXTENDS Naturals, Sequences, TLC

CONSTANTS AllCapsRule, LatinLower

Up(c) == IF c.ascii THEN [c EXCEPT !.up = TRUE] ELSE c
Low(c) == IF c.ascii THEN [c EXCEPT !.up = FALSE] ELSE c

\* dictionary's verbatim spelling of a proper noun: same letters, canonical case
Canon(pattern, chars) ==
  [i \in DOMAIN chars |->
     CASE pattern = "Title" -> [chars[i] EXCEPT !.up = (i = 1)]
       [] pattern = "iOS"   -> [chars[i] EXCEPT !.up = (i # 1)]
       [] OTHER -> chars[i]]

WordLikeIdx(toks) == SelectSeq([i \in 1..Len(toks) |-> i], LAMBDA i : toks[i].wl)

IsLatin(t) == "latin" \in DOMAIN t /\ t.latin
\* "shouting": at least one upper-case ASCII letter and no lower-case one, over the whole input
Shouting(toks) ==
  /\ \E i \in DOMAIN toks : \E j \in DOMAIN toks[i].chars : toks[i].chars[j].ascii /\ toks[i].chars[j].up
  /\ ~\E i \in DOMAIN toks : \E j \in DOMAIN toks[i].chars : toks[i].chars[j].ascii /\ ~toks[i].chars[j].up

\* make_title_case, token by token
TCToken(t, first, last, shouting) ==
  IF ~t.wl \/ t.chars = <<>> THEN t
  ELSE IF LatinLower /\ IsLatin(t) THEN [t EXCEPT !.chars = [i \in DOMAIN t.chars |-> Low(t.chars[i])]]
  ELSE LET c1 == IF t.canon # "none" THEN Canon(t.canon, t.chars) ELSE t.chars
           cap == t.cap \/ first \/ last
           c2 == IF cap THEN (IF AllCapsRule /\ shouting /\ t.canon = "none"
                              THEN [i \in DOMAIN c1 |-> IF i = 1 THEN Up(c1[i]) ELSE Low(c1[i])]
                              ELSE [c1 EXCEPT ![1] = Up(c1[1])])
                 ELSE [i \in DOMAIN c1 |-> Low(c1[i])]
       IN [t EXCEPT !.chars = c2]

TC(toks) ==
  LET wl == WordLikeIdx(toks) sh == Shouting(toks) IN
  [i \in DOMAIN toks |->
     IF toks[i].wl THEN TCToken(toks[i], wl # <<>> /\ wl[1] = i, wl # <<>> /\ wl[Len(wl)] = i, sh)
     ELSE toks[i]]

RECURSIVE Flat(_)
Flat(toks) == IF toks = <<>> THEN <<>> ELSE Head(toks).chars \o Flat(Tail(toks))

\* Property level, on flattened character sequences
SameLength(a, b) == Len(a) = Len(b)
CaseOnlyDiff(a, b) == Len(a) = Len(b) /\ \A i \in DOMAIN a : a[i].id = b[i].id /\ a[i].ascii = b[i].ascii
FirstWordCapital(toks, out) ==
  LET wl == WordLikeIdx(toks) IN
  wl # <<>> /\ toks[wl[1]].chars # <<>> /\ toks[wl[1]].chars[1].ascii => out[wl[1]].chars[1].up
=============================================================================
