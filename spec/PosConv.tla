------------------------------- MODULE PosConv -------------------------------
EXTENDS PosConvOps, SpansOps
CONSTANTS MaxLen, LastLineFix
VARIABLES t
Classes == {"NL", "CR", "b", "a"}
PCInit == t = <<>>
PCNext == Len(t) < MaxLen /\ \E c \in Classes : t' = Append(t, c)

\* every index that can bound a lint (the slot after a final line feed holds no text and is
\* deliberately resolved onto the previous line, see the end_of_line / issue_250 tests)
RoundTrip == WellFormedText(t) => \A i \in 0..Len(t) :
   (i = Len(t) /\ t # <<>> /\ t[Len(t)] = "NL") \/ PosToIndex(t, IndexToPos(t, i), LastLineFix) = i
\* spans that do not contain a line feed (lints are inside a line)
LineSpans == {sp \in (0..Len(t)) \X (0..Len(t)) : sp[1] < sp[2] /\ \A k \in (sp[1] + 1)..sp[2] : t[k] \notin {"NL", "CR"}}
RangeCovers == WellFormedText(t) => \A sp \in LineSpans :
   RangeToSpan(t, SpanToRange(t, sp[1], sp[2]), LastLineFix) = sp
LookupInside == WellFormedText(t) => \A sp \in LineSpans : \A i \in sp[1]..(sp[2] - 1) :
   LookupHits(t, sp[1], sp[2], i, LastLineFix)
\* the three edit constructions of lint_to_code_actions, applied the way a client does
EditEqualsSuggestion == WellFormedText(t) => \A sp \in LineSpans :
   LET r == SpanToRange(t, sp[1], sp[2]) flagged == SubSeq(t, sp[1] + 1, sp[2]) new == <<"x", "y">> IN
   /\ ClientApply(t, r, new) = Apply("ReplaceWith", new, sp[1], sp[2], t)
   /\ ClientApply(t, r, <<>>) = Apply("Remove", <<>>, sp[1], sp[2], t)
   /\ ClientApply(t, r, flagged \o new) = Apply("InsertAfter", new, sp[1], sp[2], t)
=============================================================================
