--------------------------------- MODULE Spell ---------------------------------
(* Spell checking (harper-core/src/linting/spell_check.rs over the dictionaries of *)
(* DictOps).  Property C06.  A dictionary is a list of entries [w, d]: spelling and  *)
(* dialect tag ("none" = every dialect); the word map keeps one entry per Id.        *)
(* The applications check against a MERGED dictionary: the curated part first, the     *)
(* user's words second (`cut` entries belong to the first part).  Metadata comes from   *)
(* the first part that knows the word's Id; a spelling is exact if ANY part lists it.   *)
(* FirstPartCanon = TRUE is a deviation a seeded change introduced: the exact test is   *)
(* made only against the part that supplied the metadata, so a user word that is        *)
(* another capitalisation of a curated entry is reported.                               *)
EXTENDS DictOps

CONSTANTS Chars, MaxWord, MaxDict, FirstPartCanon
Dialects == {"US", "UK"}
Tags == {"none", "US", "UK"}

VARIABLES es, phase, cut
spvars == <<es, phase, cut>>

Words == UNION {[1..n -> Chars] : n \in 1..MaxWord}
WordsOf(entries) == [i \in DOMAIN entries |-> entries[i].w]
\* metadata (here: the dialect tag) of the entry that survives for an Id
RECURSIVE TagMap(_)
TagMap(entries) == IF entries = <<>> THEN <<>>
  ELSE LET m == TagMap(SubSeq(entries, 1, Len(entries) - 1)) e == entries[Len(entries)] IN
       [k \in (DOMAIN m) \cup {Id(e.w)} |-> IF k = Id(e.w) THEN e.d ELSE m[k]]
DialectOk(tag, active) == tag = "none" \/ tag = active

\* SpellCheck::lint's acceptance test for one word token
Accept(entries, w, active) ==
  /\ Id(w) \in DOMAIN TagMap(entries)                       \* the token carries metadata
  /\ DialectOk(TagMap(entries)[Id(w)], active)
  /\ (MutExact(WordsOf(entries), w) \/ MutExact(WordsOf(entries), Lower(w)))

IsLowerWord(w) == Lower(w) = w
Capitalised(w) == [i \in DOMAIN w |-> IF i = 1 THEN (CASE w[1] = "a" -> "A" [] w[1] = "b" -> "B" [] OTHER -> w[1]) ELSE w[i]]
Upper(w) == [i \in DOMAIN w |-> CASE w[i] = "a" -> "A" [] w[i] = "b" -> "B" [] OTHER -> w[i]]

SInit == es = <<>> /\ phase = "build" /\ cut = 0
AddEntry == phase = "build" /\ Len(es) < MaxDict /\ \E w \in Words, d \in Tags : es' = Append(es, [w |-> w, d |-> d]) /\ UNCHANGED <<phase, cut>>
Freeze == phase = "build" /\ phase' = "query" /\ cut' \in 0..Len(es) /\ UNCHANGED es

\* the merged dictionary
Part1 == SubSeq(es, 1, cut)
Part2 == SubSeq(es, cut + 1, Len(es))
KnownIn(p, w) == Id(w) \in DOMAIN TagMap(p)
MetaPart(w) == IF KnownIn(Part1, w) THEN Part1 ELSE Part2
ExactIn(p, w) == MutExact(WordsOf(p), w)
AcceptMerged(w, active) ==
  /\ KnownIn(Part1, w) \/ KnownIn(Part2, w)
  /\ DialectOk(TagMap(MetaPart(w))[Id(w)], active)
  /\ IF FirstPartCanon THEN ExactIn(MetaPart(w), w) \/ ExactIn(MetaPart(w), Lower(w))
     ELSE \E p \in {Part1, Part2} : ExactIn(p, w) \/ ExactIn(p, Lower(w))
NoClashIn(p) == \A i, j \in DOMAIN p : i # j => Id(p[i].w) # Id(p[j].w)
SNext == AddEntry \/ Freeze

\* one entry per Id (a later entry with the same Id replaces the earlier one: named deviation,
\* see the known finding on case-variant entries)
NoClash == \A i, j \in DOMAIN es : i # j => Id(es[i].w) # Id(es[j].w)
\* a listed word, in its listed capitalisation and in the active dialect, is never reported
ListedAccepted == phase = "query" /\ NoClash => \A i \in DOMAIN es : \A a \in Dialects :
   DialectOk(es[i].d, a) => Accept(es, es[i].w, a)
\* nor are the Capitalised / UPPER-CASE forms of a lower-case entry
CasedFormsAccepted == phase = "query" /\ NoClash => \A i \in DOMAIN es : \A a \in Dialects :
   (IsLowerWord(es[i].w) /\ DialectOk(es[i].d, a)) => (Accept(es, Capitalised(es[i].w), a) /\ Accept(es, Upper(es[i].w), a))
\* (known finding C06-user-word-of-another-dialect: the dialect premise below is the code's - the FIRST part's tag
\* decides - so a user word that the curated part lists for another dialect is outside what is promised here)
\* the same for the merged dictionary: whichever part lists the spelling (a user word may be another
\* capitalisation of a curated entry); the dialect is that of the part that supplies the metadata
MergedListedAccepted == phase = "query" /\ NoClashIn(Part1) /\ NoClashIn(Part2) => \A i \in DOMAIN es : \A a \in Dialects :
   DialectOk(TagMap(MetaPart(es[i].w))[Id(es[i].w)], a) => AcceptMerged(es[i].w, a)
MergedUnknownFlagged == phase = "query" => \A w \in Words : \A a \in Dialects :
   (~\E i \in DOMAIN es : Id(es[i].w) = Id(w)) => ~AcceptMerged(w, a)
\* a word the dictionary does not contain under any capitalisation is reported
UnknownFlagged == phase = "query" => \A w \in Words : \A a \in Dialects :
   (~\E i \in DOMAIN es : Id(es[i].w) = Id(w)) => ~Accept(es, w, a)
\* a word of another dialect only is reported
OtherDialectFlagged == phase = "query" /\ NoClash => \A i \in DOMAIN es : \A a \in Dialects :
   ~DialectOk(es[i].d, a) => ~Accept(es, es[i].w, a)
=============================================================================
