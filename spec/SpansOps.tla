------------------------------ MODULE SpansOps ------------------------------
(* Spans and suggestion application (harper-core/src/span.rs,                 *)
(* linting/suggestion.rs).  Property C03 (also used by C08, C16).             *)
(* A text is a sequence of characters (any values); a span is [s, e) in        *)
(* 0-based character offsets, so it denotes text[s+1 .. e].                    *)
EXTENDS Naturals, Integers, Sequences, TLC

SpanOk(s, e, len) == 0 <= s /\ s <= e /\ e <= len

Prefix(t, n) == SubSeq(t, 1, n)
Suffix(t, n) == SubSeq(t, n + 1, Len(t))     \* everything after the first n chars

\* Property level: the meaning of the three suggestion kinds
Apply(kind, repl, s, e, t) ==
  CASE kind = "ReplaceWith" -> Prefix(t, s) \o repl \o Suffix(t, e)
    [] kind = "InsertAfter" -> Prefix(t, e) \o repl \o Suffix(t, e)
    [] kind = "Remove"      -> Prefix(t, s) \o Suffix(t, e)

\* "changes the text only at that span", stated independently of Apply
LocalEdit(kind, repl, s, e, before, after) ==
  LET n == Len(before)
      m == Len(after)
      ins == IF kind = "Remove" THEN <<>> ELSE repl
      cut == IF kind = "InsertAfter" THEN 0 ELSE e - s       \* characters deleted
      at  == IF kind = "InsertAfter" THEN e ELSE s           \* where the edit starts
  IN /\ m = n - cut + Len(ins)
     /\ \A k \in 1..at : after[k] = before[k]
     /\ \A k \in 1..Len(ins) : after[at + k] = ins[k]
     /\ \A k \in 1..(n - at - cut) : after[at + Len(ins) + k] = before[at + cut + k]

Overlap(a, b) == a.s < b.e /\ b.s < a.e
=============================================================================
