-------------------------------- MODULE Config --------------------------------
(* Bounded exploration for the configuration clauses of C11: all configurations   *)
(* over a few keys (two known rules with curated defaults, one unknown name),      *)
(* all operation sequences up to a bound.                                           *)
EXTENDS ConfigOps

CONSTANTS Keys, Known, MaxOps

VARIABLES cfg, other, nops
cvars == <<cfg, other, nops>>

Curated == [k \in Known |-> IF k = "r1" THEN "On" ELSE "Off"]
AllCfgs == UNION {[S -> Vals] : S \in SUBSET Keys}

CInit == cfg \in AllCfgs /\ other \in AllCfgs /\ nops = 0
Op(c2, o2) == nops < MaxOps /\ cfg' = c2 /\ other' = o2 /\ nops' = nops + 1
CNext ==
  \/ \E k \in Keys, on \in BOOLEAN : Op(SetRule(cfg, k, on), other)
  \/ \E k \in Keys : Op(Unset(cfg, k), other)
  \/ \E k \in Keys, on \in BOOLEAN : Op(SetIfUnset(cfg, k, on), other)
  \/ Op(Clear(cfg), other)
  \/ Op(MergeFrom(cfg, other), Clear(other))
  \/ Op(FillWithCurated(cfg, Curated), other)
  \/ Op(CfgFromJson(CfgToJson(cfg)), other)

\* state invariants (each quantifies over the possible next operation)
DisabledMeansOffOrUnset == \A k \in Keys : Enabled(cfg, k) <=> Meaning(cfg, k) = "On"
OverlayGivesDefaultsWhereUnset == OverlayOk(cfg, Curated, FillWithCurated(cfg, Curated))
ExplicitWinsInMerge == MergeOk(cfg, other, MergeFrom(cfg, other))
UnknownKeysHarmless ==
  \A k \in Keys \ Known : \A v \in Vals :
     \A r \in Known : Enabled(FillWithCurated(Put(cfg, k, v), Curated), r) = Enabled(FillWithCurated(cfg, Curated), r)
ClearKeepsKeysDropsValues == DOMAIN Clear(cfg) = DOMAIN cfg /\ \A k \in Keys : ~Enabled(Clear(cfg), k)
JsonRoundTrip == CfgFromJson(CfgToJson(cfg)) = cfg
MergeOrderIrrelevantForDisjoint ==
  \* overlaying two user configurations that mention different rules commutes
  (\A k \in Keys : Meaning(cfg, k) = "None" \/ Meaning(other, k) = "None") =>
     \A k \in Keys : Meaning(MergeFrom(MergeFrom(<<>>, cfg), other), k) = Meaning(MergeFrom(MergeFrom(<<>>, other), cfg), k)
=============================================================================
