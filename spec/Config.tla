-------------------------------- MODULE Config --------------------------------
(* Bounded exploration for the configuration clauses of C11: all configurations   *)
(* over a few keys (two known rules with curated defaults, one unknown name),      *)
(* all operation sequences up to a bound.                                           *)
EXTENDS ConfigOps

CONSTANTS Keys, Known, MaxOps,
          Varies,              \* {<<rule, dialect>>}: rules whose curated default is flipped for that dialect ({}: the code as is)
          TableFollowsDialect  \* the table an overlay fills from is the one of the group's own dialect

VARIABLES cfg, other, nops
cvars == <<cfg, other, nops>>

Curated == [k \in Known |-> IF k = "r1" THEN "On" ELSE "Off"]
\* The curated defaults live in two places: inside the curated group built for a dialect
\* (LintGroup::new_curated(dict, dialect).config) and in the table an overlay fills from
\* (LintGroupConfig::new_curated / fill_with_curated: built once, for the American dialect).
Dialects == {"American", "British"}
Flip(v) == IF v = "On" THEN "Off" ELSE "On"
GroupDefaults(d) == [k \in Known |-> IF <<k, d>> \in Varies THEN Flip(Curated[k]) ELSE Curated[k]]
TableFor(d) == IF TableFollowsDialect THEN GroupDefaults(d) ELSE GroupDefaults("American")
AllCfgs == UNION {[S -> Vals] : S \in SUBSET Keys}

CInit == cfg \in AllCfgs /\ other \in AllCfgs /\ nops = 0
Op(c2, o2) == nops < MaxOps /\ cfg' = c2 /\ other' = o2 /\ nops' = nops + 1
CNext ==
  \/ \E k \in Keys, on \in BOOLEAN : Op(SetRule(cfg, k, on), other)
  \/ \E k \in Keys : Op(Unset(cfg, k), other)
  \/ \E k \in Keys, on \in BOOLEAN : Op(SetIfUnset(cfg, k, on), other)
  \/ Op(Clear(cfg), other)
  \/ Op(MergeFrom(cfg, other), Clear(other))
  \/ Op(FillWithCurated(cfg, Curated), other)
  \/ Op(CfgFromJson(CfgToJson(cfg)), other)

\* state invariants (each quantifies over the possible next operation)
DisabledMeansOffOrUnset == \A k \in Keys : Enabled(cfg, k) <=> Meaning(cfg, k) = "On"
OverlayGivesDefaultsWhereUnset == OverlayOk(cfg, Curated, FillWithCurated(cfg, Curated))
\* "rules the user has not mentioned take their curated defaults": the defaults of the group being configured
OverlayMatchesGroup == \A d \in Dialects : \A k \in Known :
   Meaning(cfg, k) = "None" => (Enabled(FillWithCurated(cfg, TableFor(d)), k) <=> GroupDefaults(d)[k] = "On")
ExplicitWinsInMerge == MergeOk(cfg, other, MergeFrom(cfg, other))
UnknownKeysHarmless ==
  \A k \in Keys \ Known : \A v \in Vals :
     \A r \in Known : Enabled(FillWithCurated(Put(cfg, k, v), Curated), r) = Enabled(FillWithCurated(cfg, Curated), r)
ClearKeepsKeysDropsValues == DOMAIN Clear(cfg) = DOMAIN cfg /\ \A k \in Keys : ~Enabled(Clear(cfg), k)
JsonRoundTrip == CfgFromJson(CfgToJson(cfg)) = cfg
MergeOrderIrrelevantForDisjoint ==
  \* overlaying two user configurations that mention different rules commutes
  (\A k \in Keys : Meaning(cfg, k) = "None" \/ Meaning(other, k) = "None") =>
     \A k \in Keys : Meaning(MergeFrom(MergeFrom(<<>>, cfg), other), k) = Meaning(MergeFrom(MergeFrom(<<>>, other), cfg), k)
=============================================================================
