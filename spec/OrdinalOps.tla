------------------------------ MODULE OrdinalOps ------------------------------
(* Ordinal suffixes (harper-core/src/number.rs: correct_suffix_for,             *)
(* linting/correct_number_suffix.rs) together with the part of the lexer and     *)
(* condensing pipeline that decides whether "<digits><suffix>" becomes a Number  *)
(* token carrying that suffix (lexing/mod.rs precedence: plural digit, hex,      *)
(* long decade, number; document.rs: condense_number_suffixes).  Property C17.   *)
(* A number is its decimal digit sequence, so the rule is stated for any length. *)
EXTENDS Naturals, Sequences

Suffixes == {"st", "nd", "rd", "th"}

Last(d) == d[Len(d)]
\* value of the last two digits (= n mod 100)
Last2(d) == IF Len(d) = 1 THEN d[1] ELSE 10 * d[Len(d) - 1] + d[Len(d)]

\* Property level: the English rule
EnglishSuffix(d) ==
  IF Last2(d) \in 11..13 THEN "th"
  ELSE CASE Last(d) = 1 -> "st" [] Last(d) = 2 -> "nd" [] Last(d) = 3 -> "rd" [] OTHER -> "th"

\* Algorithm level: NumberSuffix::correct_suffix_for on `integer % 100`, `integer % 10`
CodeSuffix(d) ==
  LET m100 == Last2(d) m10 == Last(d) IN
  IF m100 >= 11 /\ m100 <= 13 THEN "th"
  ELSE CASE m10 = 0 -> "th" [] m10 = 1 -> "st" [] m10 = 2 -> "nd" [] m10 = 3 -> "rd" [] OTHER -> "th"

\* lex_long_decade: [12] d d 0 followed by a lower-case 's' is a Decade token (5 chars).
\* decadeChecksNext = TRUE: the repaired lexer refuses when an alphanumeric follows the s.
LexedAsDecade(d, sfx, firstLower, decadeChecksNext) ==
  /\ Len(d) = 4 /\ d[1] \in {1, 2} /\ d[4] = 0
  /\ sfx = "st" /\ firstLower
  /\ ~decadeChecksNext

\* Does the pipeline produce Number(value, Some(suffix)) for "<d><sfx>" standing alone
\* as a word?  (lex_plural_digit needs a non-alphanumeric after the s, so it never
\* fires on a two-letter suffix; hex needs an x.)
BecomesSuffixedNumber(d, sfx, firstLower, decadeChecksNext) ==
  ~LexedAsDecade(d, sfx, firstLower, decadeChecksNext)

\* What the rule reports: <<flagged, suggestion>>
RuleVerdict(d, sfx, firstLower, decadeChecksNext) ==
  IF BecomesSuffixedNumber(d, sfx, firstLower, decadeChecksNext) /\ sfx # CodeSuffix(d)
  THEN <<TRUE, CodeSuffix(d)>> ELSE <<FALSE, "">>

\* What C17 demands
PropertyVerdict(d, sfx) == IF sfx # EnglishSuffix(d) THEN <<TRUE, EnglishSuffix(d)>> ELSE <<FALSE, "">>
=============================================================================
