------------------------------ MODULE EffectsOps ------------------------------
(* Side effects of a Harper process (harper-ls/src/main.rs, backend.rs,            *)
(* dictionary_io.rs; the library and the JS-facing API have none).  Property C10.   *)
(* The alphabet of effects a process may perform, as a function of its mode:         *)
(*   "stdio"  - the language server on standard input/output                          *)
(*   "tcp"    - the language server on its loopback listener (127.0.0.1:4000)         *)
(*   "lib"    - a process that only parses and lints                                   *)
(* An effect is a record describing one system call as traced by strace.              *)
EXTENDS Naturals, Sequences, TLC

\* A path is classified by the trace producer against the configured locations:
\*   "userDict" | "stats" | "fileDict" (a file directly under the file-dictionary directory)
\*   "ancestor" (the directory holding one of those, or one of its ancestors) | "fileDictDir" | "other"
WriteClasses == {"userDict", "stats", "fileDict"}
MkdirClasses == {"ancestor", "fileDictDir"}

EffectOk(mode, e) ==
  CASE e.call \in {"socket"} -> /\ mode = "tcp" /\ e.family \in {"AF_INET"} /\ e.kind = "SOCK_STREAM"
    [] e.call \in {"bind"} -> mode = "tcp" /\ e.addr = "127.0.0.1" /\ e.port = 4000
    [] e.call \in {"listen", "accept", "accept4", "getsockname", "getpeername", "setsockopt", "getsockopt", "shutdown"} -> mode = "tcp"
    \* data on the editor's connection (the accepted loopback socket) - never a datagram to an address
    [] e.call \in {"recvfrom", "sendto", "recvmsg", "sendmsg"} -> mode = "tcp" /\ e.addr = ""
    [] e.call \in {"connect"} -> FALSE
    [] e.call = "open_write" -> mode \in {"stdio", "tcp"} /\ e.pclass \in WriteClasses
    [] e.call = "mkdir" -> mode \in {"stdio", "tcp"} /\ e.pclass \in MkdirClasses
    [] e.call \in {"rename", "unlink", "link", "symlink", "truncate"} -> FALSE
    [] OTHER -> FALSE

\* packages that must not be in the resolved dependency set of the shipped crates
ForbiddenDeps == {"reqwest", "hyper", "hyper-util", "hyper-tls", "hyper-rustls", "ureq", "curl", "curl-sys", "isahc", "surf",
                  "attohttpc", "minreq", "native-tls", "rustls", "openssl", "openssl-sys", "tungstenite", "tokio-tungstenite",
                  "h2", "h3", "quinn", "trust-dns-resolver", "trust-dns-proto", "hickory-resolver", "hickory-proto",
                  "dns-lookup", "async-std", "awc", "actix-web", "axum", "warp", "tonic", "lettre", "ssh2", "libssh2-sys",
                  "web-sys-fetch", "gloo-net", "wasm-bindgen-futures-fetch"}

=============================================================================
