------------------------------- MODULE DictOps -------------------------------
(* Dictionaries (harper-core/src/spell/*.rs, edit_distance.rs, char_string.rs).   *)
(* Property C15 (also used by C06, C07).  A word is a sequence of characters; the  *)
(* model alphabet is {"a","b","A","B"} (letters with case), "q" (straight          *)
(* apostrophe) and "Q" (curly apostrophe, normalised to "q").                      *)
EXTENDS Naturals, Integers, Sequences, FiniteSets, TLC

LowerC(c) == CASE c = "A" -> "a" [] c = "B" -> "b" [] OTHER -> c
NormC(c) == IF c = "Q" THEN "q" ELSE c
Lower(w) == [i \in DOMAIN w |-> LowerC(w[i])]
Norm(w) == [i \in DOMAIN w |-> NormC(w[i])]
\* WordId::from_word_chars: hash of the normalised, lower-cased characters
Id(w) == Lower(Norm(w))
IsLowerCase(w) == Lower(w) = w

\* Levenshtein distance, the textbook recursion (property level)
RECURSIVE Lev(_, _)
Lev(a, b) ==
  IF a = <<>> THEN Len(b) ELSE IF b = <<>> THEN Len(a)
  ELSE LET x == Lev(Tail(a), b) + 1
           y == Lev(a, Tail(b)) + 1
           z == Lev(Tail(a), Tail(b)) + (IF Head(a) = Head(b) THEN 0 ELSE 1)
       IN IF x <= y /\ x <= z THEN x ELSE IF y <= z THEN y ELSE z

\* Wagner-Fischer with two rows, as in edit_distance_min_alloc (algorithm level)
Min3(x, y, z) == IF x <= y /\ x <= z THEN x ELSE IF y <= z THEN y ELSE z
RECURSIVE WFRows(_, _, _, _)
WFRows(src, tgt, j, prev) ==      \* prev: row j-1 as a function 0..Len(src)
  IF j > Len(tgt) THEN prev[Len(src)]
  ELSE LET cur[i \in 0..Len(src)] ==
             IF i = 0 THEN j
             ELSE Min3(prev[i] + 1, cur[i - 1] + 1,
                       prev[i - 1] + (IF src[i] = tgt[j] THEN 0 ELSE 1))
       IN WFRows(src, tgt, j + 1, cur)
WagnerFischer(src, tgt) == WFRows(src, tgt, 1, [i \in 0..Len(src) |-> i])

\* row-by-row form on concrete sequences, for long strings (trace validation): TLC does
\* not memoise recursive function definitions, so rows are built as tuples
RECURSIVE BuildRow(_, _, _, _, _)
BuildRow(prev, src, ch, j, acc) ==     \* acc = cur[0..k-1] as a tuple; prev = row j-1 (tuple, 1-based)
  LET k == Len(acc) IN
  IF k > Len(src) THEN acc
  ELSE BuildRow(prev, src, ch, j,
                Append(acc, IF k = 0 THEN j
                            ELSE Min3(prev[k + 1] + 1, acc[k] + 1, prev[k] + (IF src[k] = ch THEN 0 ELSE 1))))
RECURSIVE LevRows(_, _, _, _)
LevRows(src, tgt, j, prev) ==
  IF j > Len(tgt) THEN prev[Len(src) + 1]
  ELSE LevRows(src, tgt, j + 1, BuildRow(prev, src, tgt[j], j, <<>>))
LevDP(a, b) == LevRows(a, b, 1, [i \in 1..(Len(a) + 1) |-> i - 1])

------------------------------------------------------------------------------
(* WordMap: keyed by Id; inserting a word whose Id is present replaces the entry *)
\* a dictionary under construction is the list of words in insertion order
RECURSIVE MapOf(_)
MapOf(ws) ==      \* function Id -> canonical spelling, last insertion wins
  IF ws = <<>> THEN <<>>   \* empty function
  ELSE LET m == MapOf(SubSeq(ws, 1, Len(ws) - 1))
           w == ws[Len(ws)]
       IN [k \in (DOMAIN m) \cup {Id(w)} |-> IF k = Id(w) THEN w ELSE m[k]]

\* MutableDictionary
MutContains(ws, q) == Id(q) \in DOMAIN MapOf(ws)
\* (both sides normalised since 6e44128: the stored spelling may itself hold a typographic apostrophe; before that repair the normalised query was
\* compared with the spelling as stored, so a word added with a typographic apostrophe could never be found)
MutExact(ws, q) == Id(q) \in DOMAIN MapOf(ws) /\ Norm(MapOf(ws)[Id(q)]) = Norm(q)
MutCanon(ws, q) == IF Id(q) \in DOMAIN MapOf(ws) THEN MapOf(ws)[Id(q)] ELSE <<>>
MutWords(ws) == {MapOf(ws)[k] : k \in DOMAIN MapOf(ws)}

\* FstDictionary::new: sort by spelling, dedup, then a MutableDictionary built in that
\* order answers all exact queries.  Order of characters as in Unicode:
\*   ' (39) < A < B < a < b < curly apostrophe
Rank(c) == CASE c = "q" -> 1 [] c = "A" -> 2 [] c = "B" -> 3 [] c = "a" -> 4 [] c = "b" -> 5 [] c = "Q" -> 6
RECURSIVE LexLess(_, _)
LexLess(x, y) == IF x = <<>> THEN y # <<>> ELSE IF y = <<>> THEN FALSE
                 ELSE IF Rank(Head(x)) # Rank(Head(y)) THEN Rank(Head(x)) < Rank(Head(y))
                 ELSE LexLess(Tail(x), Tail(y))
SetToSortedSeq(S) == SortSeq(CHOOSE s \in [1..Cardinality(S) -> S] : \A i, j \in 1..Cardinality(S) : i # j => s[i] # s[j],
                             LexLess)
FstList(ws) == SetToSortedSeq({ws[i] : i \in DOMAIN ws})
FstContains(ws, q) == MutContains(FstList(ws), q)
FstExact(ws, q) == MutExact(FstList(ws), q)
FstCanon(ws, q) == MutCanon(FstList(ws), q)

\* MergedDictionary over children c1, c2 (each a word list): first child that answers wins
MergedContains(c1, c2, q) == MutContains(c1, q) \/ MutContains(c2, q)
MergedExact(c1, c2, q) == MutExact(c1, q) \/ MutExact(c2, q)
MergedCanon(c1, c2, q) == IF MutContains(c1, q) THEN MutCanon(c1, q) ELSE MutCanon(c2, q)

\* two entries that differ only in capitalisation / apostrophe style share an Id
HasIdClash(ws) == \E i, j \in DOMAIN ws : ws[i] # ws[j] /\ Id(ws[i]) = Id(ws[j])

------------------------------------------------------------------------------
(* Fuzzy search, property level.  res: sequence of [w, d].                        *)
QDist(q, w) == LET nq == Norm(q) a == LevDP(nq, w) b == LevDP(Lower(nq), w) IN IF a <= b THEN a ELSE b
FuzzySound(words, q, bound, cap, res) ==
  /\ Len(res) <= cap
  /\ \A i \in DOMAIN res :
       /\ res[i].w \in words
       /\ (res[i].d = LevDP(Norm(q), res[i].w) \/ res[i].d = LevDP(Lower(Norm(q)), res[i].w))
       /\ res[i].d <= bound
  /\ \A i \in 1..(Len(res) - 1) : res[i].d <= res[i + 1].d
\* for lower-case queries nothing within the bound is missed (when the cap allows)
FuzzyComplete(words, q, bound, cap, res) ==
  LET got == {res[i].w : i \in DOMAIN res}
      near == {w \in words : w # <<>> /\ QDist(q, w) <= bound}
      worst == IF res = <<>> THEN 0 ELSE res[Len(res)].d
  IN IsLowerCase(Norm(q)) =>
       IF Len(res) < cap THEN near \subseteq got
       ELSE \A w \in near \ got : QDist(q, w) >= worst
FuzzyReason(words, q, bound, cap, res) ==
  IF Len(res) > cap THEN "more-results-than-cap"
  ELSE IF \E i \in DOMAIN res : res[i].w \notin words THEN "result-not-a-dictionary-word"
  ELSE IF \E i \in DOMAIN res : ~(res[i].d = LevDP(Norm(q), res[i].w) \/ res[i].d = LevDP(Lower(Norm(q)), res[i].w))
       THEN "reported-distance-is-not-levenshtein"
  ELSE IF \E i \in DOMAIN res : res[i].d > bound THEN "distance-exceeds-bound"
  ELSE IF \E i \in 1..(Len(res) - 1) : res[i].d > res[i + 1].d THEN "not-sorted-by-distance"
  ELSE IF ~FuzzyComplete(words, q, bound, cap, res) THEN "missed-a-near-word"
  ELSE "ok"

\* MutableDictionary::fuzzy_match as a set computation (order among ties unspecified)
MutFuzzySet(ws, q, bound) ==
  LET nq == Norm(q)
      lo == IF Len(nq) <= bound THEN 1 ELSE Len(nq) - bound
      hi == Len(nq) + bound
  IN {w \in MutWords(ws) : Len(w) >= lo /\ Len(w) <= hi /\ QDist(q, w) <= bound}
=============================================================================
