---------------------------- MODULE OverlapsOps ----------------------------
(* Overlap removal (harper-core/src/lib.rs: remove_overlaps, vec_ext.rs:      *)
(* remove_indices).  Property C13.                                             *)
(* A lint is abstracted as a record with at least [id, s, e]: identity and     *)
(* character span [s, e).                                                      *)
EXTENDS Naturals, Integers, Sequences, FiniteSets, TLC

Max(a, b) == IF a > b THEN a ELSE b
Min(a, b) == IF a < b THEN a ELSE b

-----------------------------------------------------------------------------
(* Property level: what C13 allows, independent of the algorithm.             *)

CommonChar(a, b) == Max(a.s, b.s) < Min(a.e, b.e)
IdsOf(seq) == {seq[i].id : i \in DOMAIN seq}

\* nothing invented, nothing altered, nothing duplicated
SubList(in, out) ==
  /\ \A i, j \in DOMAIN out : i # j => out[i].id # out[j].id
  /\ \A i \in DOMAIN out : \E j \in DOMAIN in : in[j] = out[i]

ConflictFree(out) ==
  \A i, j \in DOMAIN out : i # j => ~CommonChar(out[i], out[j])

\* every dropped lint starts inside (or at the start of) a kept one
DroppedInsideKept(in, out) ==
  \A j \in DOMAIN in : in[j].id \notin IdsOf(out) =>
     \E i \in DOMAIN out :
        /\ out[i].s <= in[j].s
        /\ (in[j].s < out[i].e \/ in[j].s = out[i].s)

\* the stated consequence: the kept edits can be applied back to front; each
\* edit only touches text at or after its start, so every remaining lint must
\* end at or before it.
NonInterfering(out) ==
  \A i, j \in DOMAIN out : i # j => (out[i].e <= out[j].s \/ out[j].e <= out[i].s)

Post(in, out) ==
  /\ SubList(in, out)
  /\ ConflictFree(out)
  /\ DroppedInsideKept(in, out)
  /\ NonInterfering(out)

\* which clause fails (for diagnostics in trace validation)
PostReason(in, out) ==
  IF ~SubList(in, out) THEN "not-a-sublist"
  ELSE IF ~ConflictFree(out) THEN "kept-lints-share-a-character"
  ELSE IF ~DroppedInsideKept(in, out) THEN "dropped-lint-not-inside-kept"
  ELSE IF ~NonInterfering(out) THEN "kept-edits-interfere"
  ELSE "ok"

-----------------------------------------------------------------------------
(* Algorithm level: sort_by_key (stable) on (start, !0 - end), sweep with a   *)
(* running end `cur`, then remove_indices (Vec::retain with a cursor into the *)
(* sorted index queue).                                                        *)

KeyLess(a, b) == a.s < b.s \/ (a.s = b.s /\ a.e > b.e)
KeyEq(a, b) == a.s = b.s /\ a.e = b.e

\* stable sort: ties keep their original relative order
StableSort(in) ==
  LET idx == [i \in 1..Len(in) |-> i]
      srt == SortSeq(idx, LAMBDA x, y : KeyLess(in[x], in[y]) \/ (KeyEq(in[x], in[y]) /\ x < y))
  IN [i \in 1..Len(in) |-> in[srt[i]]]

\* closed form of the algorithm (used by trace validation to predict the result)
RECURSIVE SweepKept(_, _, _)
SweepKept(a, k, c) ==
  IF k > Len(a) THEN <<>>
  ELSE IF a[k].s < c THEN SweepKept(a, k + 1, c)
  ELSE <<a[k]>> \o SweepKept(a, k + 1, a[k].e)

ModelResult(in) == IF Len(in) < 2 THEN in ELSE SweepKept(StableSort(in), 1, 0)
=============================================================================
