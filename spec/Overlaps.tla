----------------------------- MODULE Overlaps -----------------------------
(* Step-by-step model of harper_core::remove_overlaps + Vec::remove_indices   *)
(* (one action per loop turn).  Operators and the property-level definitions  *)
(* live in OverlapsOps.                                                        *)
(* CursorOnDropped = TRUE is a deviation seeded changes introduced twice (a sweep    *)
(* rewritten as one `retain` pass that moves the running end for dropped lints too):  *)
(* a lint nested in a kept one pulls the end back and a later nested lint is kept.    *)
EXTENDS OverlapsOps

CONSTANT CursorOnDropped

VARIABLES input, arr, i, cur, rm, pc, out, ri, nextRm
ovars == <<input, arr, i, cur, rm, pc, out, ri, nextRm>>

OvInit ==
  /\ input = <<>>
  /\ arr = <<>> /\ i = 1 /\ cur = 0 /\ rm = <<>> /\ out = <<>> /\ ri = 1 /\ nextRm = 0
  /\ pc = "build"

\* environment: the caller assembles an arbitrary list of lints
Build(spans, maxN) ==
  /\ pc = "build" /\ Len(input) < maxN
  /\ \E sp \in spans : input' = Append(input, [id |-> Len(input) + 1, s |-> sp.s, e |-> sp.e])
  /\ UNCHANGED <<arr, i, cur, rm, pc, out, ri, nextRm>>

Call == pc = "build" /\ pc' = "start" /\ arr' = input
        /\ UNCHANGED <<input, i, cur, rm, out, ri, nextRm>>

EarlyReturn == pc = "start" /\ Len(input) < 2
               /\ out' = input /\ pc' = "done"
               /\ UNCHANGED <<input, arr, i, cur, rm, ri, nextRm>>

Sort == pc = "start" /\ Len(input) >= 2
        /\ arr' = StableSort(input) /\ pc' = "sweep"
        /\ UNCHANGED <<input, i, cur, rm, out, ri, nextRm>>

SweepDrop == pc = "sweep" /\ i <= Len(arr) /\ arr[i].s < cur
             /\ rm' = Append(rm, i) /\ i' = i + 1
             /\ cur' = (IF CursorOnDropped THEN arr[i].e ELSE cur)
             /\ UNCHANGED <<input, arr, pc, out, ri, nextRm>>

SweepKeep == pc = "sweep" /\ i <= Len(arr) /\ ~(arr[i].s < cur)
             /\ cur' = arr[i].e /\ i' = i + 1
             /\ UNCHANGED <<input, arr, rm, pc, out, ri, nextRm>>

SweepEnd == pc = "sweep" /\ i > Len(arr)
            /\ pc' = "retain" /\ ri' = 1
            /\ nextRm' = (IF rm = <<>> THEN 0 ELSE Head(rm))
            /\ rm' = (IF rm = <<>> THEN rm ELSE Tail(rm))
            /\ UNCHANGED <<input, arr, i, cur, out>>

\* Vec::retain closure of remove_indices: keep element ri unless ri = next_remove
RetainStep == pc = "retain" /\ ri <= Len(arr)
              /\ (IF nextRm # 0 /\ ri = nextRm
                  THEN /\ nextRm' = (IF rm = <<>> THEN 0 ELSE Head(rm))
                       /\ rm' = (IF rm = <<>> THEN rm ELSE Tail(rm))
                       /\ out' = out
                  ELSE /\ out' = Append(out, arr[ri])
                       /\ UNCHANGED <<nextRm, rm>>)
              /\ ri' = ri + 1
              /\ UNCHANGED <<input, arr, i, cur, pc>>

RetainEnd == pc = "retain" /\ ri > Len(arr)
             /\ pc' = "done"
             /\ UNCHANGED <<input, arr, i, cur, rm, out, ri, nextRm>>

OvNext == EarlyReturn \/ Sort \/ SweepDrop \/ SweepKeep \/ SweepEnd \/ RetainStep \/ RetainEnd

\* Invariants of the algorithm-level model
AlgRefinesProperty == pc = "done" => Post(input, out)
AlgMatchesClosedForm == pc = "done" => out = ModelResult(input)
=============================================================================
