------------------------------- MODULE JsLinter -------------------------------
(* The linter object exposed to JavaScript (harper-wasm/src/lib.rs: Linter).        *)
(* Property C16 (and the JS side of C07).  State: the user dictionary (words in      *)
(* insertion order; the word map keeps one spelling per case-folded Id), the word    *)
(* list the lint group was last synchronised with, and the ignore list.  Linting is  *)
(* abstracted to spell checking of texts made of a few words: that is where the      *)
(* object's own state (custom words, ignore list) shows.                             *)
(* ResyncOnChange = FALSE reproduces import_words before the repair: the lint group  *)
(* is only re-synchronised when the number of words grew.                             *)
(* The ignore list can be exported (saved), cleared and imported (import appends).    *)
(* LintMemo = TRUE is a deviation a seeded change introduced: lint() remembers its    *)
(* last answer per text and import_ignored_lints forgets to drop it.                   *)
EXTENDS DictOps

(* A text can be linted as plain text or as Markdown; the context of a lint is taken from  *)
(* the tokens of the language it was produced in (tagged here with that language).        *)
(* DocCacheByText = TRUE is a deviation a seeded change introduced: ignore_lint re-uses    *)
(* the document parsed by the last lint() call of the same text, whatever its language.   *)
CONSTANTS MaxOps, ResyncOnChange, LintMemo, DocCacheByText

Foo == <<"a", "b">>           \* a word the curated dictionary lacks
FooCap == <<"A", "b">>        \* its capitalised spelling
Bar == <<"b", "b">>           \* another unknown word
Vocab == {Foo, FooCap, Bar}
Texts == {<<Foo>>, <<FooCap>>, <<Bar>>, <<Foo, Bar>>, <<FooCap, Foo>>}

VARIABLES user, synced, ignored, saved, memo, shown, nops, hist,
          promised,   \* <<text, position>> pairs ignored as plain-text lints and not cleared since
          lastDoc     \* text and language of the most recent lint() call
jsvars == <<user, synced, ignored, saved, memo, shown, nops, hist, promised, lastDoc>>
\* the state without the history of calls (a VIEW for configurations that do not emit cases)
NoHist == <<user, synced, ignored, saved, memo, shown, nops, IF hist # <<>> THEN hist[Len(hist)].op ELSE "", promised, lastDoc>>
NoMemo == [t |-> <<>>, r |-> {}]

Accepts(ws, w) == MutContains(ws, w) /\ (MutExact(ws, w) \/ MutExact(ws, Lower(w)))
\* lint(text): positions of words the synchronised dictionary does not accept, minus ignored
Flagged(ws, t) == {i \in DOMAIN t : ~Accepts(ws, t[i])}
CtxL(t, i, lang) == <<t[i], IF i > 1 THEN t[i - 1] ELSE <<>>, IF i < Len(t) THEN t[i + 1] ELSE <<>>, lang>>
Ctx(t, i) == CtxL(t, i, "plain")
LintOf(ws, ig, t) == {i \in Flagged(ws, t) : Ctx(t, i) \notin ig}

JInit == user = <<>> /\ synced = <<>> /\ ignored = {} /\ saved = [c |-> {}, p |-> {}] /\ memo = NoMemo /\ shown = NoMemo /\ nops = 0 /\ hist = <<>>
         /\ promised = {} /\ lastDoc = [t |-> <<>>, lang |-> "plain"]
Log(op) == hist' = Append(hist, op) /\ nops' = nops + 1
\* import_words
ImportWords(ws) ==
  /\ nops < MaxOps
  /\ LET u2 == user \o ws
         grew == Cardinality(MutWords(u2)) > Cardinality(MutWords(user))
         changed == MapOf(u2) # MapOf(user)
     IN /\ user' = u2
        /\ synced' = IF (IF ResyncOnChange THEN changed ELSE grew) THEN u2 ELSE synced
  /\ memo' = NoMemo /\ UNCHANGED <<ignored, saved, shown, promised, lastDoc>> /\ Log([op |-> "import", words |-> ws])
IgnoreLint(t, i) ==
  /\ nops < MaxOps /\ i \in DOMAIN t /\ i \in LintOf(synced, ignored, t)
  /\ ignored' = ignored \cup {CtxL(t, i, IF DocCacheByText /\ lastDoc.t = t THEN lastDoc.lang ELSE "plain")}
  /\ promised' = promised \cup {<<t, i>>}
  /\ memo' = NoMemo /\ UNCHANGED <<user, synced, saved, shown, lastDoc>> /\ Log([op |-> "ignore", text |-> t, at |-> i])
\* export ignored -> clear -> import ignored
RoundTripIgnored == nops < MaxOps /\ memo' = NoMemo /\ UNCHANGED <<user, synced, ignored, saved, shown, promised, lastDoc>> /\ Log([op |-> "ignored_roundtrip"])
\* the three calls on their own, and lint() as a call whose answer is observed
\* the exported list carries the contexts and, for the invariant's sake, which lints they were promised to hide
ExportIgnored == nops < MaxOps /\ saved' = [c |-> ignored, p |-> promised] /\ UNCHANGED <<user, synced, ignored, memo, shown, promised, lastDoc>> /\ Log([op |-> "export_ignored"])
ClearIgnored == nops < MaxOps /\ ignored' = {} /\ promised' = {} /\ memo' = NoMemo /\ UNCHANGED <<user, synced, saved, shown, lastDoc>> /\ Log([op |-> "clear_ignored"])
ImportIgnored == nops < MaxOps /\ ignored' = ignored \cup saved.c /\ promised' = promised \cup saved.p /\ memo' = (IF LintMemo THEN memo ELSE NoMemo)
                 /\ UNCHANGED <<user, synced, saved, shown, lastDoc>> /\ Log([op |-> "import_ignored"])
Lint(t) == /\ nops < MaxOps
           /\ LET r == IF LintMemo /\ memo.t = t THEN memo.r ELSE LintOf(synced, ignored, t) IN
              /\ shown' = [t |-> t, r |-> r] /\ memo' = [t |-> t, r |-> r]
           /\ lastDoc' = [t |-> t, lang |-> "plain"]
           /\ UNCHANGED <<user, synced, ignored, saved, promised>> /\ Log([op |-> "lint", text |-> t])
\* the same text looked at as Markdown (its answer is not modelled: only that it was the last document parsed)
LintMd(t) == /\ nops < MaxOps /\ lastDoc' = [t |-> t, lang |-> "md"] /\ memo' = NoMemo
             /\ UNCHANGED <<user, synced, ignored, saved, shown, promised>> /\ Log([op |-> "lint_md", text |-> t])
JNext == \/ \E w \in Vocab : ImportWords(<<w>>)
         \/ \E w1, w2 \in Vocab : ImportWords(<<w1, w2>>)
         \/ \E t \in Texts, i \in 1..2 : IgnoreLint(t, i)
         \/ RoundTripIgnored \/ ExportIgnored \/ ClearIgnored \/ ImportIgnored
         \/ \E t \in Texts : Lint(t) \/ LintMd(t)

\* export_words -> new Linter -> import_words : the clone's state
ExportedWords == LET S == MutWords(user) IN CHOOSE s \in [1..Cardinality(S) -> S] : \A i, j \in DOMAIN s : i # j => s[i] # s[j]
CloneSynced == ExportedWords

\* C16: exporting then importing the custom words restores the same behaviour
CloneBehavesTheSame == \A t \in Texts : LintOf(CloneSynced, ignored, t) = LintOf(synced, ignored, t)
\* C07 (JS import call): an added word is accepted from then on
ImportedWordsAccepted == \A i \in DOMAIN user : \A t \in Texts : \A k \in DOMAIN t :
   t[k] = MutCanon(user, user[i]) => k \notin LintOf(synced, ignored, t)
\* ignoring removes that lint and nothing else (checked on the transition by the trace spec;
\* here: an ignored context is never reported)
IgnoredStayHidden == \A t \in Texts : \A i \in DOMAIN t : Ctx(t, i) \in ignored => i \notin LintOf(synced, ignored, t)
\* what lint() last answered is what the current state says about that text, as long as the state
\* has not changed since (shown is compared right after the call: the answer is never stale)
\* a lint ignored as a plain-text lint is hidden whenever the text is linted as plain text, whatever was
\* looked at in between (as long as the dictionary still flags the word and the list was not cleared)
PromisedHidden == \A pr \in promised : pr[2] \notin LintOf(synced, ignored, pr[1])
AnswerIsCurrent == (hist # <<>> /\ hist[Len(hist)].op = "lint") => shown.r = LintOf(synced, ignored, shown.t)
=============================================================================
