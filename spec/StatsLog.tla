------------------------------ MODULE StatsLog ------------------------------
(* The statistics log (harper-stats/src/lib.rs: Stats::write / Stats::read /     *)
(* summarize; harper-ls appends at shutdown, harper-wasm exports/imports).        *)
(* Property C19.  Records carry one captured string over character classes; the   *)
(* file is a sequence of classes.  Serialisation is JSON: line feed, carriage      *)
(* return, quote, backslash and control characters are escaped, everything else    *)
(* (incl. astral characters and U+2028) is written raw; each record is followed    *)
(* by one raw line feed; reading splits on raw line feeds.                         *)
EXTENDS Naturals, Sequences, TLC

\* classes of captured text
TextClasses == {"p", "n", "NL", "CR", "Q", "BS", "CT", "AS", "LS"}
\* what serde_json writes for one character
Esc(c) == CASE c = "NL" -> <<"BS", "n">>
            [] c = "CR" -> <<"BS", "r">>
            [] c = "Q"  -> <<"BS", "Q">>
            [] c = "BS" -> <<"BS", "BS">>
            [] c = "CT" -> <<"BS", "u">>
            [] OTHER    -> <<c>>
RECURSIVE EscAll(_)
EscAll(s) == IF s = <<>> THEN <<>> ELSE Esc(Head(s)) \o EscAll(Tail(s))
\* a record is [kind, ctx]; "{" k ctx "}" stands for the JSON object
Serialize(r) == <<"{", r.kind>> \o EscAll(r.ctx) \o <<"}">>

RECURSIVE Unesc(_)
Unesc(s) ==
  IF s = <<>> THEN <<>>
  ELSE IF Head(s) = "BS" /\ Len(s) >= 2
       THEN <<CASE s[2] = "n" -> "NL" [] s[2] = "r" -> "CR" [] s[2] = "Q" -> "Q"
                [] s[2] = "BS" -> "BS" [] s[2] = "u" -> "CT" [] OTHER -> "?">> \o Unesc(SubSeq(s, 3, Len(s)))
       ELSE <<Head(s)>> \o Unesc(Tail(s))
\* serde_json::from_str on one line; "bad" when the line is not one complete object
Deserialize(line) ==
  IF Len(line) >= 3 /\ line[1] = "{" /\ line[Len(line)] = "}"
  THEN [kind |-> line[2], ctx |-> Unesc(SubSeq(line, 3, Len(line) - 1))]
  ELSE [kind |-> "bad", ctx |-> <<>>]

\* BufRead::lines: split on raw NL; a final line without NL is still returned
RECURSIVE SplitLines(_, _)
SplitLines(f, cur) ==
  IF f = <<>> THEN (IF cur = <<>> THEN <<>> ELSE <<cur>>)
  ELSE IF Head(f) = "NL" THEN <<cur>> \o SplitLines(Tail(f), <<>>)
  ELSE SplitLines(Tail(f), Append(cur, Head(f)))
ReadFile(f) == LET ls == SplitLines(f, <<>>) IN [i \in DOMAIN ls |-> Deserialize(ls[i])]

\* The same reading at the grain of the reader's buffer: the file arrives in fills that end at multiples of
\* B; a line may straddle fills (its head is kept in `partial`).  blankShortcut = TRUE is a deviation a seeded
\* change introduced: a line feed that is the first byte of a fill is taken for a blank line even when
\* `partial` holds the head of a record, which is then glued to the next record.
MinOf(a, b) == IF a < b THEN a ELSE b
FirstNL(s) == IF \E i \in DOMAIN s : s[i] = "NL" THEN CHOOSE i \in DOMAIN s : s[i] = "NL" /\ \A j \in 1..i - 1 : s[j] # "NL" ELSE 0
RECURSIVE BufLines(_, _, _, _, _, _)
BufLines(f, p, partial, acc, B, blankShortcut) ==
  IF p >= Len(f) THEN (IF partial = <<>> THEN acc ELSE Append(acc, partial))
  ELSE LET lim == MinOf(Len(f), ((p \div B) + 1) * B)
           avail == SubSeq(f, p + 1, lim)
           nl == FirstNL(avail)
       IN IF nl = 0 THEN BufLines(f, lim, partial \o avail, acc, B, blankShortcut)
          ELSE IF nl = 1 /\ (blankShortcut \/ partial = <<>>) THEN BufLines(f, p + 1, partial, acc, B, blankShortcut)
          ELSE BufLines(f, p + nl, <<>>, Append(acc, partial \o SubSeq(avail, 1, nl - 1)), B, blankShortcut)
ReadFileBuffered(f, B, blankShortcut) == LET ls == BufLines(f, 0, <<>>, <<>>, B, blankShortcut) IN [i \in DOMAIN ls |-> Deserialize(ls[i])]

LintCount(log) == Len(SelectSeq(log, LAMBDA r : r.kind = "Lint"))

-----------------------------------------------------------------------------
CONSTANTS MaxCtx, MaxRecords, BufSize, BlankShortcut
VARIABLES file, log, sessions
slvars == <<file, log, sessions>>

Ctxs == UNION {[1..n -> TextClasses] : n \in 0..MaxCtx}

SLInit == file = <<>> /\ log = <<>> /\ sessions = 0
\* Stats::write of one record onto the end of the file
WriteRecord(r) == /\ Len(log) < MaxRecords
                  /\ file' = file \o Serialize(r) \o <<"NL">>
                  /\ log' = Append(log, r)
                  /\ UNCHANGED sessions
\* a new append session (server restart, second export): no effect on the file
NewSession == sessions < 2 /\ sessions' = sessions + 1 /\ UNCHANGED <<file, log>>
SLNext == (\E k \in {"Lint", "Cfg"}, c \in Ctxs : WriteRecord([kind |-> k, ctx |-> c])) \/ NewSession

ReadsBack == ReadFile(file) = log
NoRawBreakInRecord == \A i \in DOMAIN log : \A j \in DOMAIN Serialize(log[i]) : Serialize(log[i])[j] \notin {"NL", "CR"}
\* wherever the fills end
BufferedReadsBack == ReadFileBuffered(file, BufSize, BlankShortcut) = log
SummaryCountsOnce == LintCount(ReadFile(file)) = LintCount(log)
=============================================================================
