------------------------------ MODULE StatsLog ------------------------------
(* The statistics log (harper-stats/src/lib.rs: Stats::write / Stats::read /     *)
(* summarize; harper-ls appends at shutdown, harper-wasm exports/imports).        *)
(* Property C19.  Records carry one captured string over character classes; the   *)
(* file is a sequence of classes.  Serialisation is JSON: line feed, carriage      *)
(* return, quote, backslash and control characters are escaped, everything else    *)
(* (incl. astral characters and U+2028) is written raw; each record is followed    *)
(* by one raw line feed; reading splits on raw line feeds.                         *)
EXTENDS Naturals, Sequences, TLC

\* classes of captured text
TextClasses == {"p", "n", "NL", "CR", "Q", "BS", "CT", "AS", "LS"}
\* what serde_json writes for one character
Esc(c) == CASE c = "NL" -> <<"BS", "n">>
            [] c = "CR" -> <<"BS", "r">>
            [] c = "Q"  -> <<"BS", "Q">>
            [] c = "BS" -> <<"BS", "BS">>
            [] c = "CT" -> <<"BS", "u">>
            [] OTHER    -> <<c>>
RECURSIVE EscAll(_)
EscAll(s) == IF s = <<>> THEN <<>> ELSE Esc(Head(s)) \o EscAll(Tail(s))
\* a record is [kind, ctx]; "{" k ctx "}" stands for the JSON object
Serialize(r) == <<"{", r.kind>> \o EscAll(r.ctx) \o <<"}">>

RECURSIVE Unesc(_)
Unesc(s) ==
  IF s = <<>> THEN <<>>
  ELSE IF Head(s) = "BS" /\ Len(s) >= 2
       THEN <<CASE s[2] = "n" -> "NL" [] s[2] = "r" -> "CR" [] s[2] = "Q" -> "Q"
                [] s[2] = "BS" -> "BS" [] s[2] = "u" -> "CT" [] OTHER -> "?">> \o Unesc(SubSeq(s, 3, Len(s)))
       ELSE <<Head(s)>> \o Unesc(Tail(s))
\* serde_json::from_str on one line; "bad" when the line is not one complete object
Deserialize(line) ==
  IF Len(line) >= 3 /\ line[1] = "{" /\ line[Len(line)] = "}"
  THEN [kind |-> line[2], ctx |-> Unesc(SubSeq(line, 3, Len(line) - 1))]
  ELSE [kind |-> "bad", ctx |-> <<>>]

\* BufRead::lines: split on raw NL; a final line without NL is still returned
RECURSIVE SplitLines(_, _)
SplitLines(f, cur) ==
  IF f = <<>> THEN (IF cur = <<>> THEN <<>> ELSE <<cur>>)
  ELSE IF Head(f) = "NL" THEN <<cur>> \o SplitLines(Tail(f), <<>>)
  ELSE SplitLines(Tail(f), Append(cur, Head(f)))
ReadFile(f) == LET ls == SplitLines(f, <<>>) IN [i \in DOMAIN ls |-> Deserialize(ls[i])]

LintCount(log) == Len(SelectSeq(log, LAMBDA r : r.kind = "Lint"))

-----------------------------------------------------------------------------
CONSTANTS MaxCtx, MaxRecords
VARIABLES file, log, sessions
slvars == <<file, log, sessions>>

Ctxs == UNION {[1..n -> TextClasses] : n \in 0..MaxCtx}

SLInit == file = <<>> /\ log = <<>> /\ sessions = 0
\* Stats::write of one record onto the end of the file
WriteRecord(r) == /\ Len(log) < MaxRecords
                  /\ file' = file \o Serialize(r) \o <<"NL">>
                  /\ log' = Append(log, r)
                  /\ UNCHANGED sessions
\* a new append session (server restart, second export): no effect on the file
NewSession == sessions < 2 /\ sessions' = sessions + 1 /\ UNCHANGED <<file, log>>
SLNext == (\E k \in {"Lint", "Cfg"}, c \in Ctxs : WriteRecord([kind |-> k, ctx |-> c])) \/ NewSession

ReadsBack == ReadFile(file) = log
NoRawBreakInRecord == \A i \in DOMAIN log : \A j \in DOMAIN Serialize(log[i]) : Serialize(log[i])[j] \notin {"NL", "CR"}
SummaryCountsOnce == LintCount(ReadFile(file)) = LintCount(log)
=============================================================================
