----------------------------- MODULE PatternsOps -----------------------------
(* The pattern algebra (harper-core/src/patterns/*.rs) and the chunk loop of    *)
(* PatternLinter (linting/pattern_linter.rs: run_on_chunk).  Property C01: a     *)
(* pattern match never claims more tokens than it was given, so the loops that   *)
(* slice by match length cannot panic and always advance.                        *)
(* Tokens are abstracted to their kind: "w" word, "p" period, "s" white space.   *)
(* A pattern is a record [op, ...].  Matches returns the match length, or -1    *)
(* when the code would slice past the end of the token list (a panic).           *)
EXTENDS Naturals, Integers, Sequences, TLC

Panic == -1
Rest(toks, n) == SubSeq(toks, n + 1, Len(toks))

RECURSIVE Matches(_, _, _)
RECURSIVE SeqMatch(_, _, _, _, _)
RECURSIVE RepMatch(_, _, _, _, _, _)
\* fixedInvert = FALSE reproduces Invert as written before the repair (it answered 1
\* on an empty token slice)
Matches(p, toks, fixedInvert) ==
  CASE p.op = "Pred" -> IF toks = <<>> THEN 0 ELSE IF Head(toks) = p.k THEN 1 ELSE 0
    [] p.op = "Any"  -> IF toks = <<>> THEN 0 ELSE 1
    [] p.op = "WS"   -> LET S == {i \in 1..Len(toks) : toks[i] # "s"} IN
                        IF S = {} THEN Len(toks) ELSE (CHOOSE i \in S : \A j \in S : i <= j) - 1
    [] p.op = "Invert" ->
         IF fixedInvert /\ toks = <<>> THEN 0
         ELSE LET m == Matches(p.a, toks, fixedInvert) IN
              IF m = Panic THEN Panic ELSE IF m # 0 THEN 0 ELSE 1
    [] p.op = "Seq" -> SeqMatch(p.ps, 1, 0, toks, fixedInvert)
    [] p.op = "Either" ->
         LET a == Matches(p.a, toks, fixedInvert) b == Matches(p.b, toks, fixedInvert) IN
         IF a = Panic \/ b = Panic THEN Panic ELSE IF a > b THEN a ELSE b
    [] p.op = "All" ->
         LET a == Matches(p.a, toks, fixedInvert) IN
         IF a = Panic THEN Panic ELSE IF a = 0 THEN 0
         ELSE LET b == Matches(p.b, toks, fixedInvert) IN
              IF b = Panic THEN Panic ELSE IF b = 0 THEN 0 ELSE IF a > b THEN a ELSE b
    [] p.op = "Repeat" -> RepMatch(p.a, p.n, 0, 0, toks, fixedInvert)
    [] p.op = "Consumes" ->
         LET m == Matches(p.a, toks, fixedInvert) IN
         IF m = Panic THEN Panic ELSE IF m = Len(toks) THEN m ELSE 0

\* SequencePattern::matches: for each child, match on tokens[cursor..]
SeqMatch(ps, i, cursor, toks, fx) ==
  IF i > Len(ps) THEN cursor
  ELSE IF cursor > Len(toks) THEN Panic          \* &tokens[tok_cursor..] out of range
  ELSE LET m == Matches(ps[i], Rest(toks, cursor), fx) IN
       IF m = Panic THEN Panic ELSE IF m = 0 THEN 0 ELSE SeqMatch(ps, i + 1, cursor + m, toks, fx)

\* RepeatingPattern::matches
RepMatch(inner, need, cursor, reps, toks, fx) ==
  IF cursor > Len(toks) THEN Panic
  ELSE LET m == Matches(inner, Rest(toks, cursor), fx) IN
       IF m = Panic THEN Panic
       ELSE IF m = 0 THEN (IF reps >= need THEN cursor ELSE 0)
       ELSE RepMatch(inner, need, cursor + m, reps + 1, toks, fx)

\* The contract every pattern must honour
Contract(p, toks, fx) == LET m == Matches(p, toks, fx) IN m # Panic /\ 0 <= m /\ m <= Len(toks)

\* run_on_chunk: returns the number of loop turns, or Panic
RECURSIVE RunOnChunk(_, _, _, _, _)
RunOnChunk(p, chunk, cursor, turns, fx) ==
  IF cursor >= Len(chunk) THEN turns
  ELSE LET m == Matches(p, Rest(chunk, cursor), fx) IN
       IF m = Panic THEN Panic
       ELSE IF m # 0
            THEN (IF cursor + m > Len(chunk) THEN Panic      \* &chunk[cursor..cursor + m]
                  ELSE RunOnChunk(p, chunk, cursor + m, turns + 1, fx))
            ELSE RunOnChunk(p, chunk, cursor + 1, turns + 1, fx)
\* number of matches (= lints produced) of the same loop, or Panic
RECURSIVE RunLints(_, _, _, _)
RunLints(p, chunk, cursor, fx) ==
  IF cursor >= Len(chunk) THEN 0
  ELSE LET m == Matches(p, Rest(chunk, cursor), fx) IN
       IF m = Panic THEN Panic
       ELSE IF m # 0
            THEN (IF cursor + m > Len(chunk) THEN Panic
                  ELSE LET r == RunLints(p, chunk, cursor + m, fx) IN IF r = Panic THEN Panic ELSE r + 1)
            ELSE RunLints(p, chunk, cursor + 1, fx)
ChunkOk(p, chunk, fx) == LET r == RunOnChunk(p, chunk, 0, 0, fx) IN r # Panic /\ r <= Len(chunk)

\* PatternExt::find_all_matches: Span::new_with_len(i, len) for every i, no slicing
=============================================================================
