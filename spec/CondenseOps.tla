----------------------------- MODULE CondenseOps -----------------------------
(* Transcription of Document::parse (harper-core/src/document.rs): the          *)
(* condensing passes that rewrite the token list after lexing, each written     *)
(* with the code's own cursor variables, plus the property-level definition     *)
(* WellFormed of C02.  A token is [k, s, e, n, sfx]: kind, span [s,e), count    *)
(* (Space/Newline) or radix (Number), and whether an ordinal suffix was merged. *)
EXTENDS LexerOps, FiniteSets

IsWord(t) == t.k = "Word"
IsPeriod(t) == t.k = "Period"
IsApostrophe(t) == t.k = "Apostrophe"

\* Vec::remove_indices (vec_ext.rs): indices sorted ascending, removed with a cursor
RemoveIdx(toks, rm) ==    \* rm: set of 1-based indices
  LET keep == {i \in DOMAIN toks : i \notin rm}
      F[i \in 0..Len(toks)] == IF i = 0 THEN <<>> ELSE IF i \in keep THEN Append(F[i - 1], toks[i]) ELSE F[i - 1]
  IN F[Len(toks)]

------------------------------------------------------------------------------
\* condense_spaces: merges a Space token with the ADJACENT Space tokens after it; when
\* the inner loop stops, the outer loop re-examines the first unconsumed token.
\* state: <<tokens, cursor (0-based), removed set>>; copy = original tokens
RECURSIVE SpaceInner(_, _, _, _, _)
SpaceInner(copy, toks, start, cursor, rm) ==
  \* returns <<toks, cursor, rm>> after the inner loop
  LET c1 == cursor + 1 IN
  IF c1 >= Len(copy) THEN <<toks, c1, rm>>
  ELSE LET child == copy[c1 + 1] IN
       IF toks[start + 1].e # child.s THEN <<toks, c1, rm>>
       ELSE IF child.k = "Space"
            THEN SpaceInner(copy,
                            [toks EXCEPT ![start + 1].n = @ + child.n, ![start + 1].e = child.e],
                            start, c1, rm \cup {c1 + 1})
            ELSE <<toks, c1, rm>>
RECURSIVE SpaceOuter(_, _, _, _)
SpaceOuter(copy, toks, cursor, rm) ==
  IF cursor >= Len(toks) THEN RemoveIdx(toks, rm)
  ELSE IF toks[cursor + 1].k = "Space"
       THEN LET r == SpaceInner(copy, toks, cursor, cursor, rm) IN SpaceOuter(copy, r[1], r[2], r[3])
       ELSE SpaceOuter(copy, toks, cursor + 1, rm)
CondenseSpaces(toks) == SpaceOuter(toks, toks, 0, {})

\* condense_newlines: same loop without the adjacency test
RECURSIVE NlInner(_, _, _, _, _)
NlInner(copy, toks, start, cursor, rm) ==
  LET c1 == cursor + 1 IN
  IF c1 >= Len(copy) THEN <<toks, c1, rm>>
  ELSE LET child == copy[c1 + 1] IN
       IF child.k = "Newline"
       THEN NlInner(copy, [toks EXCEPT ![start + 1].n = @ + child.n, ![start + 1].e = child.e],
                    start, c1, rm \cup {c1 + 1})
       ELSE <<toks, c1, rm>>
RECURSIVE NlOuter(_, _, _, _)
NlOuter(copy, toks, cursor, rm) ==
  IF cursor >= Len(toks) THEN RemoveIdx(toks, rm)
  ELSE IF toks[cursor + 1].k = "Newline"
       THEN LET r == NlInner(copy, toks, cursor, cursor, rm) IN NlOuter(copy, r[1], r[2], r[3])
       ELSE NlOuter(copy, toks, cursor + 1, rm)
CondenseNewlines(toks) == NlOuter(toks, toks, 0, {})

\* newlines_to_breaks
NewlinesToBreaks(toks) ==
  [i \in DOMAIN toks |-> IF toks[i].k = "Newline" /\ toks[i].n >= 2 THEN [toks[i] EXCEPT !.k = "ParagraphBreak", !.n = 0] ELSE toks[i]]

------------------------------------------------------------------------------
\* PatternExt::find_all_matches + condense_pattern, for a pattern given as an
\* operator M(toks, i) = match length at 0-based token index i
MinS(S) == CHOOSE x \in S : \A y \in S : x <= y
MaxS(S) == CHOOSE x \in S : \A y \in S : x >= y
FindAll(toks, M(_, _)) ==
  LET found == SelectSeq([i \in 1..Len(toks) |-> [s |-> i - 1, e |-> i - 1 + M(toks, i - 1)]],
                         LAMBDA sp : sp.e > sp.s)
      drop == {i \in 2..Len(found) : found[i - 1].s < found[i].e /\ found[i].s < found[i - 1].e}
  IN IF Len(found) < 2 THEN found ELSE RemoveIdx(found, drop)

CondensePattern(toks, M(_, _), newKind) ==
  LET ms == FindAll(toks, M)
      rm == UNION {{j + 1 : j \in (ms[i].s + 1)..(ms[i].e - 1)} : i \in DOMAIN ms}
      \* tokens[m.start].span = span of the matched tokens (min start, max end)
      upd == [i \in DOMAIN toks |->
                IF \E m \in DOMAIN ms : ms[m].s = i - 1
                THEN LET m == CHOOSE m \in DOMAIN ms : ms[m].s = i - 1
                         idx == (ms[m].s + 1)..ms[m].e
                     IN [toks[i] EXCEPT !.s = MinS({toks[j].s : j \in idx} \cup {toks[j].e : j \in idx}),
                                        !.e = MaxS({toks[j].s : j \in idx} \cup {toks[j].e : j \in idx}),
                                        !.k = IF newKind = "" THEN @ ELSE newKind]
                ELSE toks[i]]
  IN RemoveIdx(upd, rm)

\* word ' word
ContractionM(toks, i) ==
  IF i + 2 < Len(toks) /\ IsWord(toks[i + 1]) /\ IsApostrophe(toks[i + 2]) /\ IsWord(toks[i + 3]) THEN 3 ELSE 0
CondenseContractions(toks) == CondensePattern(toks, ContractionM, "")

\* RepeatingPattern(period, 2): two or more periods
RECURSIVE PeriodRun(_, _)
PeriodRun(toks, i) == IF i < Len(toks) /\ IsPeriod(toks[i + 1]) THEN 1 + PeriodRun(toks, i + 1) ELSE 0
EllipsisM(toks, i) == LET r == PeriodRun(toks, i) IN IF r >= 2 THEN r ELSE 0
CondenseEllipsis(toks) == CondensePattern(toks, EllipsisM, "Ellipsis")

------------------------------------------------------------------------------
\* condense_dotted_initialisms: the cursor state machine, as in the code.
\* Fixed = FALSE reproduces the loop as written before the repair
\* (`if cursor >= len - 1 { break }` and no flush after the loop).
RECURSIVE InitLoop(_, _, _, _, _)
InitLoop(toks, cursor, start, rm, fixed) ==
  \* cursor is 0-based; start = -1 for None
  LET n == Len(toks)
      done == IF fixed THEN cursor >= n ELSE FALSE
  IN
  IF done THEN
     \* (fixed) flush an initialism that runs to the end of the token list
     LET t2 == IF start # -1 THEN [toks EXCEPT ![start + 1].e = toks[cursor - 1].e] ELSE toks
     IN RemoveIdx(t2, rm)
  ELSE
  LET a == toks[cursor]            \* tokens[cursor - 1]
      b == toks[cursor + 1]        \* tokens[cursor]
      chunk == IsWord(a) /\ (a.e - a.s = 1) /\ IsPeriod(b)
      r == IF chunk
           THEN <<toks, cursor + 1,
                  IF start = -1 THEN cursor - 1 ELSE start,
                  (IF start = -1 THEN rm ELSE rm \cup {cursor}) \cup {cursor + 1}>>
           ELSE <<IF start # -1 THEN [toks EXCEPT ![start + 1].e = toks[cursor - 1].e] ELSE toks,
                  cursor, -1, rm>>
      c2 == r[2] + 1
  IN IF fixed
     THEN InitLoop(r[1], c2, r[3], r[4], fixed)
     ELSE IF c2 >= n - 1 THEN RemoveIdx(r[1], r[4]) ELSE InitLoop(r[1], c2, r[3], r[4], fixed)

CondenseInitialisms(toks, fixed) == IF Len(toks) < 2 THEN toks ELSE InitLoop(toks, 1, -1, {}, fixed)

------------------------------------------------------------------------------
\* condense_number_suffixes + condense_indices(.., 2).  SuffixWord(text, t): the
\* code's NumberSuffix::from_chars on the word's characters.
CondenseNumberSuffixes(text, toks, SuffixWord(_, _)) ==
  IF Len(toks) < 2 THEN toks
  ELSE LET starts == {i \in 1..(Len(toks) - 1) : toks[i].k = "Number" /\ toks[i + 1].k = "Word"
                                                  /\ SuffixWord(text, toks[i + 1])}
           upd == [i \in DOMAIN toks |-> IF i \in starts
                                         THEN [toks[i] EXCEPT !.e = toks[i + 1].e, !.sfx = TRUE] ELSE toks[i]]
       IN RemoveIdx(upd, {i + 1 : i \in starts})

TokText(text, t) == SubSeq(text, t.s + 1, t.e)
\* from_chars looks at the first two characters only (pre-repair) or requires
\* exactly two characters (post-repair); in the class alphabet the only suffix is "st"
SuffixLoose(text, t) == LET w == TokText(text, t) IN Len(w) >= 2 /\ w[1] \in {"s"} /\ w[2] \in {"t", "T"}
SuffixExact(text, t) == LET w == TokText(text, t) IN Len(w) = 2 /\ w[1] \in {"s"} /\ w[2] \in {"t", "T"}

------------------------------------------------------------------------------
\* match_quotes: pair quote tokens 2i, 2i+1; twin is a token index
QuoteIdx(toks) == SelectSeq([i \in 1..Len(toks) |-> i], LAMBDA i : toks[i].k = "Quote")
MatchQuotes(toks) ==
  LET q == QuoteIdx(toks)
      pairs == Len(q) \div 2
      twin(i) == IF \E p \in 1..pairs : q[2 * p - 1] = i THEN q[2 * (CHOOSE p \in 1..pairs : q[2 * p - 1] = i)]
                 ELSE IF \E p \in 1..pairs : q[2 * p] = i THEN q[2 * (CHOOSE p \in 1..pairs : q[2 * p] = i) - 1]
                 ELSE 0
  IN [i \in DOMAIN toks |-> IF toks[i].k = "Quote" THEN [toks[i] EXCEPT !.n = twin(i)] ELSE toks[i]]

\* Document::parse, in the code's order (condense_latin never fires on the alphabet)
Condense(text, toks, fixedInit, SuffixWord(_, _)) ==
  LET t1 == CondenseSpaces(toks)
      t2 == CondenseNewlines(t1)
      t3 == NewlinesToBreaks(t2)
      t4 == CondenseContractions(t3)
      t5 == CondenseInitialisms(t4, fixedInit)
      t6 == CondenseNumberSuffixes(text, t5, SuffixWord)
      t7 == CondenseEllipsis(t6)
  IN MatchQuotes(t7)

------------------------------------------------------------------------------
(* Property level (C02).                                                        *)
InBounds(len, toks) == \A i \in DOMAIN toks : 0 <= toks[i].s /\ toks[i].s <= toks[i].e /\ toks[i].e <= len
\* tokens that cover characters appear in increasing, non-overlapping order
Ordered(toks) ==
  LET cov == SelectSeq(toks, LAMBDA t : t.e > t.s) IN
  \A i \in 1..(Len(cov) - 1) : cov[i].e <= cov[i + 1].s
ZeroWidthOnlyBreaks(toks) == \A i \in DOMAIN toks : toks[i].e = toks[i].s => toks[i].k \in {"Newline", "ParagraphBreak"}
\* plain mode: the spans partition 0..len
Tiling(len, toks) ==
  /\ (len = 0 => toks = <<>>)
  /\ (len > 0 => /\ toks # <<>> /\ toks[1].s = 0 /\ toks[Len(toks)].e = len
                 /\ \A i \in 1..(Len(toks) - 1) : toks[i].e = toks[i + 1].s
                 /\ \A i \in DOMAIN toks : toks[i].e > toks[i].s)
\* lexical shape of a token's text, on character classes.  NumShape(text, t) says
\* whether a Number token's text denotes its value and suffix (model: by the float
\* grammar on classes; traces: recomputed by the harness from the real characters).
ShapeOk(text, t, NumShape(_, _), plain) ==
  LET w == TokText(text, t) IN
  CASE t.k = "Word" -> \A i \in DOMAIN w : w[i] \notin Whitespace
    \* plain English: blanks and tabs only; other front-ends map their own white space
    \* nodes (which may hold a line break) to Space, so there: white space only
    [] t.k = "Space" -> \A i \in DOMAIN w : IF plain THEN w[i] \in {"sp", "tab"} ELSE w[i] \in Whitespace
    \* structural breaks: in plain English exactly a run of line feeds; other front-ends
    \* merge breaks across masked-out text (comment leaders), so only C02's ordering
    \* clauses apply to them there
    [] t.k \in {"Newline", "ParagraphBreak"} -> plain => \A i \in DOMAIN w : w[i] = "nl"
    [] t.k = "Ellipsis" -> (Len(w) >= 2 /\ \A i \in DOMAIN w : w[i] = "Period") \/ w = <<"Ellipsis">>
    [] t.k \in PunctKinds \ {"Ellipsis"} -> w = <<t.k>>
    [] t.k = "Number" -> NumShape(text, t)
    [] OTHER -> TRUE
ModelNumShape(text, t) ==
  LET w == TokText(text, t) IN
  IF t.sfx THEN Len(w) >= 3 /\ w[Len(w) - 1] = "s" /\ w[Len(w)] \in {"t", "T"}
                /\ (ParsesF64(SubSeq(w, 1, Len(w) - 2)) \/ (t.n = 16 /\ w[1] = "0" /\ w[2] = "x"))
  ELSE ParsesF64(w) \/ (t.n = 16 /\ Len(w) >= 3 /\ w[1] = "0" /\ w[2] = "x")
QuotesOk(toks) ==
  \A i \in DOMAIN toks : (toks[i].k = "Quote" /\ toks[i].n # 0) =>
      toks[i].n \in DOMAIN toks /\ toks[toks[i].n].k = "Quote" /\ toks[toks[i].n].n = i

WellFormed(text, toks, plain, NumShape(_, _)) ==
  /\ InBounds(Len(text), toks)
  /\ Ordered(toks)
  /\ ZeroWidthOnlyBreaks(toks)
  /\ (plain => Tiling(Len(text), toks))
  /\ \A i \in DOMAIN toks : ShapeOk(text, toks[i], NumShape, plain)
  /\ QuotesOk(toks)

WFReason(text, toks, plain, NumShape(_, _)) ==
  IF ~InBounds(Len(text), toks) THEN "token-out-of-bounds"
  ELSE IF ~Ordered(toks) THEN "tokens-overlap-or-out-of-order"
  ELSE IF ~ZeroWidthOnlyBreaks(toks) THEN "zero-width-non-break"
  ELSE IF plain /\ ~Tiling(Len(text), toks) THEN "not-tiling"
  ELSE IF \E i \in DOMAIN toks : ~ShapeOk(text, toks[i], NumShape, plain) THEN "shape"
  ELSE IF ~QuotesOk(toks) THEN "quote-twin"
  ELSE "ok"

\* index of the first token responsible for a shape / bounds failure (0: not token-specific)
WFWhere(text, toks, plain, NumShape(_, _)) ==
  LET bad == {i \in DOMAIN toks : ~(0 <= toks[i].s /\ toks[i].s <= toks[i].e /\ toks[i].e <= Len(text))}
      shp == {i \in DOMAIN toks : i \notin bad /\ ~ShapeOk(text, toks[i], NumShape, plain)}
  IN IF bad # {} THEN MinS(bad) ELSE IF shp # {} THEN MinS(shp) ELSE 0
=============================================================================
