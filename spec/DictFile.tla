------------------------------- MODULE DictFile -------------------------------
(* Persisting added words (harper-ls/src/dictionary_io.rs: save_dict / load_dict,   *)
(* backend.rs: HarperAddToUserDict / HarperAddToFileDict).  Property C07.            *)
(* The dictionary file is Absent or a sequence of lines (one word per line).  An     *)
(* add-word command is the step sequence                                              *)
(*    Load -> Append -> Create (truncates the file) -> WriteFlush -> Done             *)
(* and the process can crash between any two steps; Restart brings up a fresh server  *)
(* over the same disk.  Words are character sequences (DictOps); the in-memory        *)
(* dictionary keeps one spelling per case-folded Id.                                  *)
(* AtomicSave = FALSE is the code as it is: the file is truncated before the new       *)
(* contents are written.  (TRUE models write-to-temp + rename, for comparison.)        *)
EXTENDS DictOps

CONSTANTS Vocab, MaxAdds, MaxCrashes, AtomicSave

Absent == [present |-> FALSE, lines |-> <<>>]
File(ls) == [present |-> TRUE, lines |-> ls]
VARIABLES disk, mem, pc, cur, added, maybe, crashes, lostByTruncate
dfvars == <<disk, mem, pc, cur, added, maybe, crashes, lostByTruncate>>

SetOf(s) == {s[i] : i \in DOMAIN s}
Lines(d) == d.lines
SeqOfSet(S) == CHOOSE s \in [1..Cardinality(S) -> S] : \A i, j \in DOMAIN s : i # j => s[i] # s[j]

DFInit == disk = Absent /\ mem = <<>> /\ pc = "idle" /\ cur = <<>> /\ added = <<>> /\ maybe = {} /\ crashes = 0 /\ lostByTruncate = FALSE

Begin(w) == pc = "idle" /\ Len(added) < MaxAdds /\ cur' = w /\ pc' = "begin"
            /\ UNCHANGED <<disk, mem, added, maybe, crashes, lostByTruncate>>
\* load_dict: every line becomes a word (a missing file gives an empty dictionary)
Load == pc = "begin" /\ mem' = Lines(disk) /\ pc' = "loaded" /\ UNCHANGED <<disk, cur, added, maybe, crashes, lostByTruncate>>
Append_ == pc = "loaded" /\ mem' = Append(mem, cur) /\ pc' = "appended" /\ UNCHANGED <<disk, cur, added, maybe, crashes, lostByTruncate>>
\* File::create: the old contents are gone from here on
Create == pc = "appended" /\ disk' = (IF AtomicSave THEN disk ELSE File(<<>>)) /\ pc' = "created"
          /\ UNCHANGED <<mem, cur, added, maybe, crashes, lostByTruncate>>
\* write_word_list + flush: one line per word of the map, in the map's order
WriteFlush == pc = "created" /\ disk' = File(SeqOfSet(MutWords(mem))) /\ pc' = "written"
              /\ UNCHANGED <<mem, cur, added, maybe, crashes, lostByTruncate>>
Done == pc = "written" /\ added' = Append(added, cur) /\ pc' = "idle" /\ mem' = <<>> /\ cur' = <<>>
        /\ UNCHANGED <<disk, maybe, crashes, lostByTruncate>>
\* the process dies; whatever was buffered is lost
Crash == pc # "idle" /\ crashes < MaxCrashes
         /\ crashes' = crashes + 1 /\ pc' = "idle" /\ mem' = <<>> /\ cur' = <<>>
         /\ maybe' = maybe \cup {cur}
         /\ lostByTruncate' = (lostByTruncate \/ (pc = "created" /\ ~AtomicSave))
         /\ UNCHANGED <<disk, added>>
DFNext == (\E w \in Vocab : Begin(w)) \/ Load \/ Append_ \/ Create \/ WriteFlush \/ Done \/ Crash

\* the words a restarted server finds
Reload == MutWords(Lines(disk))
CaseClash == HasIdClash(added) \/ \E i \in DOMAIN added : \E m \in maybe : m # added[i] /\ Id(m) = Id(added[i])

\* C07: the saved file always reloads to exactly the words added so far; a crash may lose
\* at most the word being added
NeverLoses == pc = "idle" => (SetOf(added) \subseteq Reload /\ Reload \subseteq SetOf(added) \cup maybe)
\* the same, with the two known deviations named: truncate-before-write and case-folded ids
NeverLosesExceptKnown == NeverLoses \/ lostByTruncate \/ CaseClash
=============================================================================
