------------------------------- MODULE DictFile -------------------------------
(* Persisting added words (harper-ls/src/dictionary_io.rs: save_dict / load_dict,   *)
(* backend.rs: HarperAddToUserDict / HarperAddToFileDict).  Property C07.            *)
(* The dictionary file is Absent or a sequence of lines (one word per line).  An     *)
(* add-word command is the step sequence                                              *)
(*    Load -> Append -> Create (truncates the file) -> WriteFlush -> Done             *)
(* and the process can crash between any two steps; Restart brings up a fresh server  *)
(* over the same disk.  Words are character sequences (DictOps); the in-memory        *)
(* dictionary keeps one spelling per case-folded Id.                                  *)
(* The file may exist before the server ever ran (hand-edited, or written by another   *)
(* tool): InitDisks lists those contents; `open` says that the last line has no        *)
(* terminator.  Words found there count as stored words.                               *)
(* AtomicSave = FALSE is the code as it is: the file is truncated before the new       *)
(* contents are written.  (TRUE models write-to-temp + rename, for comparison.)        *)
(* With AtomicSave the new contents go to a temporary sibling (`temp`) that is renamed  *)
(* over the file; a crash leaves the sibling behind.  TempExclusive = TRUE is a deviation *)
(* a seeded change introduced: the sibling is opened with create_new, so after such a     *)
(* crash every later save fails (and the server only logs it).                            *)
(* AppendOnly = TRUE is a deviation a seeded change introduced (append "w\n" to the    *)
(* file instead of rewriting it): the word is glued to an unterminated last line.      *)
EXTENDS DictOps

CONSTANTS Vocab, MaxAdds, MaxCrashes, AtomicSave, InitDisks, AppendOnly, TempExclusive

Absent == [present |-> FALSE, lines |-> <<>>, open |-> FALSE]
File(ls) == [present |-> TRUE, lines |-> ls, open |-> FALSE]
OpenFile(ls) == [present |-> TRUE, lines |-> ls, open |-> TRUE]
VARIABLES disk, mem, pc, cur, added, nadds, maybe, crashes, lostByTruncate, temp, failed
dfvars == <<disk, mem, pc, cur, added, nadds, maybe, crashes, lostByTruncate, temp, failed>>

SetOf(s) == {s[i] : i \in DOMAIN s}
Lines(d) == d.lines
SeqOfSet(S) == CHOOSE s \in [1..Cardinality(S) -> S] : \A i, j \in DOMAIN s : i # j => s[i] # s[j]

DFInit == disk \in InitDisks /\ mem = <<>> /\ pc = "idle" /\ cur = <<>> /\ added = disk.lines /\ nadds = 0 /\ maybe = {}
          /\ crashes = 0 /\ lostByTruncate = FALSE /\ temp = FALSE /\ failed = {}

Begin(w) == pc = "idle" /\ nadds < MaxAdds /\ cur' = w /\ pc' = "begin" /\ nadds' = nadds + 1
            /\ UNCHANGED <<disk, mem, added, maybe, crashes, lostByTruncate, temp, failed>>
\* load_dict: every line becomes a word (a missing file gives an empty dictionary); str::lines
\* does not care whether the last line is terminated
Load == pc = "begin" /\ ~AppendOnly /\ mem' = Lines(disk) /\ pc' = "loaded" /\ UNCHANGED <<disk, cur, added, nadds, maybe, crashes, lostByTruncate, temp, failed>>
Append_ == pc = "loaded" /\ mem' = Append(mem, cur) /\ pc' = "appended" /\ UNCHANGED <<disk, cur, added, nadds, maybe, crashes, lostByTruncate, temp, failed>>
\* File::create: the old contents are gone from here on
Create == /\ pc = "appended" /\ disk' = (IF AtomicSave THEN disk ELSE File(<<>>))
          /\ pc' = (IF AtomicSave /\ TempExclusive /\ temp THEN "failed" ELSE "created")
          /\ temp' = (temp \/ AtomicSave)
          /\ UNCHANGED <<mem, cur, added, nadds, maybe, crashes, lostByTruncate, failed>>
\* write_word_list + flush: one line per word of the map, in the map's order, each terminated
WriteFlush == pc = "created" /\ disk' = File(SeqOfSet(MutWords(mem))) /\ pc' = "written" /\ temp' = FALSE   \* (rename takes the sibling away)
              /\ UNCHANGED <<mem, cur, added, nadds, maybe, crashes, lostByTruncate, failed>>
\* the save failed; the command ends, the word is in no file
Fail == pc = "failed" /\ pc' = "idle" /\ failed' = failed \cup {cur} /\ mem' = <<>> /\ cur' = <<>>
        /\ UNCHANGED <<disk, added, nadds, maybe, crashes, lostByTruncate, temp>>
\* the deviation: open for append, write "w\n"
AppendLine == pc = "begin" /\ AppendOnly /\ pc' = "written"
              /\ disk' = (IF disk.open /\ Len(disk.lines) > 0
                          THEN File([disk.lines EXCEPT ![Len(disk.lines)] = @ \o cur])
                          ELSE File(Append(disk.lines, cur)))
              /\ UNCHANGED <<mem, cur, added, nadds, maybe, crashes, lostByTruncate, temp, failed>>
Done == pc = "written" /\ added' = Append(added, cur) /\ pc' = "idle" /\ mem' = <<>> /\ cur' = <<>>
        /\ UNCHANGED <<disk, nadds, maybe, crashes, lostByTruncate, temp, failed>>
\* the process dies; whatever was buffered is lost
Crash == pc # "idle" /\ crashes < MaxCrashes
         /\ crashes' = crashes + 1 /\ pc' = "idle" /\ mem' = <<>> /\ cur' = <<>>
         /\ maybe' = maybe \cup {cur}
         /\ lostByTruncate' = (lostByTruncate \/ (pc = "created" /\ ~AtomicSave))
         /\ UNCHANGED <<disk, added, nadds, temp, failed>>
DFNext == (\E w \in Vocab : Begin(w)) \/ Load \/ Append_ \/ Create \/ WriteFlush \/ AppendLine \/ Done \/ Fail \/ Crash

\* the words a restarted server finds
Reload == MutWords(Lines(disk))
CaseClash == HasIdClash(added) \/ \E i \in DOMAIN added : \E m \in maybe : m # added[i] /\ Id(m) = Id(added[i])

\* C07: the saved file always reloads to exactly the words stored so far; a crash may lose
\* at most the word being added
NeverLoses == pc = "idle" => (SetOf(added) \subseteq Reload /\ Reload \subseteq SetOf(added) \cup maybe)
\* a command that ran to its end without a crash has stored its word
EveryFinishedAddSticks == failed = {}
\* the same, with the two known deviations named: truncate-before-write and case-folded ids
NeverLosesExceptKnown == NeverLoses \/ lostByTruncate \/ CaseClash
=============================================================================
