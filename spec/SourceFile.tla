------------------------------ MODULE SourceFile ------------------------------
(* Locating prose in a source file (harper-tree-sitter/src/lib.rs:                 *)
(* byte_spans_to_char_spans, TreeSitterMasker::create_mask; harper-core mask/mod.rs: *)
(* push_allowed, merge_whitespace_sep; harper-comments masker.rs: ignore markers;    *)
(* parsers/mask.rs: Mask::parse).  Property C04.                                     *)
(* A file is a sequence of segments [kind, w]: kind in {"code", "comment",           *)
(* "ignored" (a comment carrying an ignore marker), "ws" (white space between)}, w =  *)
(* the UTF-8 width (1..4) of each of its characters.  The third-party grammar is      *)
(* assumed to report the byte range of every comment node correctly; what is          *)
(* modelled is what Harper does with those ranges.                                    *)
(* ConvertBytes = FALSE models the defect of using byte offsets as character offsets. *)
EXTENDS Naturals, Sequences, FiniteSets, TLC

CONSTANTS MaxSegs, ConvertBytes

RECURSIVE Sum(_)
Sum(s) == IF s = <<>> THEN 0 ELSE Head(s) + Sum(Tail(s))
RECURSIVE CharStart(_, _)
CharStart(f, i) == IF i = 1 THEN 0 ELSE CharStart(f, i - 1) + Len(f[i - 1].w)
RECURSIVE ByteStart(_, _)
ByteStart(f, i) == IF i = 1 THEN 0 ELSE ByteStart(f, i - 1) + Sum(f[i - 1].w)
CharSpan(f, i) == [s |-> CharStart(f, i), e |-> CharStart(f, i) + Len(f[i].w)]
ByteSpan(f, i) == [s |-> ByteStart(f, i), e |-> ByteStart(f, i) + Sum(f[i].w)]
IsComment(seg) == seg.kind \in {"comment", "ignored"}

\* bytes -> characters: the number of characters in the first b bytes of the file
RECURSIVE CharsInBytes(_, _)
CharsInBytes(ws, b) == IF b <= 0 \/ ws = <<>> THEN 0 ELSE 1 + CharsInBytes(Tail(ws), b - Head(ws))
RECURSIVE AllWidths(_)
AllWidths(f) == IF f = <<>> THEN <<>> ELSE Head(f).w \o AllWidths(Tail(f))
ByteToChar(f, sp) == IF ConvertBytes THEN [s |-> CharsInBytes(AllWidths(f), sp.s), e |-> CharsInBytes(AllWidths(f), sp.e)] ELSE sp

\* create_mask: comment nodes' byte spans -> char spans -> push_allowed (coalesce touching)
CommentIdx(f) == SelectSeq([i \in 1..Len(f) |-> i], LAMBDA i : IsComment(f[i]))
RawSpans(f) == [k \in DOMAIN CommentIdx(f) |-> ByteToChar(f, ByteSpan(f, CommentIdx(f)[k]))]
RECURSIVE Coalesce(_)
Coalesce(sp) == IF Len(sp) < 2 THEN sp
                ELSE IF sp[1].e = sp[2].s THEN Coalesce(<<[s |-> sp[1].s, e |-> sp[2].e]>> \o SubSeq(sp, 3, Len(sp)))
                ELSE <<sp[1]>> \o Coalesce(Tail(sp))
\* merge_whitespace_sep: spans separated only by white space are merged (to a fixpoint)
CharKindAt(f, c) == LET i == CHOOSE i \in DOMAIN f : CharSpan(f, i).s <= c /\ c < CharSpan(f, i).e IN f[i].kind
OnlyWs(f, a, b) == \A c \in a..(b - 1) : c < CharStart(f, Len(f)) + Len(f[Len(f)].w) /\ CharKindAt(f, c) = "ws"
RECURSIVE MergeWs(_, _)
MergeWs(f, sp) == IF Len(sp) < 2 THEN sp
                  ELSE IF OnlyWs(f, sp[1].e, sp[2].s) THEN MergeWs(f, <<[s |-> sp[1].s, e |-> sp[2].e]>> \o SubSeq(sp, 3, Len(sp)))
                  ELSE <<sp[1]>> \o MergeWs(f, Tail(sp))
\* the ignore condition looks at the text of a (merged) span: it is dropped when any part of it
\* is an ignored comment
TouchesIgnored(f, sp) == \E i \in DOMAIN f : f[i].kind = "ignored" /\ CharSpan(f, i).s < sp.e /\ sp.s < CharSpan(f, i).e
Mask(f) == SelectSeq(MergeWs(f, Coalesce(RawSpans(f))), LAMBDA sp : ~TouchesIgnored(f, sp))
Masked(f, c) == \E k \in DOMAIN Mask(f) : Mask(f)[k].s <= c /\ c < Mask(f)[k].e

VARIABLES file
SFInit == file = <<>>
Widths == {<<1>>, <<2>>, <<4>>, <<1, 3>>, <<1, 1>>}
LastKind == IF file = <<>> THEN "none" ELSE file[Len(file)].kind
AddSeg == /\ Len(file) < MaxSegs
          /\ \E k \in {"code", "comment", "ignored", "ws"}, w \in Widths :
               \* an ignore-marked comment is kept apart from ordinary comments by code (as the generators do)
               /\ (k = "ignored" => LastKind \in {"none", "code"})
               /\ (LastKind = "ignored" => k = "code")
               /\ file' = Append(file, [kind |-> k, w |-> w])
SFNext == AddSeg

NChars(f) == IF f = <<>> THEN 0 ELSE CharStart(f, Len(f)) + Len(f[Len(f)].w)
\* C04: exactly the characters of ordinary comments are offered; code and ignored comments never
OnlyProseIsMasked == \A c \in 0..(NChars(file) - 1) :
   /\ (CharKindAt(file, c) \in {"code", "ignored"} => ~Masked(file, c))
   /\ (CharKindAt(file, c) = "comment" => Masked(file, c))
MaskInsideFile == \A k \in DOMAIN Mask(file) : Mask(file)[k].s <= Mask(file)[k].e /\ Mask(file)[k].e <= NChars(file)
=============================================================================
