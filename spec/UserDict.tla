------------------------------ MODULE UserDict ------------------------------
(* The user dictionary as state of the language server (harper-ls/src/backend.rs:    *)
(* HarperAddToUserDict, update_document).  The dictionary is one file shared by every  *)
(* open document; a document's diagnostics are computed with the dictionary as loaded   *)
(* when the document was last processed.  Property C09 ("under the current              *)
(* dictionaries"), C07 ("accepted from then on").                                       *)
(*                                                                                      *)
(* OnlyNamed = TRUE is the code before its repair: after adding a word only the          *)
(* document the command was issued from is processed again.                              *)
EXTENDS Naturals, FiniteSets, TLC
CONSTANTS Docs, MaxOps, OnlyNamed
VARIABLES open,      \* documents the client has open (all of them contain the word)
          added,     \* the word is in the user dictionary
          sees,      \* per document: were its last published diagnostics computed with the word in the dictionary?
          nops
udvars == <<open, added, sees, nops>>
UDInit == open = {} /\ added = FALSE /\ sees = [d \in Docs |-> FALSE] /\ nops = 0
Tick == nops < MaxOps /\ nops' = nops + 1
\* didOpen / didChange: the document is processed with the dictionary as it is on disk now
Process(d) == sees' = [sees EXCEPT ![d] = added]
OpenDoc(d) == Tick /\ d \notin open /\ open' = open \cup {d} /\ Process(d) /\ UNCHANGED added
ChangeDoc(d) == Tick /\ d \in open /\ Process(d) /\ UNCHANGED <<open, added>>
CloseDoc(d) == Tick /\ d \in open /\ open' = open \ {d} /\ sees' = [sees EXCEPT ![d] = FALSE] /\ UNCHANGED added
\* the command, issued from document d
AddWord(d) == /\ Tick /\ d \in open /\ added' = TRUE /\ UNCHANGED open
              /\ sees' = [x \in Docs |-> IF x = d \/ (~OnlyNamed /\ x \in open) THEN TRUE ELSE sees[x]]
UDNext == \E d \in Docs : OpenDoc(d) \/ ChangeDoc(d) \/ CloseDoc(d) \/ AddWord(d)
\* once the word is added, no open document's last word still reports it
AcceptedEverywhere == added => \A d \in open : sees[d]
\* and nothing is accepted before it is added
NotBefore == ~added => \A d \in Docs : ~sees[d]
=============================================================================
