------------------------------ MODULE Paragraphs ------------------------------
(* Paragraph locality of tokenisation (C12): for a complete paragraph P (ends in a *)
(* period and a blank line, no quotation marks) followed by any text D that does    *)
(* not begin with a line feed, the token list of P \o D is the token list of P      *)
(* followed by the token list of D shifted by Len(P).  Lints are computed from      *)
(* tokens chunk by chunk, sentence by sentence or paragraph by paragraph, so this   *)
(* is the part of C12 the lexer and the condensing passes are responsible for.      *)
EXTENDS CondenseOps

CONSTANTS Sigma, MaxP, MaxD, NumberNeedsDigitEnd

VARIABLES p, d, phase
pgvars == <<p, d, phase>>

ParaEnd == <<"Period", "nl", "nl">>
PInit == p = <<>> /\ d = <<>> /\ phase = "p"
TypeP == phase = "p" /\ Len(p) < MaxP /\ \E c \in Sigma \ {"Quote"} : p' = Append(p, c) /\ UNCHANGED <<d, phase>>
EndP == phase = "p" /\ phase' = "d" /\ UNCHANGED <<p, d>>
TypeD == phase = "d" /\ Len(d) < MaxD /\ \E c \in Sigma : (d = <<>> => c # "nl") /\ d' = Append(d, c) /\ UNCHANGED <<p, phase>>
Judge == phase = "d" /\ phase' = "judge" /\ UNCHANGED <<p, d>>
PNext == TypeP \/ EndP \/ TypeD \/ Judge

Tokens(text) == Condense(text, LexAll(text, 0), TRUE, SuffixExact)
ShiftToks(toks, by, ntoks) ==
  [i \in DOMAIN toks |-> [toks[i] EXCEPT !.s = @ + by, !.e = @ + by,
                                         !.n = IF toks[i].k = "Quote" /\ @ # 0 THEN @ + ntoks ELSE @]]
Composes ==
  phase = "judge" =>
    LET P == p \o ParaEnd
        tp == Tokens(P)
    IN Tokens(P \o d) = tp \o ShiftToks(Tokens(d), Len(P), Len(tp))
=============================================================================
