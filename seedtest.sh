#!/bin/bash
# usage: seedtest.sh <worktree> <check id> [tier]   - run a check against a scratch worktree of the repository
# (a scratch copy of the harness is built against it; /repo is not touched)
set -e
WT=$1; ID=$2; TIER=${3:-quick}
H=/tmp/h_$(basename $WT)
mkdir -p $H
rsync -a --delete --exclude target /verif/harness/ $H/
sed -i "s#/repo/#$WT/#g" $H/Cargo.toml $H/src/main.rs
cd /verif && VERIF_HARNESS_DIR=$H HARPER_SRC=$WT ./check $ID $TIER
