"""C01 — checking any text in any supported language never crashes or hangs."""
import json
import os
import subprocess

from . import common, corpus
from .common import SPEC

TRACE_TLA = os.path.join(SPEC, "trace", "Trace_Typing.tla")
TRACE_CFG = os.path.join(SPEC, "trace", "Trace_Typing.cfg")


def gen(wd, tla, cfg, name, fname):
    r = common.tlc(os.path.join(SPEC, "mc", tla), os.path.join(SPEC, "mc", cfg), name, workers=8,
                   coverage=False, timeout=1800)
    path = os.path.join(wd, fname)
    n = 0
    with open(path, "w") as f:
        for x in r.prints:
            p = common.parse_print(x)
            if p and p[0] == "CASE":
                f.write(json.dumps(p[1]) + "\n")
                n += 1
    return path, n


def validate(v, trace, name):
    files = common.split_ndjson(trace, 15000, os.path.dirname(trace), name)
    res = common.validate_traces_parallel(TRACE_TLA, TRACE_CFG, files, "c01_" + name, procs=8)
    distinct = set()
    for f, consumed, rejects in res:
        evs = common.read_ndjson(f)
        if consumed != len(evs):
            raise common.ToolError(f"trace {f}: consumed {consumed} of {len(evs)} events")
        v.cov["traces_validated_against_impl"] += len(evs)
        v.cov["evaluations"] += len(evs)
        for e in evs:
            if e["ev"] == "Run" and e["len"] > 0:
                distinct.add((e["front"], e["wrap"], e["cfg"], e["len"], e.get("nlints", 0), e["src"]))
            elif e["ev"] == "Pat":
                distinct.add(("pat", json.dumps(e["pat"], sort_keys=True), tuple(e["toks"])))
        if len(v.cov["samples"]) < 8:
            v.cov["samples"] += [{k: e[k] for k in ("front", "wrap", "cfg", "dialect", "len", "out", "nlints", "text")}
                                 for e in evs if e["ev"] == "Run" and e.get("nlints", 0) > 0 and 0 < e["len"] < 80][:2]
            v.cov["samples"] += [e for e in evs if e["ev"] == "Pat" and e["m"] > 1][:1]
        for rej in rejects:
            e = evs[rej[0] - 1]
            if e["ev"] == "Run":
                if rej[1] == "panic":
                    sig = {"kind": "panic", "loc": e["loc"]}
                else:
                    sig = {"kind": "timeout", "front": e["front"], "text": e.get("text", "")[:60]}
                v.failure(sig, {"event": e})
            else:
                v.failure({"kind": rej[1], "pat": json.dumps(e.get("pat"), sort_keys=True)}, {"event": e})
    for f, d in common.LAST_DRIFTS[:20]:
        e = common.read_ndjson(f)[d[0] - 1]
        v.drift.append("pattern algebra differs from the model: %s on %s: real m=%s lints=%s" %
                       (json.dumps(e["pat"]), e["toks"], e["m"], e["lints"]))
    return len(distinct)


def reps_of(text):
    """how often the text's first few characters repeat at its start"""
    for n in (2, 3, 6):
        unit = text[:n]
        if unit and text.startswith(unit * 3):
            k = 0
            while text.startswith(unit, k * n):
                k += 1
            return k
    return 0


def run(v):
    wd = common.workdir("c01")
    thorough = v.tier == "thorough"
    # (M) pattern algebra contract + chunk loop; lexer progress + tiling on typed buffers
    for cfg in (["MC_Patterns_quick.cfg", "MC_Patterns_deep.cfg"] if thorough else ["MC_Patterns_quick.cfg"]):
        r = common.tlc(os.path.join(SPEC, "mc", "MC_Patterns.tla"), os.path.join(SPEC, "mc", cfg),
                       "c01_pat", workers=12, timeout=3000, coverage=False)
        if r.violated:
            v.failure({"kind": "model", "invariant": r.violated}, {"tlc_output": r.output[-3000:]})
        v.add_mc("MC_Patterns/" + cfg, r, "every pattern AST within the depth bound x every token string "
                 "<= MaxToks: MatchContract, ChunkLoopOk")
    tcfg = "MC_Typing_full5.cfg" if thorough else "MC_Typing_full4.cfg"
    r = common.tlc(os.path.join(SPEC, "mc", "MC_Typing.tla"), os.path.join(SPEC, "mc", tcfg),
                   "c01_typing", workers=12, timeout=3000, coverage=False)
    if r.violated:
        v.failure({"kind": "model", "invariant": r.violated}, {"tlc_output": r.output[-3000:]})
    v.add_mc("MC_Typing/" + tcfg, r, "every typed buffer up to the bound: LexerProgress (the tiling loop "
             "advances and stays in range), condensing passes stay in range")
    # (R) generation
    pats, npats = gen(wd, "MC_Patterns.tla", "MC_Patterns_gen.cfg", "c01_gen_pat", "patterns.ndjson")
    typing, ntyping = gen(wd, "MC_Typing.tla", "MC_Typing_gen_full4.cfg" if thorough else "MC_Typing_gen_full3.cfg",
                          "c01_gen_typing", "typing.ndjson")
    _, corp = corpus.harvest()
    trace = os.path.join(wd, "trace.ndjson")
    rc, out, err = common.run_hv(["c01", "--patterns", pats, "--typing", typing,
                                  "--alphabet", os.path.join(SPEC, "alphabet.json"), "--out", trace,
                                  "--seed", v.seed, "--corpus", corp, "--fixtures", common.REPO,
                                  "--docs", 60000 if thorough else 6000,
                                  "--prefix-sentences", 646 if thorough else 120, "--family-sentences", 646 if thorough else 220,
                                  "--fixture-cuts", 40 if thorough else 6,
                                  "--timeout-ms", 20000], timeout=7200)
    if rc != 0:
        raise common.ToolError("hv c01 failed: " + err[-2000:])
    v.cov["distinct_nontrivial"] = validate(v, trace, "t")
    v.cov["tlc_cases_replayed"] = npats + ntyping
    v.cov["rule"] = ("Run events: TLC-enumerated typing buffers (class strings concretised), every prefix "
                     "(with/without trailing blank or newline) of sentences harvested from the repository's "
                     "rule tests, composed multi-paragraph documents wrapped for each of the 29 front-ends and "
                     "cut at random points, adversarial texts x all front-ends, the repository's fixture "
                     "files cut at random points; rule configs {all, curated, one rule alone, random "
                     "subsets} x 4 dialects x {no wrapper, identifier collapsing, English isolation}. Pat "
                     "events: every pattern AST from MC_Patterns. distinct = distinct (front-end, wrapper, "
                     "config, length, #lints, source) of non-empty texts / distinct (AST, token string)")
    v.assumptions += ["'low-degree polynomial time' is approximated by a 20 s watchdog on texts of at most "
                      "6000 characters; no asymptotic claim"]
    # deep nesting: a stack that overflows aborts the process and cannot be observed from inside it, so these texts are
    # checked in a process of their own each (unclosed markup nests one level per marker while it is typed or pasted)
    deep = []
    for reps in ((400, 1500) if not thorough else (400, 1500, 6000)):
        deep += [("typst", "*a _b " * reps), ("typst", "#[" * reps), ("markdown", "*a _b " * reps), ("markdown", "> " * reps + "x"),
                 ("markdown", "- " * reps + "x"), ("html", "<b><i>" * reps + "x"), ("plain", "((" * reps), ("rust", "/* " * reps + "\nfn main() {}\n")]
    aborted = 0
    for front, text in deep:
        tf = os.path.join(wd, "deep.txt")
        open(tf, "w").write(text)
        try:
            # (a 2 MiB stack, as the worker threads of the language server have)
            p = subprocess.run(["bash", "-c", 'ulimit -s 2048; exec "$0" show alone --front "$1" --text "$(cat "$2")"', common.HV, front, tf],
                               stdout=subprocess.DEVNULL, stderr=subprocess.PIPE, text=True, timeout=600)
            rc, err = p.returncode, p.stderr
        except subprocess.TimeoutExpired:
            rc, err = -99, "timeout after 600 s"
        v.cov["evaluations"] += 1
        if rc != 0:
            aborted += 1
            # (Typst texts nested thousands of levels deep overflow the stack inside the third-party parser, typst-syntax,
            # before Harper's translator sees them: a class of its own)
            v.failure({"kind": "process-aborted-or-hung", "front": front, "shape": text[:8], "overflow": "overflowed its stack" in err,
                       "levels": "thousands" if reps_of(text) >= 5000 else "hundreds"},
                      {"front": front, "text_head": text[:60], "repetitions": len(text), "rc": rc, "stderr": err[-400:]})
    v.cov["deep_nesting_texts"] = {"run": len(deep), "aborted": aborted}
    return v.finish()


def replay(v, path):
    rep = json.load(open(path))
    e = rep["replay"]["event"]
    print(json.dumps(e, ensure_ascii=False)[:3000])
    wd = common.workdir("c01_replay")
    trace = os.path.join(wd, "trace.ndjson")
    with open(trace, "w") as f:
        f.write(json.dumps(e) + "\n")
    validate(v, trace, "r")
    return v.finish()
