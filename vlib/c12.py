"""C12 — checking two paragraphs together equals checking them separately."""
import json
import os

from . import common, corpus
from .common import SPEC

TRACE_TLA = os.path.join(SPEC, "trace", "Trace_Paragraphs.tla")
TRACE_CFG = os.path.join(SPEC, "trace", "Trace_Paragraphs.cfg")


def validate(v, trace, name):
    files = common.split_ndjson(trace, 5000, os.path.dirname(trace), name)
    res = common.validate_traces_parallel(TRACE_TLA, TRACE_CFG, files, "c12_" + name, procs=8)
    distinct = set()
    for f, consumed, rejects in res:
        evs = common.read_ndjson(f)
        if consumed != len(evs):
            raise common.ToolError(f"trace {f}: consumed {consumed} of {len(evs)} events")
        v.cov["traces_validated_against_impl"] += len(evs)
        v.cov["evaluations"] += len(evs)
        for e in evs:
            if e["ev"] == "Pair" and e["lp"] and e["ld"]:
                distinct.add((e["p"], e["d"]))
        if len(v.cov["samples"]) < 5:
            v.cov["samples"] += [{"p": e["p"], "d": e["d"], "nP": len(e["lp"]), "nD": len(e["ld"]), "nPD": len(e["lpd"])}
                                 for e in evs if e["ev"] == "Pair" and e["lp"] and e["ld"]][:2]
        for rej in rejects:
            e = evs[rej[0] - 1]
            if e["ev"] == "Seg":
                v.failure({"kind": rej[1], "kinds": "".join(e["kinds"])[:40]}, {"event": e})
                continue
            v.failure({"kind": rej[1], "p_tail": e.get("p", "")[-24:], "d_head": e.get("d", "")[:24]}, {"event": e})
    return len(distinct)


def run(v):
    wd = common.workdir("c12")
    thorough = v.tier == "thorough"
    t = "thorough" if thorough else "quick"
    r = common.tlc(os.path.join(SPEC, "mc", "MC_Paragraphs.tla"), os.path.join(SPEC, "mc", f"MC_Paragraphs_{t}.cfg"),
                   "c12_mc", workers=12, timeout=3000, coverage=False)
    if r.violated:
        v.failure({"kind": "model", "invariant": r.violated}, {"tlc_output": r.output[-3000:]})
    if r.distinct < 1000:
        raise common.ToolError("vacuous MC_Paragraphs run")
    v.add_mc(f"MC_Paragraphs/{t}", r, "every paragraph stem (<= MaxP classes) + '.\\n\\n' followed by every text of <= MaxD "
             "classes: tokens(P o D) = tokens(P) o shift(tokens(D)) through the transcribed lexer and condensing passes")
    r2 = common.tlc(os.path.join(SPEC, "mc", "MC_Segments.tla"), os.path.join(SPEC, "mc", f"MC_Segments_{t}.cfg"),
                    "c12_seg", workers=6, timeout=1800, coverage=False)
    if r2.violated:
        v.failure({"kind": "model", "invariant": r2.violated}, {"tlc_output": r2.output[-3000:]})
    if r2.distinct < 1000:
        raise common.ToolError("vacuous MC_Segments run")
    v.add_mc(f"MC_Segments/{t}", r2, "every token-kind string over {word, space, comma, period, paragraph break} up to MaxLen: the "
             "chunk / sentence / paragraph iterators as written = cut after every terminator; each is a partition, nothing "
             "continues across a paragraph break, the three levels nest, and cutting after a terminator splits the cutting")
    # the two deviations a seeded change introduced must be refuted by the same invariants
    for dev in ("middle", "drop"):
        rd = common.tlc(os.path.join(SPEC, "mc", "MC_Segments.tla"), os.path.join(SPEC, "mc", f"MC_Segments_dev_{dev}.cfg"),
                        "c12_segdev", workers=2, timeout=600, coverage=False)
        if rd.violated != "AlgSatisfiesProperty":
            raise common.ToolError(f"MC_Segments deviation {dev} is not refuted: the invariants are vacuous")
    _, corp = corpus.harvest()
    trace = os.path.join(wd, "trace.ndjson")
    rc, out, err = common.run_hv(["c12", "--out", trace, "--seed", v.seed, "--corpus", corp,
                                  "--pairs", 200000 if thorough else 20000], timeout=7200)
    if rc != 0:
        raise common.ToolError("hv c12 failed: " + err[-2000:])
    v.cov["distinct_nontrivial"] = validate(v, trace, "t")
    v.cov["rule"] = ("pairs (P, D): P = 1-2 quote-free corpus sentences (sometimes behind multi-byte text, sometimes "
                     "ending in a number, a one-letter word or an abbreviation) + a blank line; D = corpus sentences, "
                     "composed documents, sentence prefixes, and short texts that start with tokens the condensing "
                     "passes merge (suffixes, apostrophes, periods, digits); all rules on, one long-lived linter per "
                     "worker; distinct = distinct pairs where both parts have lints. Every 4th joined document, Markdown "
                     "documents and hand-picked edge texts also give a Seg event: the slices of iter_chunks / iter_sentences / "
                     "iter_paragraphs on the real token list against SegmentsOps")
    return v.finish()


def replay(v, path):
    rep = json.load(open(path))
    e = rep["replay"]["event"]
    print(json.dumps(e, ensure_ascii=False)[:3000])
    wd = common.workdir("c12_replay")
    trace = os.path.join(wd, "trace.ndjson")
    with open(trace, "w") as f:
        f.write(json.dumps(e) + "\n")
    validate(v, trace, "r")
    return v.finish()
