"""C06 — a word is reported misspelt exactly when the dictionary does not contain it."""
import json
import os

from . import common
from .common import SPEC

TRACE_TLA = os.path.join(SPEC, "trace", "Trace_Spell.tla")
TRACE_CFG = os.path.join(SPEC, "trace", "Trace_Spell.cfg")


def validate(v, trace, name):
    files = common.split_ndjson(trace, 25000, os.path.dirname(trace), name)
    res = common.validate_traces_parallel(TRACE_TLA, TRACE_CFG, files, "c06_" + name, procs=10)
    distinct = set()
    for f, consumed, rejects in res:
        evs = common.read_ndjson(f)
        if consumed != len(evs):
            raise common.ToolError(f"trace {f}: consumed {consumed} of {len(evs)} events")
        v.cov["traces_validated_against_impl"] += len(evs)
        v.cov["evaluations"] += len(evs)
        for e in evs:
            if e["ev"] == "Spell":
                distinct.add((e["word"], e["form"]))
        if len(v.cov["samples"]) < 6:
            v.cov["samples"] += [e for e in evs if e["ev"] == "Spell" and e.get("flagged")][:1]
            v.cov["samples"] += [e for e in evs if e["ev"] == "Spell" and e["form"] == "upper"][:1]
        for rej in rejects:
            e = evs[rej[0] - 1]
            sig = {"kind": rej[1], "word": e.get("word"), "form": e.get("form")}
            if len(e.get("word") or "") == 1 and e.get("before_full_stop"):
                sig = {"kind": rej[1], "one_letter_word_before_a_full_stop": True}
            if e.get("dictionary"):
                # merged-dictionary job: is the word one the curated part lists for another dialect only?
                sig["dictionary"] = e["dictionary"]
                sig["curated_lists_it_for_another_dialect"] = bool(e.get("curated_other_dialect"))
            v.failure(sig, {"event": e})
    return len(distinct)


def run(v):
    wd = common.workdir("c06")
    thorough = v.tier == "thorough"
    t = "thorough" if thorough else "quick"
    r = common.tlc(os.path.join(SPEC, "mc", "MC_Spell.tla"), os.path.join(SPEC, "mc", f"MC_Spell_{t}.cfg"),
                   "c06_mc", workers=12, timeout=3000, coverage=False)
    if r.violated:
        v.failure({"kind": "model", "invariant": r.violated}, {"tlc_output": r.output[-3000:]})
    v.add_mc(f"MC_Spell/{t}", r, "every dictionary of <= MaxDict entries (spelling over {a,b,A,'} x dialect tag) x both "
             "dialects: ListedAccepted, CasedFormsAccepted, UnknownFlagged, OtherDialectFlagged")
    # the merged dictionary (curated + user words): a seeded deviation (exact test against the first part only) must be refuted
    rdv = common.tlc(os.path.join(SPEC, "mc", "MC_Spell.tla"), os.path.join(SPEC, "mc", "MC_Spell_dev_firstpart.cfg"), "c06_mc_dev",
                     workers=2, timeout=600, coverage=False)
    if rdv.violated != "MergedListedAccepted":
        raise common.ToolError("MC_Spell: the first-part-only deviation is not refuted (vacuous invariant)")
    trace = os.path.join(wd, "trace.ndjson")
    rc, out, err = common.run_hv(["c06", "--out", trace, "--seed", v.seed, "--sample", 0 if thorough else 6000,
                                  "--nonwords", 20000 if thorough else 1500], timeout=7200)
    if rc != 0:
        raise common.ToolError("hv c06 failed: " + err[-2000:])
    v.cov["distinct_nontrivial"] = validate(v, trace, "t")
    v.cov["exhaustive"] = bool(thorough)
    v.cov["rule"] = ("for every curated word (thorough) / a stratified sample of 6000 (quick): the listed form under all 4 "
                     "dialects, and for lower-case entries the Capitalised and UPPER-CASE forms, alone or inside one of 5 "
                     "sentence templates (incl. behind multi-byte text and in a second paragraph); plus non-words (1-edit "
                     "variants of real words and random letter strings absent under any capitalisation); only SpellCheck "
                     "runs; distinct = distinct (word, form)")
    v.assumptions += ["'listed' means returned by the curated dictionary's words_iter(); entries lost to an Id clash while "
                      "the dictionary is built are not visible to this check"]
    return v.finish()


def replay(v, path):
    rep = json.load(open(path))
    e = rep["replay"]["event"]
    print(json.dumps(e, ensure_ascii=False))
    wd = common.workdir("c06_replay")
    trace = os.path.join(wd, "trace.ndjson")
    with open(trace, "w") as f:
        f.write(json.dumps(e) + "\n")
    validate(v, trace, "r")
    return v.finish()
