"""C17 — ordinal suffixes are judged correctly for every number."""
import json
import os

from . import common
from .common import SPEC

TRACE_TLA = os.path.join(SPEC, "trace", "Trace_Ordinal.tla")
TRACE_CFG = os.path.join(SPEC, "trace", "Trace_Ordinal.cfg")


def validate(v, trace, name):
    files = common.split_ndjson(trace, 25000, os.path.dirname(trace), name)
    res = common.validate_traces_parallel(TRACE_TLA, TRACE_CFG, files, "c17_" + name, procs=8)
    distinct = set()
    for f, consumed, rejects in res:
        evs = common.read_ndjson(f)
        if consumed != len(evs):
            raise common.ToolError(f"trace {f}: consumed {consumed} of {len(evs)} events")
        v.cov["traces_validated_against_impl"] += len(evs)
        v.cov["evaluations"] += len(evs)
        for e in evs:
            if e["flagged"]:
                distinct.add(("".join(map(str, e["digits"])), e["sfx"]))
            if "panic" in e:
                v.failure({"kind": "panic", "loc": ":".join(e["panic"].split(":")[:2])}, {"event": e})
        if len(v.cov["samples"]) < 6:
            v.cov["samples"] += [e for e in evs if e["flagged"]][:2]
        for rej in rejects:
            e = evs[rej[0] - 1]
            d = "".join(map(str, e["digits"]))
            shape = "decade-like" if (len(d) == 4 and d[0] in "12" and d[3] == "0") else "other"
            if e.get("tpl") in (24, 25):
                v.failure({"kind": rej[1], "possessive_ordinal": True}, {"event": e})
                continue
            v.failure({"kind": rej[1], "sfx": e["sfx"], "shape": shape, "last2": d[-2:], "variant": e["variant"]},
                      {"event": e})
    for f, d in common.LAST_DRIFTS[:20]:
        e = common.read_ndjson(f)[d[0] - 1]
        v.drift.append("rule verdict differs from the model for %s" % e["text"])
    return len(distinct)


def run(v):
    wd = common.workdir("c17")
    thorough = v.tier == "thorough"
    t = "thorough" if thorough else "quick"
    r = common.tlc(os.path.join(SPEC, "mc", "MC_Ordinal.tla"), os.path.join(SPEC, "mc", f"MC_Ordinal_{t}.cfg"),
                   "c17_mc", workers=8, timeout=1800)
    if r.violated:
        v.failure({"kind": "model", "invariant": r.violated}, {"tlc_output": r.output[-3000:]})
    common.check_coverage(r, ["AddDigit", "AddSuffix"], "MC_Ordinal")
    v.add_mc(f"MC_Ordinal/{t}", r, "every digit string up to MaxDigits x 4 suffixes x first-letter case: "
             "pipeline verdict = English rule; fix is clean")
    trace = os.path.join(wd, "trace.ndjson")
    rc, out, err = common.run_hv(["c17", "--out", trace, "--seed", v.seed,
                                  "--upto", 100000 if thorough else 3000,
                                  "--random", 40000 if thorough else 4000], timeout=7200)
    if rc != 0:
        raise common.ToolError("hv c17 failed: " + err[-2000:])
    v.cov["distinct_nontrivial"] = validate(v, trace, "t")
    v.cov["exhaustive_upto"] = 100000 if thorough else 3000
    v.cov["rule"] = ("every integer below the bound x {st,nd,rd,th} in lower case and one rotating case "
                     "variant, at 8 sentence positions (incl. behind multi-byte text, Markdown), plus seeded "
                     "random integers below 2^53, leading zeros and teens endings; the real "
                     "CorrectNumberSuffix rule is run, its suggestion applied and the text re-linted; "
                     "distinct = distinct (number, suffix) pairs that were flagged")
    return v.finish()


def replay(v, path):
    rep = json.load(open(path))
    e = rep["replay"]["event"]
    print(json.dumps(e, ensure_ascii=False))
    wd = common.workdir("c17_replay")
    trace = os.path.join(wd, "trace.ndjson")
    with open(trace, "w") as f:
        f.write(json.dumps(e) + "\n")
    validate(v, trace, "r")
    return v.finish()
