"""Minimal LSP client over stdio or TCP for driving the real harper-ls binary."""
import json
import os
import socket
import subprocess
import threading
import time


class Client:
    def __init__(self, rfile, wfile, settings):
        self.r, self.w = rfile, wfile
        self.settings = settings
        self.next_id = 1
        self.responses = {}
        self.notifications = []
        self.alive = True
        self.lock = threading.Lock()
        self.t = threading.Thread(target=self._reader, daemon=True)
        self.t.start()

    def _send(self, obj):
        b = json.dumps(obj).encode()
        self.w.write(b"Content-Length: %d\r\n\r\n" % len(b) + b)
        self.w.flush()

    def _reader(self):
        try:
            while True:
                length = None
                while True:
                    line = self.r.readline()
                    if not line:
                        self.alive = False
                        return
                    line = line.strip()
                    if not line:
                        break
                    if line.lower().startswith(b"content-length:"):
                        length = int(line.split(b":")[1])
                body = self.r.read(length)
                msg = json.loads(body)
                if "method" in msg and "id" in msg:          # server -> client request
                    if msg["method"] == "workspace/configuration":
                        self._send({"jsonrpc": "2.0", "id": msg["id"], "result": [self.settings]})
                    else:
                        self._send({"jsonrpc": "2.0", "id": msg["id"], "result": None})
                elif "method" in msg:
                    with self.lock:
                        self.notifications.append(msg)
                else:
                    with self.lock:
                        self.responses[msg["id"]] = msg
        except Exception:
            self.alive = False

    def request(self, method, params=None, timeout=20):
        i = self.next_id
        self.next_id += 1
        m = {"jsonrpc": "2.0", "id": i, "method": method}
        if params is not None:
            m["params"] = params
        self._send(m)
        t0 = time.time()
        while time.time() - t0 < timeout:
            with self.lock:
                if i in self.responses:
                    return self.responses.pop(i)
            if not self.alive:
                return None
            time.sleep(0.01)
        return None

    def notify(self, method, params):
        self._send({"jsonrpc": "2.0", "method": method, "params": params})

    def wait_publish(self, uri, since, timeout=20):
        t0 = time.time()
        while time.time() - t0 < timeout:
            with self.lock:
                for n in self.notifications[since:]:
                    if n["method"] == "textDocument/publishDiagnostics" and n["params"]["uri"] == uri:
                        return n["params"]["diagnostics"]
            time.sleep(0.01)
        return None


def full_session(c, docdir, texts, sweep_step=2):
    """Every notification and command except the user-initiated HarperOpen."""
    c.request("initialize", {"capabilities": {}, "processId": None, "rootUri": None})
    c.notify("initialized", {})
    time.sleep(0.3)
    uris = []
    for k, (name, lang, text) in enumerate(texts):
        p = os.path.join(docdir, name)
        with open(p, "w") as f:
            f.write(text)
        uri = "file://" + p
        uris.append(uri)
        n0 = len(c.notifications)
        c.notify("textDocument/didOpen", {"textDocument": {"uri": uri, "languageId": lang, "version": 1, "text": text}})
        diags = c.wait_publish(uri, n0) or []
        c.notify("textDocument/didChange", {"textDocument": {"uri": uri, "version": 2}, "contentChanges": [{"text": text + " Another teh line."}]})
        acts = c.request("textDocument/codeAction", {"textDocument": {"uri": uri}, "range": diags[0]["range"] if diags else {"start": {"line": 0, "character": 0}, "end": {"line": 0, "character": 1}},
                                                     "context": {"diagnostics": []}})
        # the editor asks for code actions wherever the cursor goes: sweep the whole document
        # (HarperOpen is offered on URLs; it is never executed here)
        lines = text.split("\n")
        swept = 0
        for li, line in enumerate(lines):
            for ch in range(0, len(line) + 1, sweep_step):
                pos = {"line": li, "character": ch}
                c.request("textDocument/codeAction", {"textDocument": {"uri": uri}, "range": {"start": pos, "end": pos}, "context": {"diagnostics": []}})
                swept += 1
        c.swept = getattr(c, "swept", 0) + swept
        cmds = []
        for a in (acts or {}).get("result") or []:
            cmd = a.get("command") if isinstance(a.get("command"), dict) else (a if "command" in a and isinstance(a["command"], str) else None)
            if cmd and cmd.get("command") != "HarperOpen":
                cmds.append(cmd)
        for cmd in cmds:
            c.request("workspace/executeCommand", {"command": cmd["command"], "arguments": cmd.get("arguments", [])})
        c.request("workspace/executeCommand", {"command": "HarperAddToUserDict", "arguments": ["zzyzxq", uri]})
        c.request("workspace/executeCommand", {"command": "HarperAddToFileDict", "arguments": ["qwertzuv", uri]})
        c.notify("textDocument/didSave", {"textDocument": {"uri": uri}})
    c.notify("workspace/didChangeConfiguration", {"settings": c.settings})
    time.sleep(0.3)
    c.notify("workspace/didChangeWatchedFiles", {"changes": [{"uri": uris[0], "type": 3}]})
    for uri in uris[1:]:
        c.notify("textDocument/didClose", {"textDocument": {"uri": uri}})
    time.sleep(0.2)
    c.request("shutdown")
    c.notify("exit", None)
    time.sleep(0.2)
