"""Minimal LSP client over stdio or TCP for driving the real harper-ls binary."""
import json
import os
import socket
import subprocess
import threading
import time


class Client:
    def __init__(self, rfile, wfile, settings):
        self.r, self.w = rfile, wfile
        self.settings = settings
        self.next_id = 1
        self.responses = {}
        self.notifications = []
        self.alive = True
        self.lock = threading.Lock()
        self.t = threading.Thread(target=self._reader, daemon=True)
        self.t.start()

    def _send(self, obj):
        b = json.dumps(obj).encode()
        self.w.write(b"Content-Length: %d\r\n\r\n" % len(b) + b)
        self.w.flush()

    def _reader(self):
        try:
            while True:
                length = None
                while True:
                    line = self.r.readline()
                    if not line:
                        self.alive = False
                        return
                    line = line.strip()
                    if not line:
                        break
                    if line.lower().startswith(b"content-length:"):
                        length = int(line.split(b":")[1])
                body = self.r.read(length)
                msg = json.loads(body)
                if "method" in msg and "id" in msg:          # server -> client request
                    if msg["method"] == "workspace/configuration":
                        self._send({"jsonrpc": "2.0", "id": msg["id"], "result": [self.settings]})
                    else:
                        self._send({"jsonrpc": "2.0", "id": msg["id"], "result": None})
                elif "method" in msg:
                    with self.lock:
                        self.notifications.append(msg)
                else:
                    with self.lock:
                        self.responses[msg["id"]] = msg
        except Exception:
            self.alive = False

    def request(self, method, params=None, timeout=90):
        """abort_check (attribute, optional): called about once a second while waiting; a true result gives up."""
        i = self.next_id
        self.next_id += 1
        m = {"jsonrpc": "2.0", "id": i, "method": method}
        if params is not None:
            m["params"] = params
        self._send(m)
        t0 = time.time()
        while time.time() - t0 < timeout:
            with self.lock:
                if i in self.responses:
                    return self.responses.pop(i)
            if not self.alive:
                if method == "shutdown":
                    return None
                raise RuntimeError(f"the server went away during {method}")
            time.sleep(0.002)
            chk = getattr(self, "abort_check", None)
            if chk and time.time() - t0 > 1.0 and int((time.time() - t0) * 500) % 500 == 0 and chk():
                raise RuntimeError(f"gave up waiting for {method}")
        raise TimeoutError(f"no response to {method} within {timeout}s")

    def notify(self, method, params):
        self._send({"jsonrpc": "2.0", "method": method, "params": params})

    def wait_publish(self, uri, since, timeout=90):
        t0 = time.time()
        while time.time() - t0 < timeout:
            with self.lock:
                for n in self.notifications[since:]:
                    if n["method"] == "textDocument/publishDiagnostics" and n["params"]["uri"] == uri:
                        return n["params"]["diagnostics"]
            time.sleep(0.01)
        return None


def flat_name(uri):
    """The file-dictionary name of a document: the segments of its decoded path, each followed by '%'."""
    from urllib.parse import unquote, urlparse
    return "".join(seg + "%" for seg in unquote(urlparse(uri).path).split("/") if seg)


def full_session(c, docdir, texts, sweep_step=2):
    """Every notification and command except the user-initiated HarperOpen."""
    c.request("initialize", {"capabilities": {}, "processId": None, "rootUri": None})
    c.notify("initialized", {})
    time.sleep(0.3)
    uris = []
    for k, (name, lang, text) in enumerate(texts):
        p = os.path.join(docdir, name)
        with open(p, "w") as f:
            f.write(text)
        uri = "file://" + p
        uris.append(uri)
        n0 = len(c.notifications)
        c.notify("textDocument/didOpen", {"textDocument": {"uri": uri, "languageId": lang, "version": 1, "text": text}})
        diags = c.wait_publish(uri, n0) or []
        c.notify("textDocument/didChange", {"textDocument": {"uri": uri, "version": 2}, "contentChanges": [{"text": text + " Another teh line."}]})
        acts = c.request("textDocument/codeAction", {"textDocument": {"uri": uri}, "range": diags[0]["range"] if diags else {"start": {"line": 0, "character": 0}, "end": {"line": 0, "character": 1}},
                                                     "context": {"diagnostics": []}})
        # the editor asks for code actions wherever the cursor goes: sweep the whole document
        # (HarperOpen is offered on URLs; it is never executed here)
        lines = text.split("\n")
        swept = 0
        for li, line in enumerate(lines):
            for ch in range(0, len(line) + 1, sweep_step):
                pos = {"line": li, "character": ch}
                c.request("textDocument/codeAction", {"textDocument": {"uri": uri}, "range": {"start": pos, "end": pos}, "context": {"diagnostics": []}})
                swept += 1
        c.swept = getattr(c, "swept", 0) + swept
        cmds = []
        for a in (acts or {}).get("result") or []:
            cmd = a.get("command") if isinstance(a.get("command"), dict) else (a if "command" in a and isinstance(a["command"], str) else None)
            if cmd and cmd.get("command") != "HarperOpen":
                cmds.append(cmd)
        for cmd in cmds:
            c.request("workspace/executeCommand", {"command": cmd["command"], "arguments": cmd.get("arguments", [])})
        c.request("workspace/executeCommand", {"command": "HarperAddToUserDict", "arguments": ["zzyzxq", uri]})
        c.request("workspace/executeCommand", {"command": "HarperAddToFileDict", "arguments": ["qwertzuv", uri]})
        c.notify("textDocument/didSave", {"textDocument": {"uri": uri}})
    c.notify("workspace/didChangeConfiguration", {"settings": c.settings})
    time.sleep(0.3)
    c.notify("workspace/didChangeWatchedFiles", {"changes": [{"uri": uris[0], "type": 3}]})
    for uri in uris[1:]:
        c.notify("textDocument/didClose", {"textDocument": {"uri": uri}})
    time.sleep(0.2)
    c.request("shutdown")
    c.notify("exit", None)
    time.sleep(0.2)


SENSITIVE = ["https://nightjar-internal.example.com/path?q=1", "http://example.org:8080/x", "ftp://files.example.net/a.txt",
             "bob@corp.example.com", "www.example.com", "ws://socket.example.com", "wss://secure.example.com:443/ws",
             "file:///etc/hostname", "/etc/passwd", "192.168.1.10:22", "localhost:3000", "mailto:alice@example.com",
             "[the guide](https://docs.example.com/guide)", "<https://auto.example.io>", "![img](http://img.example.com/a.png)",
             "ssh://git@git.example.com/repo.git", "\\\\fileserver\\share", "~/.ssh/id_rsa", "C:\\Users\\bob\\notes.txt"]
LANGS = [("txt", "plaintext", ""), ("md", "markdown", ""), ("rs", "rust", "// "), ("py", "python", "# "), ("js", "javascript", "// "),
         ("ts", "typescript", "// "), ("go", "go", "// "), ("c", "c", "// "), ("java", "java", "// "), ("lua", "lua", "-- "),
         ("rb", "ruby", "# "), ("sh", "shellscript", "# "), ("toml", "toml", "# "), ("html", "html", ""), ("typ", "typst", ""),
         ("lhs", "lhaskell", ""), ("txt", "git-commit", ""), ("xyz", "no-such-language", "")]


def random_session(c, docdir, rng, corpus, ndocs=4, nops=18, pol=None):
    """A random session: documents in random languages whose prose names hosts, addresses and files;
    random edits, code-action requests anywhere, every offered command except HarperOpen, dictionary
    commands, saves, configuration changes, closes and re-opens, deletions."""
    c.request("initialize", {"capabilities": {}, "processId": None, "rootUri": None})
    c.notify("initialized", {})
    time.sleep(0.2)

    def make_text(prefix):
        lines = []
        for _ in range(rng.randint(1, 4)):
            words = [rng.choice(corpus)]
            for _ in range(rng.randint(1, 3)):
                words.insert(rng.randint(0, len(words)), rng.choice(SENSITIVE))
            lines.append(prefix + " ".join(words).replace("\n", " "))
        return "\n".join(lines) + ("\n" if rng.random() < 0.7 else "")

    docs = []
    for k in range(ndocs):
        ext, lang, prefix = rng.choice(LANGS)
        path = os.path.join(docdir, f"r{k}.{ext}")
        text = make_text(prefix)
        with open(path, "w") as f:
            f.write(text)
        uri = "file://" + path if rng.random() < 0.85 else f"untitled:Untitled-{k}"
        if uri.startswith("file://") and rng.random() < 0.35:
            # the same kind of document under a URI with escaped characters (the file need not exist)
            uri = "file://" + docdir + "/" + rng.choice([f"sub%2F..%2F..%2F..%2Fout{k}.{ext}", f"%2Ftmp%2Fhv_escape%2Fr{k}.{ext}", f"a%20b/r{k}%2Etxt.{ext}",
                                                          f"r{k}%2f%2e%2e%2fup.{ext}", f"caf%C3%A9/r{k}.{ext}"])
            if pol is not None:
                pol.setdefault("fileDictNames", set()).add(flat_name(uri))
        docs.append({"uri": uri, "path": path, "lang": lang, "prefix": prefix, "text": text, "open": False, "ver": 1})
    for d in docs:
        c.notify("textDocument/didOpen", {"textDocument": {"uri": d["uri"], "languageId": d["lang"], "version": 1, "text": d["text"]}})
        d["open"] = True
    for opi in range(nops):
        d = rng.choice(docs)
        op = "moveuser" if (opi == nops // 2 and d["open"] and pol is not None and not pol.get("retired")) else rng.choice(["change", "action", "action", "action", "adduser", "addfile", "save", "config", "close", "delete", "moveuser"])
        if not d["open"]:
            c.notify("textDocument/didOpen", {"textDocument": {"uri": d["uri"], "languageId": d["lang"], "version": 1, "text": d["text"]}})
            d["open"] = True
            continue
        if op == "change":
            d["text"] = make_text(d["prefix"])
            d["ver"] += 1
            c.notify("textDocument/didChange", {"textDocument": {"uri": d["uri"], "version": d["ver"]}, "contentChanges": [{"text": d["text"]}]})
        elif op == "action":
            lines = d["text"].split("\n")
            li = rng.randrange(len(lines))
            ch = rng.randint(0, len(lines[li]))
            pos = {"line": li, "character": ch}
            end = {"line": li, "character": min(len(lines[li]), ch + rng.choice([0, 0, 1, 8]))}
            acts = c.request("textDocument/codeAction", {"textDocument": {"uri": d["uri"]}, "range": {"start": pos, "end": end}, "context": {"diagnostics": []}})
            for a in ((acts or {}).get("result") or [])[:4]:
                cmd = a.get("command") if isinstance(a.get("command"), dict) else (a if isinstance(a.get("command"), str) else None)
                if cmd and cmd.get("command") != "HarperOpen":
                    c.request("workspace/executeCommand", {"command": cmd["command"], "arguments": cmd.get("arguments", [])})
        elif op == "adduser":
            c.request("workspace/executeCommand", {"command": "HarperAddToUserDict", "arguments": [rng.choice(["zzyzxq", "nightjar", "Ünï"]), d["uri"]]})
        elif op == "addfile":
            c.request("workspace/executeCommand", {"command": "HarperAddToFileDict", "arguments": [rng.choice(["qwertzuv", "example"]), d["uri"]]})
        elif op == "save":
            if d["uri"].startswith("file://"):
                with open(d["path"], "w") as f:
                    f.write(d["text"])
            c.notify("textDocument/didSave", {"textDocument": {"uri": d["uri"]}})
        elif op == "config":
            st = json.loads(json.dumps(c.settings))
            st["harper-ls"]["dialect"] = rng.choice(["American", "British", "Australian", "Canadian"])
            st["harper-ls"]["linters"] = {"SpelledNumbers": rng.random() < 0.5, "SpellCheck": rng.random() < 0.8}
            st["harper-ls"]["isolateEnglish"] = rng.random() < 0.3
            c.settings = st
            c.notify("workspace/didChangeConfiguration", {"settings": st})
        elif op == "moveuser" and pol is not None and not pol.get("retired"):
            # the settings name another user dictionary from now on; the server is not told, it finds out when it
            # next asks (every document update does). Once it has published for that update, the old place is retired.
            st = json.loads(json.dumps(c.settings))
            old_path = st["harper-ls"]["userDictPath"]
            new_path = os.path.join(os.path.dirname(os.path.dirname(old_path)), "moved", "words.txt")
            st["harper-ls"]["userDictPath"] = new_path
            c.settings = st
            n0 = len(c.notifications)
            d["ver"] += 1
            c.notify("textDocument/didChange", {"textDocument": {"uri": d["uri"], "version": d["ver"]}, "contentChanges": [{"text": d["text"]}]})
            c.wait_publish(d["uri"], n0)
            pol["retired"] = [(os.path.normpath(old_path), time.time())]
            pol["userDict"] = os.path.normpath(new_path)
            c.request("workspace/executeCommand", {"command": "HarperAddToUserDict", "arguments": ["movedword", d["uri"]]})
        elif op == "close":
            c.notify("textDocument/didClose", {"textDocument": {"uri": d["uri"]}})
            d["open"] = False
        elif op == "delete":
            c.notify("workspace/didChangeWatchedFiles", {"changes": [{"uri": d["uri"], "type": 3}]})
    # a last request so that everything before it has been handled
    c.request("textDocument/codeAction", {"textDocument": {"uri": docs[0]["uri"]}, "range": {"start": {"line": 0, "character": 0}, "end": {"line": 0, "character": 0}}, "context": {"diagnostics": []}})
    time.sleep(0.3)
    c.request("shutdown")
    c.notify("exit", None)
    time.sleep(0.2)
    return [(d["lang"], d["text"][:80]) for d in docs]
