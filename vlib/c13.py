"""C13 — overlap removal returns a conflict-free sub-list (DESIGN.md section 4, C13)."""
import json
import re
import subprocess
import os

from . import common, corpus
from .common import SPEC


def gen_cases(v, wd, cfgname):
    """(R) generation: TLC prints one CASE line per finished behaviour of MC_Overlaps."""
    r = common.tlc(os.path.join(SPEC, "mc", "MC_Overlaps.tla"),
                   os.path.join(SPEC, "mc", cfgname), "c13_gen", workers=4, coverage=False)
    cases = []
    for line in r.prints:
        p = common.parse_print(line)
        if p and p[0] == "CASE":
            cases.append(p[1])
    path = os.path.join(wd, "cases.ndjson")
    with open(path, "w") as f:
        for c in cases:
            f.write(json.dumps(c) + "\n")
    return path, len(cases), r


def validate(v, trace, name):
    files = common.split_ndjson(trace, 20000, os.path.dirname(trace), name)
    res = common.validate_traces_parallel(os.path.join(SPEC, "trace", "Trace_Overlaps.tla"),
                                          os.path.join(SPEC, "trace", "Trace_Overlaps.cfg"),
                                          files, "c13_" + name)
    nontrivial = set()
    for f, consumed, rejects in res:
        evs = common.read_ndjson(f)
        if consumed != len(evs):
            raise common.ToolError(f"trace {f}: consumed {consumed} of {len(evs)} events")
        v.cov["traces_validated_against_impl"] += len(evs)
        v.cov["evaluations"] += len(evs)
        for e in evs:
            if e.get("ev") == "Case" and len(e["out"]) < len(e["in"]):
                nontrivial.add(json.dumps([[x["s"], x["e"]] for x in e["in"]]))
        if len(v.cov["samples"]) < 6:
            v.cov["samples"] += [e for e in evs if e.get("ev") == "Case" and len(e["in"]) >= 3][:2]
        for rej in rejects:
            line, reason = rej[0], rej[1]
            e = evs[line - 1]
            spans = [[x["s"], x["e"]] for x in e.get("in", [])]
            sig = {"kind": "postcondition", "reason": reason, "in": spans}
            if e.get("src") in ("cli", "wasm"):
                sig = {"kind": "postcondition", "reason": reason, "reported_by": e["src"], "single_rule": len(e.get("rules") or []) == 1}
            v.failure(sig, {"event": e, "how": "hv c13 --cases <file with the 'in' list>; reported_by cli: harper-cli lint doc.md [-o rule]... on event.text"})
        for e in evs:
            if e.get("ev") == "Panic":
                v.failure({"kind": "panic", "loc": common_panic_loc(e["loc"])},
                          {"event": e})
    return len(nontrivial)


def common_panic_loc(desc):
    parts = desc.split(":")
    return ":".join(parts[:2])


CLI_BIN = os.path.join(common.HARNESS, "target", "release", "harper-cli-real")
ANSI = re.compile(r"\x1b\[[0-9;]*m")
RUNS = ["the the the", "in in in in", "teh teh teh", "is is is a an", "an an apple", "a a a", "very very very", "to to too",
        "there there their", "THE THE the", "that that that that", "it it it it it"]
RULES = ["RepeatedWords", "SpellCheck", "AnA", "SentenceCapitalization", "LongSentences", "Spaces", "CompoundNouns", "Matcher",
         "UnclosedQuotes", "CorrectNumberSuffix", "WrongQuotes", "PronounContraction"]


def read_report(text, report):
    """[(hook column, message)] of a `harper-cli lint` report on a one-line ASCII document, or None when it cannot be read."""
    lines = ANSI.sub("", report).splitlines()
    src = [i for i, l in enumerate(lines) if re.match(r"\s*1 │ ", l)]
    if len(src) != 1:
        return None
    off = lines[src[0]].index("│") + 2
    if lines[src[0]][off:].rstrip() != text.rstrip():
        return None
    out = []
    for l in lines[src[0] + 1:]:
        m = re.search(r"╰─+ (.*)$", l)
        if m:
            out.append((l.index("╰") - off, m.group(1).rstrip()))
    hooks = lines[src[0] + 1].count("┬") if len(lines) > src[0] + 1 else 0
    if hooks != len(out):
        return None        # two labels hanging from one column, or a layout this reader does not know
    return out


def cli_stage(v, wd, corp, trace, njobs):
    """The lints the command-line tool reports are overlap removal applied to what its rules produced:
    the report of the real harper-cli binary is read back (label hook = middle of the span, message) and
    matched against the raw lints of the same pipeline; the result joins the trace as Case events."""
    import random
    rng = random.Random(v.seed)
    sentences = [json.loads(l) for l in open(corp)]
    sentences = [x for x in sentences if x.isascii() and "\n" not in x and "\t" not in x and 10 <= len(x) <= 90] or ["This is a sentence."]
    jobs = []
    for k in range(njobs):
        ws = rng.choice(sentences).split(" ")
        at = rng.randrange(len(ws) + 1)
        text = " ".join(ws[:at] + [rng.choice(RUNS)] + ws[at:])
        if k % 3 == 2:
            text += " " + rng.choice(RUNS) + "."
        m = k % 5
        rules = None if m == 0 else ["RepeatedWords"] if m == 1 else [rng.choice(RULES)] if m == 2 else rng.sample(RULES, 2 if m == 3 else 4)
        if m >= 3 and "RepeatedWords" not in rules and k % 2:
            rules[0] = "RepeatedWords"
        jobs.append({"text": text, "rules": rules, "dialect": ["American", "British"][k % 2]})
    jf = os.path.join(wd, "cli_jobs.ndjson")
    with open(jf, "w") as f:
        for j in jobs:
            f.write(json.dumps(j) + "\n")
    rc, out, err = common.run_hv(["c13cli", "--jobs", jf], timeout=1800)
    if rc != 0:
        raise common.ToolError("hv c13cli failed: " + err[-1500:])
    raws = [json.loads(l) for l in out.splitlines() if l.strip()]
    if len(raws) != len(jobs):
        raise common.ToolError("hv c13cli: wrong number of answers")

    def one(k):
        j = jobs[k]
        d = os.path.join(wd, f"cli_{k}")
        os.makedirs(os.path.join(d, "fd"), exist_ok=True)
        open(os.path.join(d, "ud.txt"), "w").close()
        with open(os.path.join(d, "doc.md"), "w") as f:
            f.write(j["text"] + ("\n" if k % 2 else ""))
        args = [CLI_BIN, "lint", "doc.md", "-u", "ud.txt", "-f", "fd", "-d", j["dialect"]]
        for r in j["rules"] or []:
            args += ["-o", r]
        p = subprocess.run(args, cwd=d, stdout=subprocess.PIPE, stderr=subprocess.PIPE, text=True, timeout=120,
                           env=dict(os.environ, HOME=d, XDG_CONFIG_HOME=d, XDG_DATA_HOME=d))
        return p.returncode, p.stdout, p.stderr
    from concurrent.futures import ThreadPoolExecutor
    with ThreadPoolExecutor(max_workers=8) as ex:
        results = list(ex.map(one, range(len(jobs))))
    n_read = n_unread = n_overlapping_raw = 0
    with open(trace, "a") as f:
        for j, raw, (rc, so, se) in zip(jobs, raws, results):
            if "panic" in raw:
                continue
            raw = raw["raw"]
            if "panicked at" in se:
                f.write(json.dumps({"ev": "Panic", "src": "cli", "text": j["text"], "loc": se[-300:]}) + "\n")
                continue
            if "No lints found" in so:
                rep = []
            else:
                rep = read_report(j["text"], so)
            if rep is None:
                n_unread += 1
                continue
            # each reported label -> the raw lints with that message and that middle
            outl, used, ok = [], set(), True
            for col, msg in rep:
                c = [i for i, x in enumerate(raw) if i not in used and x["msg"] == msg and max((x["s"] + x["e"]) // 2, x["s"]) == col]
                spans = {(raw[i]["s"], raw[i]["e"]) for i in c}
                if len(spans) > 1:
                    ok = False      # two different spans fit this label: not decidable from the report
                    break
                if c:
                    used.add(c[0])
                    outl.append({"id": c[0] + 1, "s": raw[c[0]]["s"], "e": raw[c[0]]["e"], "dig": "m"})
                else:
                    outl.append({"id": 0, "s": col, "e": col + 1, "dig": "?"})
            if not ok:
                n_unread += 1
                continue
            n_read += 1
            inl = [{"id": i + 1, "s": x["s"], "e": x["e"], "dig": "m"} for i, x in enumerate(raw)]
            if any(a["s"] < b["e"] and b["s"] < a["e"] for i, a in enumerate(raw) for b in raw[i + 1:]):
                n_overlapping_raw += 1
            f.write(json.dumps({"ev": "Case", "src": "cli", "in": inl, "out": outl, "text": j["text"], "rules": j["rules"] or []}) + "\n")
    if n_read < njobs // 2:
        raise common.ToolError(f"harper-cli reports: only {n_read} of {njobs} could be read back")
    v.cov["cli_reports"] = {"read_back": n_read, "not_decidable": n_unread, "with_overlapping_raw_lints": n_overlapping_raw}


def run(v):
    wd = common.workdir("c13")
    thorough = v.tier == "thorough"
    # (M) algorithm-level model refines the property, exhaustively within bounds
    cfg = "MC_Overlaps_thorough.cfg" if thorough else "MC_Overlaps_quick.cfg"
    r = common.tlc(os.path.join(SPEC, "mc", "MC_Overlaps.tla"), os.path.join(SPEC, "mc", cfg),
                   "c13_mc", workers=8, timeout=1800)
    if r.violated:
        # design-level counterexample: reproduce through (R) below; report regardless
        v.failure({"kind": "model", "invariant": r.violated}, {"tlc_output": r.output[-3000:]})
    common.check_coverage(r, ["SweepDrop", "SweepKeep", "RetainStep", "EarlyReturn"], "MC_Overlaps")
    v.add_mc("MC_Overlaps/" + cfg, r, "all lint lists within MaxN/MaxPos; invariants "
             "AlgRefinesProperty, AlgMatchesClosedForm")
    # (R) TLC behaviours replayed into harper_core::remove_overlaps
    # a deviation seeded twice (the running end also moves for dropped lints) must be refuted
    rd = common.tlc(os.path.join(SPEC, "mc", "MC_Overlaps.tla"), os.path.join(SPEC, "mc", "MC_Overlaps_dev_cursor.cfg"), "c13_mc_dev",
                    workers=2, timeout=600, coverage=False)
    if rd.violated != "AlgRefinesProperty":
        raise common.ToolError("MC_Overlaps: the cursor-on-dropped deviation is not refuted (vacuous invariant)")
    cases, ncases, rg = gen_cases(v, wd, "MC_Overlaps_gen_thorough.cfg" if thorough else "MC_Overlaps_gen.cfg")
    _, corp = corpus.harvest()
    trace = os.path.join(wd, "trace.ndjson")
    rc, out, err = common.run_hv(["c13", "--cases", cases, "--out", trace, "--seed", v.seed,
                                  "--random", 200000 if thorough else 20000,
                                  "--corpus", corp, "--docs", 5000 if thorough else 600, "--wasm-docs", 3000 if thorough else 400])
    if rc != 0:
        raise common.ToolError("hv c13 failed: " + err[-2000:])
    cli_stage(v, wd, corp, trace, 400 if thorough else 60)
    # (T)
    nontriv = validate(v, trace, "t")
    v.cov["distinct_nontrivial"] = nontriv
    v.cov["rule"] = ("cases = every list of <= MaxN spans over 0..MaxPos generated by TLC from "
                     "MC_Overlaps (exhaustive), plus seeded random lists of <= 40 spans, plus lint "
                     "lists produced by all rules on corpus sentences; non-trivial = distinct span "
                     "lists from which at least one lint was dropped")
    v.cov["tlc_cases_replayed"] = ncases
    v.cov["exhaustive"] = False
    v.assumptions += ["lint identity is carried in the message field; digest of the serialised "
                      "lint stands for 'nothing altered'"]
    return v.finish()


def replay(v, path):
    rep = json.load(open(path))
    ev = rep["replay"].get("event")
    wd = common.workdir("c13_replay")
    cases = os.path.join(wd, "cases.ndjson")
    with open(cases, "w") as f:
        f.write(json.dumps([{"id": x["id"], "s": x["s"], "e": x["e"]} for x in ev["in"]]) + "\n")
    trace = os.path.join(wd, "trace.ndjson")
    rc, out, err = common.run_hv(["c13", "--cases", cases, "--out", trace, "--seed", rep.get("seed", 1)])
    validate(v, trace, "r")
    return v.finish()
