"""C07 — words the user adds to a dictionary are accepted from then on and never lost."""
import json
import os

from . import common
from .common import SPEC
from .c05 import split_sessions

TRACE_TLA = os.path.join(SPEC, "trace", "Trace_DictFile.tla")
TRACE_CFG = os.path.join(SPEC, "trace", "Trace_DictFile.cfg")


def validate(v, trace, name):
    files = split_sessions(trace, os.path.dirname(trace), name, max_events=3000)
    res = common.validate_traces_parallel(TRACE_TLA, TRACE_CFG, files, "c07_" + name, procs=8)
    distinct = set()
    sessions = 0
    for f, consumed, rejects in res:
        evs = common.read_ndjson(f)
        if consumed != len(evs):
            raise common.ToolError(f"trace {f}: consumed {consumed} of {len(evs)} events")
        v.cov["evaluations"] += len(evs)
        start = 0
        for i, e in enumerate(evs):
            if e["ev"] == "Reset":
                if i > start:
                    distinct.add(tuple((x["ev"], x.get("scope"), x.get("w"), x.get("at")) for x in evs[start:i] if x["ev"] in ("Added", "Crashed", "Restart")))
                sessions += 1
                start = i
        if len(v.cov["samples"]) < 5:
            v.cov["samples"] += [e for e in evs if e["ev"] == "Crashed"][:1]
            v.cov["samples"] += [e for e in evs if e["ev"] == "Reloaded" and e["words"]][:1]
        for rej in rejects:
            e = evs[rej[0] - 1]
            sig = {"kind": rej[1]}
            k = rej[0] - 1
            while k > 0 and evs[k]["ev"] != "Reset":
                if evs[k].get("percent_in_segment"):
                    sig["percent_in_a_path_segment"] = True
                k -= 1
            v.failure(sig, {"event": e, "session_file": f, "line": rej[0]})
    v.cov["traces_validated_against_impl"] += sessions
    return len(distinct)


def run(v):
    wd = common.workdir("c07")
    thorough = v.tier == "thorough"
    t = "thorough" if thorough else "quick"
    r = common.tlc(os.path.join(SPEC, "mc", "MC_DictFile.tla"), os.path.join(SPEC, "mc", f"MC_DictFile_{t}.cfg"),
                   "c07_mc", workers=8, timeout=3000)
    if r.violated:
        v.failure({"kind": "model", "invariant": r.violated}, {"tlc_output": r.output[-3000:]})
    common.check_coverage(r, ["Load", "Create", "WriteFlush", "Done", "Crash"], "MC_DictFile")
    v.add_mc(f"MC_DictFile/{t}", r, "all histories of <= 3 add-word commands over {a, A, b}, starting from no file, an empty file or a "
             "hand-written file of one or two words with or without a final line terminator, with a crash between any two "
             "steps of a save: NeverLosesExceptKnown (named deviations: truncate-before-write, case-folded ids)")
    rs = common.tlc(os.path.join(SPEC, "mc", "MC_DictFile.tla"), os.path.join(SPEC, "mc", "MC_DictFile_strict.cfg"),
                    "c07_mc_strict", workers=4, timeout=900, coverage=False)
    v.cov["design_level_counterexample_without_named_deviations"] = bool(rs.violated)
    # a seeded deviation (append the word instead of rewriting the file) must be refuted
    rd = common.tlc(os.path.join(SPEC, "mc", "MC_DictFile.tla"), os.path.join(SPEC, "mc", "MC_DictFile_dev_append.cfg"),
                    "c07_mc_dev", workers=2, timeout=600, coverage=False)
    if rd.violated != "NeverLosesExceptKnown":
        raise common.ToolError("MC_DictFile: the append-only deviation is not refuted (vacuous invariant)")
    rt = common.tlc(os.path.join(SPEC, "mc", "MC_DictFile.tla"), os.path.join(SPEC, "mc", "MC_DictFile_dev_tempexcl.cfg"),
                    "c07_mc_dev_temp", workers=2, timeout=600, coverage=False)
    if rt.violated != "EveryFinishedAddSticks":
        raise common.ToolError("MC_DictFile: the exclusive-temporary-file deviation is not refuted (vacuous invariant)")
    # the file-dictionary naming map: every name fits, different documents get different names; the code
    # before the repair (no shortening) and a seeded deviation (digest of the tail) must be refuted
    rn = common.tlc(os.path.join(SPEC, "mc", "MC_FileDictName.tla"), os.path.join(SPEC, "mc", "MC_FileDictName_quick.cfg"),
                    "c07_mc_name", workers=2, timeout=600, coverage=False)
    if rn.violated:
        v.failure({"kind": "model", "invariant": rn.violated}, {"tlc_output": rn.output[-3000:]})
    v.add_mc("MC_FileDictName", rn, "paths of <= 8 segments against a scaled name limit: Fits, Distinct")
    for dev, inv in (("dev_unshortened", "Fits"), ("dev_tail", "Distinct")):
        rx = common.tlc(os.path.join(SPEC, "mc", "MC_FileDictName.tla"), os.path.join(SPEC, "mc", f"MC_FileDictName_{dev}.cfg"),
                        "c07_mc_name_dev", workers=2, timeout=600, coverage=False)
        if rx.violated != inv:
            raise common.ToolError(f"MC_FileDictName: deviation {dev} is not refuted (vacuous invariant)")
    # where the user dictionary lives: announced and silent moves of the setting, pulls, adds (bound by the Moved / Stray events)
    rp = common.tlc(os.path.join(SPEC, "mc", "MC_DictPath.tla"), os.path.join(SPEC, "mc", "MC_DictPath_quick.cfg"), "c07_mc_path",
                    workers=2, timeout=600, coverage=False)
    if rp.violated:
        v.failure({"kind": "model", "invariant": rp.violated}, {"tlc_output": rp.output[-3000:]})
    v.add_mc("MC_DictPath", rp, "two locations, silent and announced moves of the setting, pulls and adds: SavedWhereConfigured")
    rpc = common.tlc(os.path.join(SPEC, "mc", "MC_DictPath.tla"), os.path.join(SPEC, "mc", "MC_DictPath_dev_cache.cfg"), "c07_mc_path_dev",
                     workers=2, timeout=600, coverage=False)
    if rpc.violated != "SavedWhereConfigured":
        raise common.ToolError("MC_DictPath: the path-cache deviation is not refuted (vacuous invariant)")
    r2 = common.tlc(os.path.join(SPEC, "mc", "MC_JsLinter.tla"), os.path.join(SPEC, "mc", "MC_JsLinter_quick.cfg"),
                    "c07_mc_js", workers=8, timeout=1800, coverage=False)
    if r2.violated:
        v.failure({"kind": "model", "invariant": r2.violated}, {"tlc_output": r2.output[-3000:]})
    v.add_mc("MC_JsLinter (ImportedWordsAccepted)", r2, "the JS import call")
    trace = os.path.join(wd, "trace.ndjson")
    rc, out, err = common.run_hv(["c07", "--out", trace, "--seed", v.seed, "--histories", 1500 if thorough else 60,
                                  "--max-polls", 60 if thorough else 40], timeout=7200)
    if rc != 0:
        raise common.ToolError("hv c07 failed: " + err[-2000:])
    v.cov["distinct_nontrivial"] = validate(v, trace, "t")
    v.cov["rule"] = ("sessions on the real harper-ls Backend (in process) over a real directory with two open documents: "
                     "(1b) a dictionary file that exists before the server starts (one or two words, LF or CRLF, last line "
                     "terminated or not), then adds to both scopes and a restart; (1) for the user and the file dictionary, one completed add followed by a second add killed after k "
                     "polls of its handler, for every k until the command finishes (every await point of the save); (2) "
                     "random histories of user/file adds (case variants, non-ASCII), restarts and crashes; after every "
                     "step the dictionary files are read back and both documents re-published; distinct = distinct "
                     "histories")
    v.assumptions += ["a crash is modelled by dropping the command's future (and the server) after k polls, once the "
                      "blocking file-system operation it started has completed; kernel-level torn writes are not modelled",
                      "the JS import_words variant of this property is checked by C16's sessions"]
    return v.finish()


def replay(v, path):
    rep = json.load(open(path))
    print(json.dumps(rep["replay"]["event"], ensure_ascii=False)[:2000])
    sf = rep["replay"].get("session_file")
    if sf and os.path.exists(sf):
        validate(v, sf, "r")
    return v.finish()
