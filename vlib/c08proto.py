"""C08 at the protocol level: the real harper-ls binary over stdio, with a client that offers
position encodings (LSP 3.17).  Everything is read in the unit the server announces (UTF-16 when
it announces none).  Needs nothing from the harness crate except the harper-ls-real binary, so it
also runs when harper-ls internals were reshaped."""
import json
import os
import random
import subprocess
import time

from . import common, lspclient

LS_BIN = os.path.join(common.HARNESS, "target", "release", "harper-ls-real")
OFFERS = [None, ["utf-16"], ["utf-8", "utf-16"], ["utf-32", "utf-16"], ["utf-8"], ["utf-32"], ["utf-16", "utf-8"], ["ucs-2", "utf-32", "utf-16"]]
FLAGGED = ["teh", "an test", "there is is", "wich", "could of", "the the", "1nd", "recieve", "alot of"]
FILLS = ["😀", "é", "\t", "𝒳𝒴", "é", "plain", "👍🏽 ok", "漢字", "ß–", "🇩🇪", "naïve café"]


def width(ch, enc):
    if enc == "utf-32":
        return 1
    if enc == "utf-16":
        return 2 if ord(ch) > 0xFFFF else 1
    return len(ch.encode("utf-8"))


def cls(ch):
    if ch == "\n":
        return "NL"
    if ch == "\r":
        return "CR"
    n = len(ch.encode("utf-8"))
    return {4: "a", 3: "b3", 2: "b2"}.get(n, "b1")


def pos_of(text, i, enc):
    ls = text.rfind("\n", 0, i) + 1
    return [text.count("\n", 0, i), sum(width(c, enc) for c in text[ls:i])]


def offset_of(text, pos, enc):
    line, col = pos["line"], pos["character"]
    i = 0
    for _ in range(line):
        k = text.find("\n", i)
        if k < 0:
            return None
        i = k + 1
    c = 0
    while True:
        if c == col:
            return i
        if i >= len(text) or text[i] == "\n" or c > col:
            return None
        c += width(text[i], enc)
        i += 1


def cps(s):
    return [ord(c) for c in s]


def rj(r):
    return [[r["start"]["line"], r["start"]["character"]], [r["end"]["line"], r["end"]["character"]]]


def apply_suggestion(text, s, e, sugg):
    """(text after Suggestion::apply, the new_text the edit must carry)"""
    if sugg == "Remove":
        return text[:s] + text[e:], ""
    if "ReplaceWith" in sugg:
        w = "".join(sugg["ReplaceWith"])
        return text[:s] + w + text[e:], w
    w = "".join(sugg["InsertAfter"])
    return text[:e] + w + text[e:], text[s:e] + w


def make_docs(rng, corpus, n):
    docs = []
    for i in range(n):
        nl = "\r\n" if i % 3 == 0 else "\n"
        fill = FILLS[i % len(FILLS)]
        lines = rng.randint(1, 4)
        t = ""
        for k in range(lines):
            if rng.random() < 0.6:
                t += fill + " "
            if k == 0 or k + 1 == lines or rng.random() < 0.5:
                t += rng.choice(FLAGGED) + " "
            if rng.random() < 0.4:
                t += rng.choice(FILLS) + " "
            t += rng.choice(corpus)[:80].replace("\n", " ")
            if k + 1 < lines:
                t += nl
        m = i % 4
        if m == 0:
            t += nl
        elif m == 1:
            t += " " + fill + " " + rng.choice(FLAGGED)
        lang = ["plaintext", "markdown", "plaintext", "rust", "python"][i % 5]
        if lang == "rust":
            t = "\n".join("// " + x for x in t.split("\n"))
        elif lang == "python":
            t = "".join("# " + x + "\n" for x in t.split("\n"))
        docs.append((lang, t))
    return docs


def actions_of(reply, uri):
    """(list of (range, new_text) edits, list of embedded lints of HarperIgnoreLint commands)"""
    edits, lints = [], []
    for a in (reply or {}).get("result") or []:
        if isinstance(a.get("command"), str):
            if a["command"] == "HarperIgnoreLint" and len(a.get("arguments") or []) > 1:
                lints.append(a["arguments"][1])
        else:
            for tes in ((a.get("edit") or {}).get("changes") or {}).values():
                for te in tes:
                    edits.append((rj(te["range"]), te["newText"]))
    return edits, lints


def check_diags(c, uri, text, diags, enc, events, stats):
    """Every given diagnostic of the document the editor holds: the lint behind it, code actions at every character
    of its range, every quick fix applied client-side."""
    for d in diags:
        stats["diags"] += 1
        rep = c.request("textDocument/codeAction", {"textDocument": {"uri": uri}, "range": d["range"], "context": {"diagnostics": []}})
        _, lints = actions_of(rep, uri)
        cands = [x for x in lints if x.get("message") == d["message"]]
        a, b = offset_of(text, d["range"]["start"], enc), offset_of(text, d["range"]["end"], enc)
        if not cands and a is not None and b is not None:
            # perhaps another position inside the range returns it
            for at in range(a, b):
                p2 = pos_of(text, at, enc)
                pos = {"line": p2[0], "character": p2[1]}
                rep = c.request("textDocument/codeAction", {"textDocument": {"uri": uri}, "range": {"start": pos, "end": pos}, "context": {"diagnostics": []}})
                cands = [x for x in actions_of(rep, uri)[1] if x.get("message") == d["message"]]
                if cands:
                    break
        exact = [x for x in cands if [pos_of(text, x["span"]["start"], enc), pos_of(text, x["span"]["end"], enc)] == rj(d["range"])]
        lint = (exact or cands or [None])[0]
        if lint is None:
            events.append({"ev": "Diag", "s": -1, "e": -1, "range": rj(d["range"]), "message": d["message"]})
            continue
        s, e = lint["span"]["start"], lint["span"]["end"]
        events.append({"ev": "Diag", "s": s, "e": e, "range": rj(d["range"]), "message": d["message"]})
        if not (0 <= s < e <= len(text)):
            continue
        stats["spans"].add((text, s, e))
        for at in range(s, e):
            p2 = pos_of(text, at, enc)
            pos = {"line": p2[0], "character": p2[1]}
            rep = c.request("textDocument/codeAction", {"textDocument": {"uri": uri}, "range": {"start": pos, "end": pos}, "context": {"diagnostics": []}})
            edits, lints = actions_of(rep, uri)
            mine = [x for x in edits if x[0] == rj(d["range"])]
            found = any(x == lint for x in lints) and len(mine) >= len(lint.get("suggestions") or [])
            events.append({"ev": "Actions", "s": s, "e": e, "at": at, "pos": p2, "found": found, "nsugg": len(lint.get("suggestions") or [])})
            stats["positions"] += 1
            if at == s and len(text) <= 200:
                for sugg in lint.get("suggestions") or []:
                    want, new = apply_suggestion(text, s, e, sugg)
                    m = [x for x in mine if x[1] == new]
                    er, et = (m[0][0], m[0][1]) if m else (rj(d["range"]), "\u0000MISSING")
                    events.append({"ev": "Edit", "range": er, "new": cps(et), "before": cps(text), "t": [cls(ch) for ch in text],
                                   "want": cps(want), "edit_present": bool(m)})
                    stats["edits"] += 1


def session(wd, k, offer, docs, events, stats, grow=False):
    home = os.path.join(wd, f"home_{k}")
    docdir = os.path.join(home, "docs")
    os.makedirs(docdir, exist_ok=True)
    settings = {"harper-ls": {"userDictPath": os.path.join(home, "dict.txt"), "fileDictPath": os.path.join(home, "file_dicts"),
                              "statsPath": os.path.join(home, "stats.txt")}}
    env = dict(os.environ, HOME=home, XDG_CONFIG_HOME=os.path.join(home, "xc"), XDG_DATA_HOME=os.path.join(home, "xd"))
    errpath = os.path.join(home, "stderr.txt")
    p = subprocess.Popen([LS_BIN, "--stdio"], stdin=subprocess.PIPE, stdout=subprocess.PIPE, stderr=open(errpath, "wb"), env=env, cwd=home)
    last = {}
    c = lspclient.Client(p.stdout, p.stdin, settings)
    c.abort_check = lambda: b"panicked at" in open(errpath, "rb").read()
    try:
        caps = {} if offer is None else {"general": {"positionEncodings": offer}}
        r = c.request("initialize", {"capabilities": caps, "processId": None, "rootUri": None})
        announced = ((r.get("result") or {}).get("capabilities") or {}).get("positionEncoding") or "none"
        enc = "utf-16" if announced == "none" else announced
        events.append({"ev": "Init", "offered": offer or [], "announced": announced})
        if enc not in ("utf-8", "utf-16", "utf-32"):
            return
        c.notify("initialized", {})
        time.sleep(0.2)
        for j, (lang, text) in enumerate(docs):
            ext = {"plaintext": "txt", "markdown": "md", "rust": "rs", "python": "py"}[lang]
            uri = "file://" + os.path.join(docdir, f"d{j}.{ext}")
            n0 = len(c.notifications)
            c.notify("textDocument/didOpen", {"textDocument": {"uri": uri, "languageId": lang, "version": 1, "text": text}})
            diags = c.wait_publish(uri, n0)
            if diags is None:
                raise common.ToolError("no publishDiagnostics for a didOpen")
            events.append({"ev": "Doc", "t": [cls(ch) for ch in text], "text": text, "lang": lang, "ndiag": len(diags), "offer": offer or []})
            check_diags(c, uri, text, diags, enc, events, stats)
            c.notify("textDocument/didClose", {"textDocument": {"uri": uri}})
        if grow:
            # one document that grows far beyond any size an editor would hesitate about, and shrinks again: what the
            # server says must always be about the text the editor holds now
            uri = "file://" + os.path.join(docdir, "grow.txt")
            small = "Ths first line has an mistake.\nThe secnd line too.\n"
            filler = "".join(f"Line {i} is plain and has no problems at all in it whatsoever.\n" for i in range(2200))
            big = "A new frst line.\n\n" + filler + "The lst line has teh typo.\n"
            small2 = "Another txt now.\n"
            n0 = len(c.notifications)
            c.notify("textDocument/didOpen", {"textDocument": {"uri": uri, "languageId": "plaintext", "version": 1, "text": small}})
            diags = c.wait_publish(uri, n0, timeout=180)
            for ver, text in ((2, big), (3, small2), (4, big + "And one mor line.\n")):
                n0 = len(c.notifications)
                c.notify("textDocument/didChange", {"textDocument": {"uri": uri, "version": ver}, "contentChanges": [{"text": text}]})
                diags = c.wait_publish(uri, n0, timeout=300)
                if diags is None:
                    raise common.ToolError("no publishDiagnostics for a didChange")
                pick = diags if len(diags) <= 6 else diags[:3] + diags[-3:]
                tmp = []
                check_diags(c, uri, text, pick, enc, tmp, stats)
                # a text of this size is not something TLC should walk: every diagnostic is shown to it on its own line
                # (lints do not cross lines), with line numbers counted from the line the lint is really on
                for e in tmp:
                    if e["ev"] not in ("Diag", "Actions"):
                        continue
                    if e["s"] < 0:
                        events.append({"ev": "Doc", "t": [], "text": "", "lang": "plaintext", "ndiag": len(diags), "offer": offer or [], "grown": len(text.encode())})
                        events.append(e)
                        continue
                    ls = text.rfind("\n", 0, e["s"]) + 1
                    le = text.find("\n", e["s"])
                    line = text[ls:le if le >= 0 else len(text)]
                    tl = text.count("\n", 0, e["s"])
                    if e["ev"] == "Diag":
                        events.append({"ev": "Doc", "t": [cls(ch) for ch in line], "text": line, "lang": "plaintext", "ndiag": len(diags), "offer": offer or [], "grown": len(text.encode())})
                        events.append(dict(e, s=e["s"] - ls, e=e["e"] - ls, range=[[e["range"][0][0] - tl, e["range"][0][1]], [e["range"][1][0] - tl, e["range"][1][1]]]))
                    else:
                        events.append(dict(e, s=e["s"] - ls, e=e["e"] - ls, at=e["at"] - ls, pos=[e["pos"][0] - tl, e["pos"][1]]))
                stats["grown_bytes"] = max(stats.get("grown_bytes", 0), len(text.encode()))
        c.request("shutdown")
        c.notify("exit", None)
    except (RuntimeError, BrokenPipeError, OSError) as ex:
        err = open(errpath, errors="replace").read()
        if "panicked at" in err:
            # a handler that panics never answers (tower-lsp keeps serving); the panic message is the evidence
            k = err.index("panicked at")
            events.append({"ev": "Dead", "why": "panic: " + err[k:k + 300], "during": str(ex)[:120]})
        elif not c.alive or p.poll() is not None:
            events.append({"ev": "Dead", "why": str(ex)[:200]})
        else:
            raise common.ToolError(f"protocol session failed: {ex}")
    finally:
        try:
            p.kill()
        except Exception:
            pass
        p.wait()


def run(wd, seed, corpus, ndocs):
    """Returns (trace path, stats)."""
    rng = random.Random(seed)
    events = []
    stats = {"diags": 0, "positions": 0, "edits": 0, "spans": set(), "sessions": 0}
    corpus = [x for x in corpus if 8 <= len(x) <= 200] or ["This is a sentence."]
    for k, offer in enumerate(OFFERS):
        docs = make_docs(rng, corpus, ndocs)
        session(wd, k, offer, docs, events, stats, grow=(k == 0))
        stats["sessions"] += 1
    trace = os.path.join(wd, "proto.ndjson")
    with open(trace, "w") as f:
        for e in events:
            f.write(json.dumps(e) + "\n")
    return trace, stats
