"""C19 — the statistics log reads back exactly what was written, append after append."""
import json
import os

from . import common, corpus
from .common import SPEC

TRACE_TLA = os.path.join(SPEC, "trace", "Trace_StatsLog.tla")
TRACE_CFG = os.path.join(SPEC, "trace", "Trace_StatsLog.cfg")


def split_sessions(trace, outdir, name, max_events=6000):
    """Split at Reset boundaries so every file holds whole sessions."""
    os.makedirs(outdir, exist_ok=True)
    files, buf, idx = [], [], 0

    def flush():
        nonlocal buf, idx
        if buf:
            p = os.path.join(outdir, f"{name}_{idx:04d}.ndjson")
            open(p, "w").writelines(buf)
            files.append(p)
            buf, idx = [], idx + 1
    for line in open(trace):
        if line.startswith('{"ev":"Reset"') and len(buf) >= max_events:
            flush()
        buf.append(line)
    flush()
    return files


def validate(v, trace, name):
    files = split_sessions(trace, os.path.dirname(trace), name)
    res = common.validate_traces_parallel(TRACE_TLA, TRACE_CFG, files, "c19_" + name, procs=8)
    sessions = 0
    distinct = set()
    for f, consumed, rejects in res:
        evs = common.read_ndjson(f)
        if consumed != len(evs):
            raise common.ToolError(f"trace {f}: consumed {consumed} of {len(evs)} events")
        sessions += sum(1 for e in evs if e["ev"] == "Reset")
        v.cov["evaluations"] += len(evs)
        for e in evs:
            if e["ev"] == "Wrote" and e["recs"]:
                distinct.add(tuple((r["kind"], r["len"]) for r in e["recs"]))
        if len(v.cov["samples"]) < 5:
            v.cov["samples"] += [e for e in evs if e["ev"] == "Wrote" and len(e["recs"]) >= 2][:2]
        for rej in rejects:
            e = evs[rej[0] - 1]
            msg = e.get("msg", "")
            sig = {"kind": rej[1]}
            if rej[1] == "read-error":
                sig["msg"] = msg.split(" at line")[0][:80]
            v.failure(sig, {"event": e, "session_file": f, "line": rej[0]})
    v.cov["traces_validated_against_impl"] += sessions
    return len(distinct)


def run(v):
    wd = common.workdir("c19")
    thorough = v.tier == "thorough"
    t = "thorough" if thorough else "quick"
    r = common.tlc(os.path.join(SPEC, "mc", "MC_StatsLog.tla"), os.path.join(SPEC, "mc", f"MC_StatsLog_{t}.cfg"),
                   "c19_mc", workers=12, timeout=3000)
    if r.violated:
        v.failure({"kind": "model", "invariant": r.violated}, {"tlc_output": r.output[-3000:]})
    common.check_coverage(r, ["WriteRecord", "NewSession"], "MC_StatsLog")
    v.add_mc(f"MC_StatsLog/{t}", r, "all record lists within bounds over 9 character classes, any session "
             "boundaries: ReadsBack, NoRawBreakInRecord, SummaryCountsOnce")
    # reading at the grain of the reader's buffer: the blank-line shortcut a seeded change introduced must be refuted
    rb = common.tlc(os.path.join(SPEC, "mc", "MC_StatsLog.tla"), os.path.join(SPEC, "mc", "MC_StatsLog_dev_blank.cfg"), "c19_mc_dev",
                    workers=2, timeout=600, coverage=False)
    if rb.violated != "BufferedReadsBack":
        raise common.ToolError("MC_StatsLog: the blank-line-shortcut deviation is not refuted (vacuous invariant)")
    rg = common.tlc(os.path.join(SPEC, "mc", "MC_StatsLog.tla"), os.path.join(SPEC, "mc", "MC_StatsLog_gen.cfg"),
                    "c19_gen", workers=8, coverage=False, timeout=1800)
    cases = os.path.join(wd, "cases.ndjson")
    seen = set()
    n = 0
    with open(cases, "w") as f:
        for x in rg.prints:
            p = common.parse_print(x)
            if p and p[0] == "CASE":
                s = json.dumps(p[1])
                if s not in seen:
                    seen.add(s)
                    n += 1
                    # quick tier: every 4th case
                    if thorough or n % 4 == (v.seed % 4):
                        f.write(s + "\n")
    _, corp = corpus.harvest()
    trace = os.path.join(wd, "trace.ndjson")
    rc, out, err = common.run_hv(["c19", "--cases", cases, "--out", trace, "--seed", v.seed, "--corpus", corp,
                                  "--sessions", 3000 if thorough else 300,
                                  "--wasm-sessions", 200 if thorough else 20], timeout=7200)
    if rc != 0:
        raise common.ToolError("hv c19 failed: " + err[-2000:])
    # the same through the language server: HarperRecordLint commands, shutdown appends, several incarnations
    trace_ls = os.path.join(wd, "trace_ls.ndjson")
    rc, out, err = common.run_hv(["ls-stats", "--out", trace_ls, "--seed", v.seed, "--sessions", 200 if thorough else 25], timeout=7200)
    if rc != 0:
        raise common.ToolError("hv ls-stats failed: " + err[-2000:])
    with open(trace, "a") as f:
        f.write(open(trace_ls).read())
    v.cov["distinct_nontrivial"] = validate(v, trace, "t")
    v.cov["tlc_cases_generated"] = n
    # sessions in which statsPath changes while the server runs (StatsSession.tla)
    mc = os.path.join(SPEC, "mc", "MC_StatsSession.tla")
    rd = common.tlc(mc, os.path.join(SPEC, "mc", "MC_StatsSession_dev_keep.cfg"), "c19_ss_dev", workers=2, timeout=600, coverage=False)
    if rd.violated != "NeverTwice":
        raise common.ToolError("MC_StatsSession_dev_keep: TLC did not refute NeverTwice (vacuous invariant)")
    for cfg in ("MC_StatsSession_none", "MC_StatsSession_clear"):
        r = common.tlc(mc, os.path.join(SPEC, "mc", cfg + ".cfg"), "c19_" + cfg, workers=4, timeout=900, coverage=False)
        if r.violated:
            v.failure({"kind": "model", "invariant": r.violated, "cfg": cfg}, {"tlc_output": r.output[-3000:]})
        v.add_mc(cfg, r, "records applied, statsPath switched, shutdown, restart in every order within bounds: EachAppliedOnce, NeverTwice, InOrder")
    trace_sp = os.path.join(wd, "trace_paths.ndjson")
    rc, out, err = common.run_hv(["ls-stats-paths", "--out", trace_sp, "--seed", v.seed, "--sessions", 300 if thorough else 40], timeout=7200)
    if rc != 0:
        raise common.ToolError("hv ls-stats-paths failed: " + err[-2000:])
    consumed, rejects, rr = common.validate_trace(os.path.join(SPEC, "trace", "Trace_StatsSession.tla"),
                                                  os.path.join(SPEC, "trace", "Trace_StatsSession.cfg"), trace_sp, "c19_sp", timeout=900)
    evs = common.read_ndjson(trace_sp)
    if consumed != len(evs):
        raise common.ToolError(f"trace {trace_sp}: consumed {consumed} of {len(evs)} events")
    v.cov["evaluations"] += len(evs)
    v.cov["traces_validated_against_impl"] += sum(1 for e in evs if e["ev"] == "Reset")
    v.cov["path_switch_sessions"] = {"sessions": sum(1 for e in evs if e["ev"] == "Reset"), "switches": sum(1 for e in evs if e["ev"] == "Switch"),
                                     "records": sum(1 for e in evs if e["ev"] == "Rec"), "model_drift": len(rr.drifts)}
    for d in rr.drifts[:5]:
        v.drift.append("statistics session: the logs differ from StatsSession's FlushOnSwitch=none behaviour at event %s" % d[0])
    for rej in rejects:
        i = rej[0] - 1
        k = i
        while k > 0 and evs[k]["ev"] != "Reset":
            k -= 1
        v.failure({"kind": rej[1], "level": "session", "switches_before": sum(1 for e in evs[k:i] if e["ev"] == "Switch")},
                  {"event": evs[i], "session": evs[k:i + 1]})
    v.cov["rule"] = ("sessions = a fresh log, 1-3 append batches, the whole log read back and summarised after "
                     "each batch. Records: TLC-enumerated lists over 9 character classes (plain, n, LF, CR, "
                     "quote, backslash, control, astral, U+2028) split into batches in every way; records "
                     "built by RecordKind::from_lint from real lints (incl. number tokens with extreme values) "
                     "and configuration updates; in memory, through an append-mode file as harper-ls does, "
                     "and through harper-wasm's generate/import; distinct = distinct batch shapes")
    return v.finish()


def replay(v, path):
    rep = json.load(open(path))
    if rep["replay"].get("session"):
        wd = common.workdir("c19_replay")
        tf = os.path.join(wd, "session.ndjson")
        with open(tf, "w") as f:
            for e in rep["replay"]["session"]:
                f.write(json.dumps(e) + "\n")
        consumed, rejects, _ = common.validate_trace(os.path.join(SPEC, "trace", "Trace_StatsSession.tla"),
                                                     os.path.join(SPEC, "trace", "Trace_StatsSession.cfg"), tf, "c19_spr", timeout=300)
        for rej in rejects:
            v.failure({"kind": rej[1], "level": "session"}, {"event": rep["replay"]["event"], "session": rep["replay"]["session"]})
        return v.finish()
    sf = rep["replay"].get("session_file")
    print(json.dumps(rep["replay"]["event"], ensure_ascii=False)[:2000])
    if sf and os.path.exists(sf):
        validate(v, sf, "r")
    return v.finish()
