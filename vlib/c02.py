"""C02 — tokens in bounds, ordered, disjoint, tiling (plain) and well-shaped."""
import json
import os

from . import common, corpus
from .common import SPEC

TRACE_TLA = os.path.join(SPEC, "trace", "Trace_Tokens.tla")
TRACE_CFG = os.path.join(SPEC, "trace", "Trace_Tokens.cfg")


def gen_cases(wd, cfgname, name):
    r = common.tlc(os.path.join(SPEC, "mc", "MC_Typing.tla"), os.path.join(SPEC, "mc", cfgname),
                   name, workers=8, coverage=False, timeout=1800)
    path = os.path.join(wd, "cases.ndjson")
    n = 0
    with open(path, "w") as f:
        for x in r.prints:
            p = common.parse_print(x)
            if p and p[0] == "CASE":
                f.write(json.dumps(p[1]) + "\n")
                n += 1
    return path, n


def sig_of(e, reason, where):
    """Signature of a rejected event: reason + the offending token's kind and text (or,
    when no single token is responsible, the front-end and the text)."""
    if reason == "tokens-overlap-or-out-of-order" and e.get("front") == "typst":
        # which Typst construct holds the first token that starts before its predecessor ends?
        import re
        txt, prev = e.get("text", ""), None
        for t in e["toks"]:
            if t["e"] > t["s"]:
                if prev is not None and t["s"] < prev["e"]:
                    a = min(t["s"], prev["s"])
                    line = txt[txt.rfind("\n", 0, a) + 1:]
                    line = line[:line.find("\n")] if "\n" in line else line
                    if re.search(r"#let\s*\(", line):
                        return {"kind": reason, "front": "typst", "typst_construct": "let-with-parenthesized-pattern"}
                    if re.search(r"#(std\.|color\.)?(image|cite|bibliography|raw|rgb|plugin|regex)\(|\.display\(", line):
                        return {"kind": reason, "front": "typst", "typst_construct": "call-whose-ignored-arguments-come-first"}
                    break
                prev = t
    if where and 1 <= where <= len(e["toks"]):
        t = e["toks"][where - 1]
        txt = e.get("text", "")
        sig = {"kind": reason, "tok_kind": t["k"], "tok_text": txt[t["s"]:t["e"]].lower()[:60],
               "isolate_english": bool(e.get("wrap", 0) & 2)}
        # a token of a markup front-end whose text holds characters that belong to no token (markup between two pieces
        # of prose): a condensing pass merged neighbours of the token LIST that are not neighbours in the TEXT
        if e.get("front", "plain") != "plain" and reason == "shape" and t["k"] in ("Word", "Number", "Ellipsis", "Punctuation"):
            inner = txt[t["s"]:t["e"]]
            if any(ch in inner for ch in "\"[](){}<>:|*_`#") or (" " in inner and t["k"] != "Word"):
                sig = {"kind": reason, "tok_kind": t["k"], "merged_across_a_gap": True, "front_is_plain": False}
        return sig
    return {"kind": reason, "front": e.get("front", "plain"), "text": e.get("text", "")[:80]}


def validate(v, trace, name):
    files = common.split_ndjson(trace, 12000, os.path.dirname(trace), name)
    res = common.validate_traces_parallel(TRACE_TLA, TRACE_CFG, files, "c02_" + name, procs=8)
    distinct = set()
    for f, consumed, rejects in res:
        evs = common.read_ndjson(f)
        if consumed != len(evs):
            raise common.ToolError(f"trace {f}: consumed {consumed} of {len(evs)} events")
        v.cov["traces_validated_against_impl"] += len(evs)
        v.cov["evaluations"] += len(evs)
        for e in evs:
            if e["ev"] in ("Tokens", "Case") and len(e["toks"]) >= 2:
                distinct.add((e.get("front", "plain"), tuple((t["k"], t["e"] - t["s"]) for t in e["toks"])))
        if len(v.cov["samples"]) < 6:
            v.cov["samples"] += [{"text": e["text"], "front": e.get("front", "plain"),
                                  "toks": [[t["k"], t["s"], t["e"]] for t in e["toks"]]}
                                 for e in evs if e["ev"] in ("Tokens", "Case") and 3 <= len(e["toks"]) <= 12][:2]
        drifts = 0
        for line in rejects:
            e = evs[line[0] - 1]
            v.failure(sig_of(e, line[1], line[2] if len(line) > 2 else 0), {"event": e})
    for f, d in common.LAST_DRIFTS[:50]:
        evs = common.read_ndjson(f)
        e = evs[d[0] - 1]
        v.drift.append("plain-English tokens differ from the model for %r" % e.get("text", ""))
    return len(distinct)


def count_drift(r):
    return sum(1 for x in r.prints if x.startswith('<<"DRIFT"'))


def run(v):
    wd = common.workdir("c02")
    thorough = v.tier == "thorough"
    mc_cfg = "MC_Typing_full5.cfg" if thorough else "MC_Typing_full4.cfg"
    r = common.tlc(os.path.join(SPEC, "mc", "MC_Typing.tla"), os.path.join(SPEC, "mc", mc_cfg),
                   "c02_mc", workers=12, timeout=3000, coverage=False)
    if r.violated:
        v.failure({"kind": "model", "invariant": r.violated}, {"tlc_output": r.output[-3000:]})
    v.add_mc("MC_Typing/" + mc_cfg, r, "every buffer over the 24-class alphabet up to MaxLen: lexer "
             "progress, lexer tiling, WellFormed after the condensing passes")
    r2 = common.tlc(os.path.join(SPEC, "mc", "MC_Typing.tla"), os.path.join(SPEC, "mc", "MC_Typing_quick.cfg"),
                    "c02_mc2", workers=12, timeout=3000, coverage=False)
    if r2.violated:
        v.failure({"kind": "model", "invariant": r2.violated}, {"tlc_output": r2.output[-3000:]})
    v.add_mc("MC_Typing/MC_Typing_quick.cfg", r2, "10-class alphabet, buffers up to 5")
    cases, ncases = gen_cases(wd, "MC_Typing_gen_full4.cfg" if thorough else "MC_Typing_gen_full3.cfg", "c02_gen")
    _, corp = corpus.harvest()
    trace = os.path.join(wd, "trace.ndjson")
    rc, out, err = common.run_hv(["c02", "--cases", cases, "--alphabet", os.path.join(SPEC, "alphabet.json"),
                                  "--out", trace, "--seed", v.seed, "--corpus", corp,
                                  "--docs", 30000 if thorough else 3000,
                                  "--prefix-sentences", 600 if thorough else 60])
    if rc != 0:
        raise common.ToolError("hv c02 failed: " + err[-2000:])
    v.cov["distinct_nontrivial"] = validate(v, trace, "t")
    v.cov["tlc_cases_replayed"] = ncases
    v.cov["rule"] = ("Case: every class string up to the generation bound from TLC's MC_Typing graph, "
                     "concretised and parsed by the real plain-English pipeline, checked for WellFormed "
                     "and compared token by token with the model's prediction. Tokens: documents in all "
                     "29 front-ends (+ identifier-collapsing / English-isolating wrappers) built from "
                     "corpus sentences, all their prefixes, composed multi-paragraph texts with "
                     "multi-byte lead-ins, and adversarial inputs. distinct = distinct (front-end, "
                     "token-kind/length sequence) with >= 2 tokens")
    v.assumptions += ["Number denotation is recomputed by the harness from the token's characters "
                      "(f64 parse / hex parse + suffix letters); TLC only checks the flag",
                      "character classes in Tokens events come from the harness's own table, not from "
                      "Harper's lexer"]
    return v.finish()


def replay(v, path):
    rep = json.load(open(path))
    e = rep["replay"]["event"]
    print(json.dumps(e, ensure_ascii=False)[:3000])
    wd = common.workdir("c02_replay")
    trace = os.path.join(wd, "trace.ndjson")
    with open(trace, "w") as f:
        f.write(json.dumps(e) + "\n")
    validate(v, trace, "r")
    return v.finish()
