"""C08 — editor diagnostics and quick-fix edits land exactly on the flagged text."""
import json
import os

from . import common, corpus, c08proto
from .common import SPEC

PROTOCOL_ONLY_OK = True     # the protocol-level stage needs only the harper-ls binary
PROTO_TLA = os.path.join(SPEC, "trace", "Trace_PosProto.tla")

TRACE_TLA = os.path.join(SPEC, "trace", "Trace_PosConv.tla")
TRACE_CFG = os.path.join(SPEC, "trace", "Trace_PosConv.cfg")


def split_docs(trace, outdir, name, max_events=2500):
    os.makedirs(outdir, exist_ok=True)
    files, buf, idx = [], [], 0

    def flush():
        nonlocal buf, idx
        if buf:
            p = os.path.join(outdir, f"{name}_{idx:04d}.ndjson")
            open(p, "w").writelines(buf)
            files.append(p)
            buf, idx = [], idx + 1
    for line in open(trace):
        if (line.startswith('{"ev":"Doc"') or '"ev":"Conv"' in line[:40]) and len(buf) >= max_events:
            flush()
        buf.append(line)
    flush()
    return files


def validate(v, trace, name):
    files = split_docs(trace, os.path.dirname(trace), name)
    res = common.validate_traces_parallel(TRACE_TLA, TRACE_CFG, files, "c08_" + name, procs=10)
    distinct = set()
    for f, consumed, rejects in res:
        evs = common.read_ndjson(f)
        if consumed != len(evs):
            raise common.ToolError(f"trace {f}: consumed {consumed} of {len(evs)} events")
        v.cov["evaluations"] += len(evs)
        doc = None
        for e in evs:
            if e["ev"] == "Doc":
                doc = e
                v.cov["traces_validated_against_impl"] += 1
            elif e["ev"] == "Conv":
                v.cov["traces_validated_against_impl"] += 1
                distinct.add(("conv", "".join(c[0] for c in e["t"]), e["s"], e["e"]))
            elif e["ev"] == "Diag" and doc is not None:
                distinct.add((doc["text"], e["s"], e["e"]))
        if len(v.cov["samples"]) < 6:
            v.cov["samples"] += [e for e in evs if e["ev"] == "Conv" and "a" in e["t"] and "NL" in e["t"]][:1]
            v.cov["samples"] += [{k: e[k] for k in ("ev", "range", "edit_present", "client_ok")} for e in evs if e["ev"] == "Edit"][:1]
        doc = None
        for i, e in enumerate(evs):
            if e["ev"] == "Doc":
                doc = e
            for rej in [r for r in rejects if r[0] == i + 1]:
                sig = {"kind": rej[1]}
                if e["ev"] == "Conv":
                    sig["t"] = "".join(c[0] for c in e["t"])
                elif doc is not None:
                    sig["lang"] = doc["lang"]
                    t = doc["text"]
                    last_line = "\n" not in t[e.get("s", 0):] if "s" in e else False
                    sig["on_last_line"] = bool(last_line)
                    sig["ends_with_newline"] = t.endswith("\n")
                v.failure(sig, {"event": e, "doc": doc})
    return len(distinct)


def validate_proto(v, trace, name):
    """Protocol-level events, one file per initialize exchange."""
    outdir = os.path.dirname(trace)
    files, buf = [], []

    def flush():
        if buf:
            p = os.path.join(outdir, f"{name}_{len(files):03d}.ndjson")
            open(p, "w").writelines(buf)
            files.append(p)
            buf.clear()
    for line in open(trace):
        if line.startswith('{"ev": "Init"'):
            flush()
        buf.append(line)
    flush()
    res = common.validate_traces_parallel(PROTO_TLA, TRACE_CFG, files, "c08_" + name, procs=8)
    for f, consumed, rejects in res:
        evs = common.read_ndjson(f)
        if consumed != len(evs):
            raise common.ToolError(f"trace {f}: consumed {consumed} of {len(evs)} events")
        v.cov["evaluations"] += len(evs)
        v.cov["traces_validated_against_impl"] += sum(1 for e in evs if e["ev"] == "Doc")
        init, doc = None, None
        for i, e in enumerate(evs):
            if e["ev"] == "Init":
                init = e
            if e["ev"] == "Doc":
                doc = e
            for rej in [r for r in rejects if r[0] == i + 1]:
                sig = {"kind": rej[1], "level": "protocol", "announced": (init or {}).get("announced")}
                if doc is not None and e["ev"] != "Init":
                    sig["lang"] = doc["lang"]
                    sig["non_ascii_before"] = any(ord(ch) > 127 for ch in doc["text"][doc["text"].rfind("\n", 0, max(e.get("s", 0), 0)) + 1:max(e.get("s", 0), 0)])
                v.failure(sig, {"event": e, "doc": doc, "init": init})


def run_deviations(v):
    """The named deviations of PosEncoding must be refuted by TLC (vacuity guard)."""
    mc = os.path.join(SPEC, "mc", "MC_PosEncoding.tla")
    for cfg, inv in (("MC_PosEncoding_dev_rev16", "LookupInsideE"),):
        r = common.tlc(mc, os.path.join(SPEC, "mc", cfg + ".cfg"), "c08_" + cfg, workers=4, timeout=900, coverage=False)
        if r.violated != inv:
            raise common.ToolError(f"{cfg}: TLC did not refute {inv} (got {r.violated})")
        v.cov.setdefault("deviations_refuted", []).append(cfg)
    for cfg in ("MC_PosEncoding_code", "MC_PosEncoding_nego"):
        r = common.tlc(mc, os.path.join(SPEC, "mc", cfg + ".cfg"), "c08_" + cfg, workers=8, timeout=1800, coverage=False)
        if r.violated:
            v.failure({"kind": "model", "invariant": r.violated, "cfg": cfg}, {"tlc_output": r.output[-3000:]})
        v.add_mc(cfg, r, "every text over {LF, CR, ASCII, 2-byte, astral} up to MaxLen x every offer of position encodings: "
                 "AnnouncedWasOffered, LookupInsideE, EditEqualsSuggestionE in the effective unit")


def run(v):
    wd = common.workdir("c08")
    run_deviations(v)
    # protocol level: the real binary, clients that offer position encodings
    corp_list, _ = corpus.harvest()
    ptrace, pst = c08proto.run(wd, v.seed, corp_list, 40 if v.tier == "thorough" else 10)
    validate_proto(v, ptrace, "p")
    v.cov["protocol_level"] = {"sessions": pst["sessions"], "offers": c08proto.OFFERS, "diagnostics": pst["diags"],
                               "positions_probed": pst["positions"], "edits_applied": pst["edits"], "distinct_text_spans": len(pst["spans"])}
    if not common.HARNESS_OK:
        v.cov["distinct_nontrivial"] = len(pst["spans"])
        v.cov["rule"] = ("protocol level only (the harness does not compile against this tree): real harper-ls over stdio, "
                         "clients offering position encodings; every diagnostic, code actions at every character of every "
                         "range, every text edit applied client-side in the announced unit")
        v.assumptions += ["the harness crate did not build against this tree: " + common.HARNESS_BUILD_ERROR[-300:]]
        return v.finish()
    thorough = v.tier == "thorough"
    t = "thorough" if thorough else "quick"
    r = common.tlc(os.path.join(SPEC, "mc", "MC_PosConv.tla"), os.path.join(SPEC, "mc", f"MC_PosConv_{t}.cfg"),
                   "c08_mc", workers=12, timeout=3000, coverage=False)
    if r.violated:
        v.failure({"kind": "model", "invariant": r.violated}, {"tlc_output": r.output[-3000:]})
    v.add_mc(f"MC_PosConv/{t}", r, "every text over {LF, CR, BMP, astral} up to MaxLen: RoundTrip, RangeCovers, LookupInside, "
             "EditEqualsSuggestion (three edit constructions)")
    rg = common.tlc(os.path.join(SPEC, "mc", "MC_PosConv.tla"),
                    os.path.join(SPEC, "mc", "MC_PosConv_gen_thorough.cfg" if thorough else "MC_PosConv_gen.cfg"),
                    "c08_gen", workers=8, coverage=False, timeout=1800)
    cases = os.path.join(wd, "cases.ndjson")
    n = 0
    with open(cases, "w") as f:
        for x in rg.prints:
            p = common.parse_print(x)
            if p and p[0] == "CASE":
                n += 1
                f.write(json.dumps(p[1]) + "\n")
    _, corp = corpus.harvest()
    trace = os.path.join(wd, "trace.ndjson")
    rc, out, err = common.run_hv(["c08", "--cases", cases, "--out", trace, "--seed", v.seed, "--corpus", corp,
                                  "--docs", 4000 if thorough else 300], timeout=7200)
    if rc != 0:
        raise common.ToolError("hv c08 failed: " + err[-2000:])
    v.cov["distinct_nontrivial"] = validate(v, trace, "t") + len(pst["spans"])
    v.cov["tlc_cases_replayed"] = n
    v.cov["rule"] = ("Conv: every well-formed text (CR only before LF) up to the generation bound from TLC x every "
                     "in-line span, through the real span_to_range/range_to_span and the overlap lookup at every "
                     "character; Doc/Diag/Actions/Edit: multi-line documents (LF and CRLF, with/without final newline, "
                     "astral, combining, tab content, lints on the first and last line; plain, Markdown, Rust and Python "
                     "comments) in the real DocumentState: every diagnostic, code actions at every character of every "
                     "range, every text edit applied client-side; distinct = distinct (text, span)")
    v.assumptions += ["the client-side reading of a position (line, UTF-16 column) is re-implemented in the harness and, "
                      "independently, in TLA+ (ClientOffset)"]
    return v.finish()


def replay(v, path):
    rep = json.load(open(path))
    print(json.dumps(rep["replay"], ensure_ascii=False)[:3000])
    wd = common.workdir("c08_replay")
    trace = os.path.join(wd, "trace.ndjson")
    if rep["replay"].get("init"):
        with open(trace, "w") as f:
            for e in (rep["replay"]["init"], rep["replay"].get("doc"), rep["replay"]["event"]):
                if e and (e["ev"] != "Init" or e is rep["replay"]["init"]):
                    f.write(json.dumps(e) + "\n")
        validate_proto(v, trace, "r")
        return v.finish()
    with open(trace, "w") as f:
        if rep["replay"].get("doc"):
            f.write(json.dumps(rep["replay"]["doc"]) + "\n")
        f.write(json.dumps(rep["replay"]["event"]) + "\n")
    validate(v, trace, "r")
    return v.finish()
