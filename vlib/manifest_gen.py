"""Regenerates MANIFEST.json from the table below (run: python3 -m vlib.manifest_gen)."""
import json
import os

ROOT = os.path.dirname(os.path.dirname(os.path.abspath(__file__)))

HOOK_COMMITS = ["42434d0", "d977877", "e9cf669"]

CHECKS = {
    "C13": dict(
        text="TLC explores the step-by-step model of remove_overlaps/remove_indices (spec/Overlaps.tla) "
             "for every list of <=4 spans and checks that it refines the property-level postcondition; "
             "every TLC-generated list, seeded random lists and rule-produced lint lists are executed on "
             "the real harper_core::remove_overlaps and each recorded (in,out) pair is validated by TLC "
             "against the same postcondition (spec/trace/Trace_Overlaps.tla). The two consumers the property names "
             "are observed too: harper-wasm's Linter::lint result and the report of the real harper-cli binary "
             "(read back from its rendering) must be overlap removal applied to the raw lints of the same pipeline.",
        note="Trusted: TLC, the harness's projection of a Lint to (id,s,e,digest). Bounded: lists <=4 spans "
             "exhaustively (model), <=40 spans randomly (implementation).",
        ref="4 C13", technique="TLA+ model checking (TLC) + spec-to-code replay + trace validation"),
}

CHECKS["C03"] = dict(
    text="TLC explores the step-by-step model of Suggestion::apply (spec/Spans.tla: in-place copy, split_off/"
         "extend/skip, shift-left/truncate) for every text length, span, kind and replacement length within "
         "bounds and checks it equals the declarative Apply and is a local edit; every TLC case is replayed "
         "into the real Suggestion::apply; every lint the real rules produce on composed documents in all "
         "front-ends is recorded (Doc/Applied events) and validated by TLC (spec/trace/Trace_Spans.tla): "
         "span inside the text, after = Apply(before), edit local.",
    note="Trusted: TLC, harness event encoding (code points). Bounded texts (<=8 chars in the model; <=300 "
         "chars for applied suggestions on real documents).",
    ref="4 C03", technique="TLA+ model checking (TLC) + spec-to-code replay + trace validation")
CHECKS["C02"] = dict(
    text="The lexer (lex_token precedence chain) and every condensing pass of Document::parse are transcribed "
         "into TLA+ (spec/LexerOps.tla, CondenseOps.tla) over a 24-class character alphabet; TLC checks lexer "
         "progress, tiling and WellFormed for every buffer up to the bound (Typing model). Every enumerated "
         "class string is concretised, parsed by the real code and compared token by token with the model "
         "(zero drift expected), and documents in all front-ends are validated against WellFormed by TLC "
         "(spec/trace/Trace_Tokens.tla).",
    note="Trusted: TLC; the harness's independent character-class table; number denotation recomputed by the "
         "harness. Model excludes ':' '/' '@' so url/email lexers are exercised only through traces.",
    ref="4 C02", technique="TLA+ model checking (TLC) + spec-to-code replay + trace validation")

CHECKS["C01"] = dict(
    text="TLC checks the match contract (0 <= match <= tokens given, no out-of-range slice) of the transcribed "
         "pattern algebra and the run_on_chunk loop for every pattern AST within a depth bound and every "
         "token string (spec/PatternsOps.tla), and lexer progress / in-range condensing for every typed "
         "buffer (spec/Typing.tla). Each AST is rebuilt from the real pattern types and run through the real "
         "matches/run_on_chunk (zero drift expected). Document::new + lint is then executed on TLC's typing "
         "buffers, all prefixes of the repository's test sentences, composed and randomly cut documents in "
         "all 29 front-ends, adversarial texts and the repository's fixture files, under every kind of rule "
         "configuration and dialect, each run under catch_unwind and a watchdog; the trace spec "
         "(spec/trace/Trace_Typing.tla) has no action for a panic or timeout.",
    note="Trusted: TLC, catch_unwind, the watchdog (20 s per text of <= 6000 chars stands in for the "
         "polynomial-time clause; no asymptotic claim). Inputs are bounded samples of 'all Unicode texts'.",
    ref="4 C01", technique="TLA+ model checking (TLC) + spec-to-code replay + trace validation")

CHECKS["C17"] = dict(
    text="The ordinal rule is specified on digit sequences (spec/OrdinalOps.tla: English rule vs. the code's "
         "mod-100/mod-10 rule composed with the lexer's decade/number precedence); TLC checks verdict equality "
         "and fix-cleanliness for every digit string up to the bound x suffix x case. The real "
         "CorrectNumberSuffix rule is run for every integer below the tier bound (3000 quick / 100000 "
         "thorough) x 4 suffixes x case variants at 8 sentence positions plus random integers < 2^53, and "
         "each Ord event is validated by TLC against the verdict recomputed from the digits.",
    note="Trusted: TLC; harness extraction of the lint relative to the number's position.",
    ref="4 C17", technique="TLA+ model checking (TLC) + trace validation (exhaustive below the bound)")
CHECKS["C18"] = dict(
    text="make_title_case is transcribed over abstract characters (identity, case, ASCII-ness) and tokens with "
         "proper-noun / capitalisation attributes (spec/TitleCaseOps.tla); TLC checks length, case-only "
         "difference, first-word capital and idempotence for all token strings in bounds. Real titles built "
         "from corpus words, dictionary proper nouns in several casings, function words, numbers, hyphenated "
         "and non-ASCII words are title-cased twice through harper-core and harper-wasm and each Title event "
         "is validated by TLC (spec/trace/Trace_TitleCase.tla).",
    note="Trusted: TLC; per-character case folding from Rust's std in the harness. No spec-to-code replay "
         "(the model's token attributes are abstract); binding is by trace validation only.",
    ref="4 C18", technique="TLA+ model checking (TLC) + trace validation")

CHECKS["C19"] = dict(
    text="The statistics log is specified as a sequence of character classes with JSON escaping per class "
         "(spec/StatsLog.tla); TLC explores every record list within bounds over 9 classes (LF, CR, quote, "
         "backslash, control, astral, U+2028, ...) and any session boundaries and checks ReadFile(file) = log, "
         "no raw line break inside a record and once-only summarising. TLC's record lists are written with "
         "the real Stats::write in every split into append batches (in memory and through an append-mode file "
         "as harper-ls does), together with records from real lints and harper-wasm's generate/import; every "
         "session (Reset/Wrote/ReadBack/Summary events) is validated by the stateful trace spec "
         "spec/trace/Trace_StatsLog.tla. Sessions of the language server in which statsPath moves while records are "
         "pending are specified in spec/StatsSession.tla (three behaviours of a path change) and real sessions are "
         "judged by spec/trace/Trace_StatsSession.tla: each applied record in the logs exactly once, in order.",
    note="Trusted: TLC; record identity = digest of the Debug form of the record in the harness.",
    ref="4 C19", technique="TLA+ model checking (TLC) + spec-to-code replay + trace validation")

CHECKS["C15"] = dict(
    text="WordMap (case-folded, apostrophe-normalised ids, last insertion wins), the mutable / FST / merged "
         "back-ends' exact queries, the Levenshtein recursion vs. the two-row algorithm and the mutable fuzzy "
         "search are specified in spec/DictOps.tla; TLC checks, for every word list within bounds and every "
         "query, membership, back-end agreement (Id clashes are a named deviation), merged = union and fuzzy "
         "soundness/completeness. Every TLC word list is built into the three real back-ends (merged in every "
         "split) and queried exhaustively; the curated dictionary is queried with re-cased, edited, "
         "apostrophe-variant, non-ASCII, empty and long queries; TLC validates every answer "
         "(spec/trace/Trace_Dict.tla), recomputing Levenshtein distances itself.",
    note="Trusted: TLC; for the curated dictionary the harness's own word set (from words_iter) decides "
         "membership and the mutable back-end's full scan is the completeness reference.",
    ref="4 C15", technique="TLA+ model checking (TLC) + spec-to-code replay + trace validation")

CHECKS["C05"] = dict(
    text="LintGroup::lint with its LRU chunk cache is specified in spec/LintGroup.tla with uninterpreted rule "
         "semantics that read exactly what the real rules read (tokens); TLC checks CacheUnobservable for all "
         "histories of SetConfig/Lint over documents whose chunks collide by construction (same characters, "
         "different tokens; same clause at two offsets; repeated clause), with capacity 2 so eviction is covered. "
         "Every TLC history is concretised through real document pools and run on one long-lived real LintGroup; "
         "each step is compared with a freshly built group and the hook's hit/miss counters are compared with "
         "the trace spec's cache prediction (spec/trace/Trace_LintGroup.tla). Further: random histories in two "
         "languages with config switches, the same documents on 1/2/8 threads and in a second process.",
    note="Trusted: TLC; lint identity = digest of the serialised lint. A run in which the cache is never hit "
         "is rejected as vacuous.",
    ref="4 C05", technique="TLA+ model checking (TLC) + spec-to-code replay + stateful trace validation")

CHECKS["C11"] = dict(
    text="LintGroupConfig is specified as a partial map to {On, Off, None} with the code's operations "
         "(spec/ConfigOps.tla); TLC checks overlay-on-curated, merge precedence, unknown keys, clear and JSON round "
         "trip for all configurations and operation sequences within bounds, and Decomposes on the LintGroup model. "
         "Every (configuration, other) pair from TLC x 19 operations is executed on the real LintGroupConfig with "
         "model keys mapped to real rule names, and TLC validates the stored map against the spec's operator "
         "(spec/trace/Trace_Config.tla). Real documents are linted on a reused linter under E, under both halves of "
         "a partition of E and under E again (multiset equation), and user settings are overlaid through harper-ls's "
         "and harper-wasm's entry formats under each of the four dialects, against the curated group of that dialect.",
    note="Trusted: TLC; lint identity = digest of the serialised lint. 'rule' means rule name (one name may drive "
         "two linters).",
    ref="4 C11", technique="TLA+ model checking (TLC) + spec-to-code replay + trace validation")

CHECKS["C12"] = dict(
    text="Using the transcribed lexer and condensing passes, TLC checks for every paragraph stem + '.' + blank line "
         "and every following text within bounds that tokens(P o D) = tokens(P) o shift(tokens(D)) "
         "(spec/Paragraphs.tla) - the place where cursor-based passes and look-ahead lexers can reach across the "
         "break. On the real code, (P, D) pairs from the repository's own test sentences (with sentence-final "
         "numbers, initialisms, abbreviations; D starting with mergeable tokens) are linted with all rules on, "
         "separately and joined, and TLC validates the multiset equation lints(PD) = lints(P) + shift(lints(D)) "
         "(spec/trace/Trace_Paragraphs.tla).",
    note="Trusted: TLC; lint identity = digest of the serialised lint with the span shifted by the harness. The "
         "rule-level locality (chunk/sentence/paragraph) is bound by trace validation only.",
    ref="4 C12", technique="TLA+ model checking (TLC) + trace validation")

CHECKS["C14"] = dict(
    text="LintContext::from_lint (three token windows, quote partner index) and the ignore list are specified in "
         "spec/IgnoreOps.tla; TLC checks HidesIt / OnlyIt / KeepsHiding for all documents of a few tokens "
         "(misspellings of different widths, words, blanks, quotes), every lint chosen, far prepend/append edits. On "
         "the real code, sessions ignore random lints, re-lint, prepend/append far text or export+import the list "
         "(core IgnoredLints and harper-wasm) and re-lint; the stateful trace spec (spec/trace/Trace_Ignore.tla) "
         "keeps the set of ignored identities and requires that exactly the lints with an ignored identity are hidden.",
    note="Trusted: TLC; the harness computes a lint's identity (kind, message, suggestions, flagged text, tokens "
         "within two characters) from Harper's token boundaries; lints that differ from an ignored one only in "
         "adjacent white space are left to the implementation (two identities, strict and loose).",
    ref="4 C14", technique="TLA+ model checking (TLC) + stateful trace validation")

CHECKS["C08"] = dict(
    text="index_to_position / position_to_index (the code's newline-index algorithms), the code-action lookup "
         "(range_to_span(..).with_len(1) overlap) and the three text-edit constructions are specified over texts of "
         "{LF, CR, BMP, astral} classes in spec/PosConvOps.tla next to the LSP meaning of a position; TLC checks "
         "RoundTrip, RangeCovers, LookupInside and client-side edit = Apply for every text up to the bound. Every "
         "TLC text x every in-line span runs through the real pos_conv functions, and real multi-line documents run "
         "through the real DocumentState (diagnostics, code actions at every character of every range, every edit "
         "applied client-side); TLC validates ranges, look-ups and edits (spec/trace/Trace_PosConv.tla). A second, "
         "protocol-level stage drives the real harper-ls binary over stdio with clients that offer position encodings "
         "(spec/PosEncoding.tla, spec/trace/Trace_PosProto.tla): positions are read in the unit the server announces; "
         "this stage alone still runs when the harness crate does not compile against the tree.",
    note="Trusted: TLC; the harness's and the spec's independent readings of an LSP position. Lone CR line ends are "
         "outside the property (LF and CRLF only); positions in the middle of a surrogate pair are not requested.",
    ref="4 C08", technique="TLA+ model checking (TLC) + spec-to-code replay + trace validation")

CHECKS["C06"] = dict(
    text="SpellCheck's acceptance test over the word-map semantics of DictOps is specified in spec/Spell.tla; TLC "
         "checks, for every small dictionary with dialect tags, that listed forms and Capitalised/UPPER forms of "
         "lower-case entries are accepted in their dialect, unknown words and other-dialect words are reported. On "
         "the real code the check is data-driven: every curated word (thorough; stratified sample in quick) x 4 "
         "dialects x forms, alone and inside sentences, plus non-words; TLC recomputes the expectation of each Spell "
         "event from the harness's own word set and the entry's dialect (spec/trace/Trace_Spell.tla), including that "
         "every suggestion is a dictionary word of the active dialect.",
    note="Trusted: TLC; 'listed' = returned by the curated dictionary's words_iter(). Exhaustiveness over the ~130k "
         "words comes from iterating the real dictionary in the harness (TLC is the oracle, not the enumerator).",
    ref="4 C06", technique="TLA+ model checking (TLC) + trace validation (exhaustive over the dictionary in thorough)")

CHECKS["C16"] = dict(
    text="The JS-facing Linter object (user words in insertion order with case-folded ids, the word list the lint "
         "group was last synchronised with, the ignore list) is specified in spec/JsLinter.tla; TLC checks, over all "
         "call sequences within bounds, that a clone built from the exported words/ignore list behaves the same, "
         "that imported words are accepted and ignored contexts stay hidden. Every TLC call sequence and random "
         "sessions over real texts in both languages run on the real harper_wasm::Linter (native build); the "
         "stateful trace spec (spec/trace/Trace_JsLinter.tla) checks every Lint (inside the text, no overlap, "
         "problem text = span), every apply_suggestion against SpansOps!Apply, ignore = previous result minus that "
         "identity, JSON round trips, and the export/import clone on probe texts.",
    note="Trusted: TLC. Methods returning JsValue need a JS host and are not exercised. Lints sharing the ignored "
         "lint's identity (kind, message, flagged text, tokens within two characters) count as that lint.",
    ref="4 C16", technique="TLA+ model checking (TLC) + spec-to-code replay + stateful trace validation")

CHECKS["C07"] = dict(
    text="The add-word command is specified as the step sequence Load / Append / Create(truncate) / WriteFlush / Done "
         "over a dictionary file (absent, empty, or hand-written with or without a final line terminator), with Crash "
         "enabled between any two steps and case-folded word ids "
         "(spec/DictFile.tla); TLC checks that the file always reloads to the words added so far (a crash may lose at "
         "most the word in flight), with the two deviations the code is known to have named explicitly so that any "
         "other route to a loss is still reported. On the real harper-ls Backend (in process, real directory, two open "
         "documents) every await point of a save is turned into a crash by dropping the command's future after k polls, "
         "dictionary files that exist before the server starts (LF/CRLF, last line terminated or not) are extended, "
         "and random histories of user/file adds, restarts and crashes are run; after every step the files are read "
         "back and both documents re-published; the stateful trace spec (spec/trace/Trace_DictFile.tla) checks reload = "
         "added, added words no longer reported, file-dictionary words confined to their file, other lints unchanged.",
    note="Trusted: TLC; crash = dropping the future after the started file-system operation completed (no torn "
         "kernel writes). The JS import_words clause is checked in C16's sessions.",
    category="fault_enumeration" if False else "model_checking",
    ref="4 C07", technique="TLA+ model checking (TLC) + crash-point enumeration on the real server + stateful trace validation")

CHECKS["C09"] = dict(
    text="The server's document handling is specified with one program counter per in-flight handler at the code's "
         "await points (configuration round trip, dictionary load, document-state lock, publish; store / rebuild / "
         "per-document publish for didChangeConfiguration) in spec/LspServer.tla, with the client's configuration, the "
         "server's copy and the configuration each document's linter was built with; "
         "TLC explores every interleaving of up to MaxInFlight handlers over 2 documents and checks the quiescent "
         "last-word invariant, with overlapping handlers for one document as the explicitly named deviation so that any "
         "other route to a stale last word is reported. On the real Backend (in process) every sequential history of "
         "two messages of every kind per document kind (saved .txt, saved .md, untitled) is run, and batches of 2-4 "
         "messages sent back to back are run under explicit schedules (handler futures polled by the harness, "
         "configuration answers delivered in every/random order), plus re-opens, returning texts and walks over every "
         "ordered pair of five configurations; the stateful trace spec (spec/trace/Trace_LspServer.tla) tracks the "
         "client's newest text and configuration and the last publish per url. The user dictionary is server state in spec/UserDict.tla (one named deviation refuted on every run); sessions with several open documents that share an unknown word are validated by spec/trace/Trace_UserDict.tla.",
    note="Trusted: TLC; a publish is identified as the (text, configuration) pairs for which a fresh server publishes "
         "exactly these diagnostics (reference table built at the start of the run). Interleavings inside the "
         "dictionary-loading part are left to the runtime (no gating hooks).",
    ref="4 C09", technique="TLA+ model checking (TLC) + schedule replay on the real server + stateful trace validation")

CHECKS["C10"] = dict(
    text="The side effects a Harper process may perform are specified as an alphabet per mode (stdio server, loopback "
         "TCP server, library) in spec/EffectsOps.tla, and a small automaton of the server's life (listener set-up, "
         "serving, save_dict windows, save_stats at shutdown) is model-checked against it. The real harper-ls binary, "
         "built from /repo, is run under strace -f through a complete LSP session in stdio mode, one in TCP mode, one over "
         "dictionaries and a statistics file that already exist in states a user may have left them in, and random "
         "sessions over 18 language ids whose prose names hosts, addresses and files (every notification and command "
         "except the user-initiated HarperOpen; code actions requested at every position), as is a process that only uses the "
         "library, the comment parsers and the JS-facing API; every network call and every write-open / mkdir / rename / "
         "unlink becomes a Sys event that TLC validates against the alphabet (spec/trace/Trace_Effects.tla). The "
         "resolved normal+build dependency set of the shipped crates (cargo metadata) is checked against the spec's "
         "deny-list of network/TLS/DNS client packages as Dep events.",
    note="Trusted: strace, cargo metadata, TLC. Paths are classified against the configured dictionary/statistics "
         "locations by the trace producer; the policy (which class is allowed in which mode) is in the spec. The "
         "dependency clause is a static fact fed to the spec, not behaviour explored by TLC.",
    ref="4 C10", technique="TLA+ effect alphabet (TLC) + system-call trace validation of the real binary")

CHECKS["C04"] = dict(
    text="What Harper adds on top of the third-party grammars - byte->char conversion of comment node ranges, span "
         "coalescing, white-space merging, the ignore-marker filter - is specified over files of code / comment / "
         "ignored-comment / white-space segments with characters of 1-4 bytes (spec/SourceFile.tla); TLC checks that "
         "exactly the characters of ordinary comments are offered. On the real code, files are rendered from a segment "
         "grammar for all 22 comment languages, Markdown (both link options), HTML, Typst, Literate Haskell and "
         "git-commit buffers, with the ground truth recorded while rendering; TLC validates every Src event "
         "(spec/trace/Trace_SourceFile.tla): every prose word is a Word token with identical text at its true offset, "
         "no word-like token lies outside the prose, none of the marker words placed in code, string literals, URLs, "
         "inline code, fences, math, tags or ignore-marked comments reaches the rules. The line-based comment parsers "
         "are specified in spec/CommentLines.tla (leaders, offsets, code fences of both kinds, four named deviations); "
         "every sequence of <= 5 line kinds from TLC is rendered in nine language / comment styles and parsed by the "
         "real parsers (spec/trace/Trace_CommentLines.tla).",
    note="Trusted: TLC; the generators' templates (valid per grammar, accepted by the unchanged tree). Third-party "
         "parsers are black boxes; files outside the segment grammar (macros, heredocs, nested comment syntaxes) are not "
         "covered.",
    ref="4 C04", technique="TLA+ model checking (TLC) + trace validation against generated ground truth")

NOT_YET = {}


def main():
    props = [json.loads(l) for l in open(os.path.join(ROOT, "properties.jsonl"))]
    checks = []
    na = []
    for p in props:
        pid = p["id"]
        if pid in CHECKS:
            c = CHECKS[pid]
            checks.append({
                "property_id": pid,
                "quick_cmd": f"./check {pid} quick",
                "thorough_cmd": f"./check {pid} thorough",
                "evidence_file": f"/verif/evidence/{pid}.json",
                "replay_cmd_template": f"./check {pid} quick --replay {{path}}",
                "engine": "tla-harper",
                "level_claimed": {"category": c.get("category", "model_checking"), "text": c["text"],
                                  "design_ref": "DESIGN.md section " + c["ref"]},
                "level_note": c["note"],
                "technique": c["technique"],
            })
        else:
            na.append({"property_id": pid,
                       "reason": NOT_YET.get(pid, "check not built yet in this round; planned in DESIGN.md "
                                                  "section 4 (model-based, TLA+) — listed here only until "
                                                  "its spec, harness driver and trace spec are committed")})
    m = {
        "version": 1,
        "setup_cmd": "cd /verif/harness && CARGO_NET_OFFLINE=true cargo build --release --offline",
        "hooks": {
            "guard": "--cfg harper_verif",
            "enable": "rustflags in /verif/harness/.cargo/config.toml pass --cfg harper_verif to every "
                      "crate of the harness build (path dependencies on /repo)",
            "baseline_off_cmd": "cd /repo && RUSTUP_AUTO_INSTALL=0 cargo test --workspace --no-fail-fast --offline",
            "source_commits": HOOK_COMMITS,
            "add_only": True,
        },
        "engines": [{
            "name": "tla-harper", "path": "/verif/spec",
            "serves_properties": sorted(CHECKS.keys()),
            "kind_free_text": "explicit TLA+ specification (spec/*.tla) checked with TLC; bounded model "
                              "checking configs in spec/mc, trace specs in spec/trace; Rust harness "
                              "(harness/) replays TLC behaviours into the real crates and records NDJSON "
                              "traces that TLC validates against the spec",
        }],
        "checks": checks,
        "not_applicable": na,
        "notes": "Run from /verif. ./check <ID> <quick|thorough>. See DESIGN.md.",
    }
    with open(os.path.join(ROOT, "MANIFEST.json"), "w") as f:
        json.dump(m, f, indent=1)
    print("checks:", len(checks), "not_applicable:", len(na))


if __name__ == "__main__":
    main()
