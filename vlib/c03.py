"""C03 — every lint points into the text; every suggestion is an exact local edit."""
import json
import os

from . import common, corpus
from .common import SPEC


def gen_cases(wd, cfgname):
    r = common.tlc(os.path.join(SPEC, "mc", "MC_Spans.tla"), os.path.join(SPEC, "mc", cfgname),
                   "c03_gen", workers=4, coverage=False)
    cases = [p[1] for p in (common.parse_print(x) for x in r.prints) if p and p[0] == "CASE"]
    path = os.path.join(wd, "cases.ndjson")
    with open(path, "w") as f:
        for c in cases:
            f.write(json.dumps(c) + "\n")
    return path, len(cases)


def validate(v, trace, name):
    files = common.split_ndjson(trace, 15000, os.path.dirname(trace), name)
    res = common.validate_traces_parallel(os.path.join(SPEC, "trace", "Trace_Spans.tla"),
                                          os.path.join(SPEC, "trace", "Trace_Spans.cfg"),
                                          files, "c03_" + name)
    distinct = set()
    for f, consumed, rejects in res:
        evs = common.read_ndjson(f)
        if consumed != len(evs):
            raise common.ToolError(f"trace {f}: consumed {consumed} of {len(evs)} events")
        v.cov["traces_validated_against_impl"] += len(evs)
        v.cov["evaluations"] += len(evs)
        for e in evs:
            if e["ev"] == "Applied":
                distinct.add((e["kind"], len(e["repl"]), e["s"], e["e"], len(e["before"]), e.get("id", "")))
            elif e["ev"] == "Doc" and e["lints"]:
                distinct.add(("doc", e["front"], e["len"], len(e["lints"]), e["ids"][0]))
        if len(v.cov["samples"]) < 8:
            v.cov["samples"] += [e for e in evs if e["ev"] == "Applied" and e.get("src") == "rule"][:2]
            v.cov["samples"] += [e for e in evs if e["ev"] == "Doc" and e["lints"]][:1]
        for rej in rejects:
            line, reason = rej[0], rej[1]
            e = evs[line - 1]
            if e["ev"] == "Doc":
                k = rej[2]
                sig = {"kind": reason, "front": e["front"], "lint": e["ids"][k - 1]}
            else:
                sig = {"kind": reason, "sugg": e.get("kind"), "lint": e.get("id", e.get("src"))}
            v.failure(sig, {"event": e})
    return len(distinct)


def run(v):
    wd = common.workdir("c03")
    thorough = v.tier == "thorough"
    t = "thorough" if thorough else "quick"
    r = common.tlc(os.path.join(SPEC, "mc", "MC_Spans.tla"), os.path.join(SPEC, "mc", f"MC_Spans_{t}.cfg"),
                   "c03_mc", workers=4)
    if r.violated:
        v.failure({"kind": "model", "invariant": r.violated}, {"tlc_output": r.output[-3000:]})
    common.check_coverage(r, ["CopyStep", "SplitOff", "Extend", "Rejoin", "ShiftStep", "Truncate"], "MC_Spans")
    v.add_mc(f"MC_Spans/{t}", r, "all (text length, span, kind, replacement length) within bounds; "
             "AlgRefinesApply, ApplyIsLocal, InBounds")
    cases, ncases = gen_cases(wd, f"MC_Spans_gen_{t}.cfg")
    _, corp = corpus.harvest()
    trace = os.path.join(wd, "trace.ndjson")
    rc, out, err = common.run_hv(["c03", "--cases", cases, "--out", trace, "--seed", v.seed,
                                  "--random", 20000 if thorough else 3000, "--corpus", corp,
                                  "--docs", 40000 if thorough else 5000, "--family-sentences", 646 if thorough else 200])
    if rc != 0:
        raise common.ToolError("hv c03 failed: " + err[-2000:])
    v.cov["distinct_nontrivial"] = validate(v, trace, "t")
    v.cov["tlc_cases_replayed"] = ncases
    v.cov["rule"] = ("Applied events: every (len, span, kind, repl-len) from TLC's MC_Spans state graph "
                     "replayed into Suggestion::apply, seeded random triples over multi-byte texts, and "
                     "every suggestion of every lint that all rules produce on composed documents "
                     "(corpus sentences and their prefixes behind multi-byte lead-ins, wrapped for every "
                     "front-end). Doc events: all lint spans of one document. distinct = distinct "
                     "(kind, repl-len, span, text-len, lint id) tuples / documents with >=1 lint")
    return v.finish()


def replay(v, path):
    rep = json.load(open(path))
    e = rep["replay"]["event"]
    print(json.dumps(e, ensure_ascii=False)[:2000])
    wd = common.workdir("c03_replay")
    trace = os.path.join(wd, "trace.ndjson")
    with open(trace, "w") as f:
        f.write(json.dumps(e) + "\n")
    validate(v, trace, "r")
    return v.finish()
