"""C09 — the language server's last word on a document reflects the latest text."""
import json
import os

from . import common
from .common import SPEC
from .c05 import split_sessions

TRACE_TLA = os.path.join(SPEC, "trace", "Trace_LspServer.tla")
TRACE_CFG = os.path.join(SPEC, "trace", "Trace_LspServer.cfg")


def validate(v, trace, name):
    files = split_sessions(trace, os.path.dirname(trace), name, max_events=4000)
    res = common.validate_traces_parallel(TRACE_TLA, TRACE_CFG, files, "c09_" + name, procs=8)
    distinct = set()
    sessions = 0
    for f, consumed, rejects in res:
        evs = common.read_ndjson(f)
        if consumed != len(evs):
            raise common.ToolError(f"trace {f}: consumed {consumed} of {len(evs)} events")
        v.cov["evaluations"] += len(evs)
        start = 0
        for i, e in enumerate(evs + [{"ev": "Reset"}]):
            if e["ev"] == "Reset":
                if i > start:
                    distinct.add(tuple((x.get("kind"), x.get("url"), tuple(x.get("order", []))) for x in evs[start:i] if x["ev"] in ("Recv", "Sched")))
                    sessions += 1
                start = i
        if len(v.cov["samples"]) < 4:
            s = [e for e in evs if e["ev"] == "Sched"]
            if s:
                i = evs.index(s[0])
                v.cov["samples"].append(evs[max(0, i - 3):i + 4])
        for rej in rejects:
            e = evs[rej[0] - 1]
            # the messages of the session up to here
            j = rej[0] - 1
            while j > 0 and evs[j]["ev"] != "Reset":
                j -= 1
            kinds = [x["kind"] for x in evs[j:rej[0]] if x["ev"] == "Recv"]
            sig = {"kind": rej[1]}
            if rej[1] == "stale-last-word-after-sequential-handling":
                sig["last_message"] = kinds[-1] if kinds else ""
            v.failure(sig, {"event": e, "messages": kinds, "session_file": f, "line": rej[0]})
    v.cov["traces_validated_against_impl"] += sessions
    return len(distinct)


def run(v):
    wd = common.workdir("c09")
    thorough = v.tier == "thorough"
    t = "thorough" if thorough else "quick"
    r = common.tlc(os.path.join(SPEC, "mc", "MC_LspServer.tla"), os.path.join(SPEC, "mc", f"MC_LspServer_{t}.cfg"),
                   "c09_mc", workers=12, timeout=3000, coverage=False)
    if r.violated:
        v.failure({"kind": "model", "invariant": r.violated}, {"tlc_output": r.output[-3000:]})
    v.add_mc(f"MC_LspServer/{t}", r, "2 urls x 2 texts x 2 configurations, open/change/save/close/refresh/didChangeConfiguration, handlers interleaved at "
             "read/cfg/load/set/pub and store/rebuild/each: "
             "LastWordUnlessOverlapped (the quiescent last-word invariant, with overlapping handlers for one url as the "
             "named deviation)")
    rs = common.tlc(os.path.join(SPEC, "mc", "MC_LspServer.tla"), os.path.join(SPEC, "mc", "MC_LspServer_strict.cfg"),
                    "c09_mc_strict", workers=4, timeout=900, coverage=False)
    v.cov["design_level_counterexample_without_named_deviation"] = bool(rs.violated)
    # the repaired refresh path is part of the model: with RefreshFromMemory = FALSE (re-read from disk,
    # the code before the repair) a purely sequential history already violates the invariant
    rd = common.tlc(os.path.join(SPEC, "mc", "MC_LspServer.tla"), os.path.join(SPEC, "mc", "MC_LspServer_diskrefresh.cfg"),
                    "c09_mc_disk", workers=4, timeout=900, coverage=False)
    v.cov["design_level_counterexample_with_disk_refresh"] = bool(rd.violated)
    # a seeded deviation (didChangeConfiguration keeps the linters of open documents) must be refuted sequentially
    rk = common.tlc(os.path.join(SPEC, "mc", "MC_LspServer.tla"), os.path.join(SPEC, "mc", "MC_LspServer_dev_keeplinters.cfg"),
                    "c09_mc_keep", workers=4, timeout=900, coverage=False)
    if rk.violated != "LastWordUnlessOverlapped":
        raise common.ToolError("MC_LspServer: the keep-linters deviation is not refuted (vacuous invariant)")
    # the code before repair 06e6ed9 (the record of merged identifiers survives the replacement of the dictionary)
    ri = common.tlc(os.path.join(SPEC, "mc", "MC_LspServer.tla"), os.path.join(SPEC, "mc", "MC_LspServer_dev_identrecord.cfg"),
                    "c09_mc_ident", workers=4, timeout=900, coverage=False)
    if ri.violated != "LastWordUnlessOverlapped":
        raise common.ToolError("MC_LspServer: the identifier-record deviation is not refuted (vacuous invariant)")
    # a seeded deviation: identifiers are merged into the dictionary the document already has (they accumulate)
    ra = common.tlc(os.path.join(SPEC, "mc", "MC_LspServer.tla"), os.path.join(SPEC, "mc", "MC_LspServer_dev_accumulate.cfg"),
                    "c09_mc_acc", workers=4, timeout=900, coverage=False)
    if ra.violated != "LastWordUnlessOverlapped":
        raise common.ToolError("MC_LspServer: the accumulating-identifiers deviation is not refuted (vacuous invariant)")
    # a seeded deviation: the announcement rebuilds the linters only if the server's copy of the settings changes
    ro = common.tlc(os.path.join(SPEC, "mc", "MC_LspServer.tla"), os.path.join(SPEC, "mc", "MC_LspServer_dev_onlyifchanged.cfg"),
                    "c09_mc_oic", workers=4, timeout=900, coverage=False)
    if ro.violated != "LastWordUnlessOverlapped":
        raise common.ToolError("MC_LspServer: the rebuild-only-if-changed deviation is not refuted (vacuous invariant)")
    # a seeded deviation: of several content changes in one notification the first is taken
    rb = common.tlc(os.path.join(SPEC, "mc", "MC_LspServer.tla"), os.path.join(SPEC, "mc", "MC_LspServer_dev_firstofbatch.cfg"),
                    "c09_mc_fob", workers=4, timeout=900, coverage=False)
    if rb.violated != "LastWordUnlessOverlapped":
        raise common.ToolError("MC_LspServer: the first-of-batch deviation is not refuted (vacuous invariant)")
    # a named deviation: a notification without settings (`settings: null`) leaves the old settings in force
    rn = common.tlc(os.path.join(SPEC, "mc", "MC_LspServer.tla"), os.path.join(SPEC, "mc", "MC_LspServer_dev_nullsettings.cfg"),
                    "c09_mc_null", workers=4, timeout=900, coverage=False)
    if rn.violated != "LastWordUnlessOverlapped":
        raise common.ToolError("MC_LspServer: the null-settings deviation is not refuted (vacuous invariant)")
    # a named deviation: didSave takes the file's contents for the document (the file may differ from the buffer)
    rsv = common.tlc(os.path.join(SPEC, "mc", "MC_LspServer.tla"), os.path.join(SPEC, "mc", "MC_LspServer_dev_savereadsdisk.cfg"),
                     "c09_mc_save", workers=4, timeout=900, coverage=False)
    if rsv.violated != "LastWordUnlessOverlapped":
        raise common.ToolError("MC_LspServer: the save-reads-disk deviation is not refuted (vacuous invariant)")
    rtm = common.tlc(os.path.join(SPEC, "mc", "MC_LspServer.tla"), os.path.join(SPEC, "mc", "MC_LspServer_tamper.cfg"),
                     "c09_mc_tamper", workers=4, timeout=900, coverage=False)
    if rtm.violated:
        v.failure({"kind": "model", "invariant": rtm.violated, "cfg": "tamper"}, {"tlc_output": rtm.output[-3000:]})
    v.add_mc("MC_LspServer/tamper", rtm, "the file behind an open document may come to differ from the buffer: LastWordUnlessOverlapped")
    # the user dictionary as server state (UserDict.tla): model, named deviation refuted, real sessions validated
    mcu = os.path.join(SPEC, "mc", "MC_UserDict.tla")
    ru = common.tlc(mcu, os.path.join(SPEC, "mc", "MC_UserDict_dev_onlynamed.cfg"), "c09_ud_dev", workers=2, timeout=600, coverage=False)
    if ru.violated != "AcceptedEverywhere":
        raise common.ToolError("MC_UserDict_dev_onlynamed: TLC did not refute AcceptedEverywhere (vacuous invariant)")
    ru = common.tlc(mcu, os.path.join(SPEC, "mc", "MC_UserDict_quick.cfg"), "c09_ud", workers=2, timeout=600, coverage=False)
    if ru.violated:
        v.failure({"kind": "model", "invariant": ru.violated, "module": "UserDict"}, {"tlc_output": ru.output[-3000:]})
    v.add_mc("MC_UserDict", ru, "three documents, open / change / close / add-to-user-dictionary in every order: AcceptedEverywhere, NotBefore")
    tud = os.path.join(wd, "trace_userdict.ndjson")
    rc, out, err = common.run_hv(["ls-userdict", "--out", tud, "--seed", v.seed, "--sessions", 120 if thorough else 15], timeout=3600)
    if rc != 0:
        raise common.ToolError("hv ls-userdict failed: " + err[-1500:])
    consumed, rejects, _ = common.validate_trace(os.path.join(SPEC, "trace", "Trace_UserDict.tla"), os.path.join(SPEC, "trace", "Trace_UserDict.cfg"),
                                                 tud, "c09_udt", timeout=600)
    uevs = common.read_ndjson(tud)
    if consumed != len(uevs):
        raise common.ToolError(f"trace {tud}: consumed {consumed} of {len(uevs)} events")
    v.cov["evaluations"] += len(uevs)
    v.cov["traces_validated_against_impl"] += sum(1 for e in uevs if e["ev"] == "Reset")
    v.cov["user_dictionary_sessions"] = {"sessions": sum(1 for e in uevs if e["ev"] == "Reset"), "adds": sum(1 for e in uevs if e["ev"] == "Add")}
    for rej in rejects:
        i = rej[0] - 1
        k = i
        while k > 0 and uevs[k]["ev"] != "Reset":
            k -= 1
        v.failure({"kind": rej[1], "level": "user-dictionary"}, {"event": uevs[i], "session": uevs[k:i + 1]})
    # liveness: the server always comes to rest (weak fairness of handler steps, no state constraint)
    rl = common.tlc(os.path.join(SPEC, "mc", "MC_LspServer.tla"), os.path.join(SPEC, "mc", "MC_LspServer_live.cfg"),
                    "c09_mc_live", workers=8, timeout=1800, coverage=False)
    if rl.violated or not rl.ok:
        v.failure({"kind": "model", "invariant": "ComesToRest"}, {"tlc_output": rl.output[-3000:]})
    v.add_mc("MC_LspServer/live", rl, "temporal property ComesToRest under WF of handler steps")
    trace = os.path.join(wd, "trace.ndjson")
    rc, out, err = common.run_hv(["c09", "--out", trace, "--seed", v.seed, "--batches", 400 if thorough else 100,
                                  "--random-batches", 600 if thorough else 40, "--random-seq", 400 if thorough else 25, "--long-docs", 2 if thorough else 1], timeout=7200)
    if rc != 0:
        raise common.ToolError("hv c09 failed: " + err[-2000:])
    v.cov["distinct_nontrivial"] = validate(v, trace, "t")
    v.cov["rule"] = ("sessions on the real harper-ls Backend (in process; a saved .txt, a saved .md and an untitled buffer): "
                     "(1) every sequential history open, k1, k2 with k in {change, save, close, add-to-user-dict, "
                     "add-to-file-dict, didChangeConfiguration, watched-file delete} per document; (2) two documents open, "
                     "then a batch of 2 (all kind pairs, same/different url) or 2-4 random messages sent back to back, the "
                     "handlers started in order and their configuration round trips answered in every (batches of 2) or a "
                     "random (larger) order; after every quiescent point the last publish per url is compared with the "
                     "client's newest text; distinct = distinct (history, schedule)")
    v.assumptions += ["schedules are imposed from outside by choosing which handler future to poll and when to answer its "
                      "workspace/configuration request; interleavings inside the dictionary-loading part are left to the runtime"]
    return v.finish()


def replay(v, path):
    rep = json.load(open(path))
    print(json.dumps(rep["replay"], ensure_ascii=False)[:2000])
    sf = rep["replay"].get("session_file")
    if sf and os.path.exists(sf):
        validate(v, sf, "r")
    return v.finish()
