"""C16 — the JavaScript-facing linter API is self-consistent."""
import json
import os

from . import common, corpus
from .common import SPEC
from .c05 import split_sessions

TRACE_TLA = os.path.join(SPEC, "trace", "Trace_JsLinter.tla")
TRACE_CFG = os.path.join(SPEC, "trace", "Trace_JsLinter.cfg")


def validate(v, trace, name):
    files = split_sessions(trace, os.path.dirname(trace), name, max_events=2000)
    res = common.validate_traces_parallel(TRACE_TLA, TRACE_CFG, files, "c16_" + name, procs=8)
    distinct = set()
    sessions = 0
    for f, consumed, rejects in res:
        evs = common.read_ndjson(f)
        if consumed != len(evs):
            raise common.ToolError(f"trace {f}: consumed {consumed} of {len(evs)} events")
        v.cov["evaluations"] += len(evs)
        start = 0
        for i, e in enumerate(evs):
            if e["ev"] == "Reset":
                sessions += 1
                start = i
            if e["ev"] == "Clone":
                distinct.add(tuple(x["ev"] for x in evs[start:i]))
        if len(v.cov["samples"]) < 5:
            v.cov["samples"] += [{"ev": e["ev"], "text": e.get("text", "")[:80], "n": len(e.get("lints", []))} for e in evs if e["ev"] == "Lint" and e["lints"]][:1]
            v.cov["samples"] += [e for e in evs if e["ev"] == "Import"][:1]
        for rej in rejects:
            e = evs[rej[0] - 1]
            sig = {"kind": rej[1]}
            if rej[1] in ("added-word-reported", "export-import-clone-behaves-differently"):
                # were two spellings of one word (same letters, different case) imported in this session?
                j = rej[0] - 1
                while j > 0 and evs[j]["ev"] != "Reset":
                    j -= 1
                words = [w for x in evs[j:rej[0]] if x["ev"] == "Import" for w in x["words"]]
                low = [w.lower() for w in words]
                sig["case_variants_imported"] = len(set(low)) < len(set(words))
            v.failure(sig, {"event": e, "session_file": f, "line": rej[0]})
    v.cov["traces_validated_against_impl"] += sessions
    return len(distinct)


def run(v):
    wd = common.workdir("c16")
    thorough = v.tier == "thorough"
    t = "thorough" if thorough else "quick"
    r = common.tlc(os.path.join(SPEC, "mc", "MC_JsLinter.tla"), os.path.join(SPEC, "mc", f"MC_JsLinter_{t}.cfg"),
                   "c16_mc", workers=12, timeout=3000)
    if r.violated:
        v.failure({"kind": "model", "invariant": r.violated}, {"tlc_output": r.output[-3000:]})
    common.check_coverage(r, ["ImportWords", "IgnoreLint", "RoundTripIgnored"], "MC_JsLinter")
    v.add_mc(f"MC_JsLinter/{t}", r, "all call sequences of import_words / ignore_lint / ignore-list round trip up to MaxOps over "
             "a three-word vocabulary with a case variant: CloneBehavesTheSame, ImportedWordsAccepted, IgnoredStayHidden")
    rg = common.tlc(os.path.join(SPEC, "mc", "MC_JsLinter.tla"), os.path.join(SPEC, "mc", "MC_JsLinter_gen.cfg"),
                    "c16_gen", workers=8, coverage=False, timeout=1800)
    cases = os.path.join(wd, "cases.ndjson")
    n = 0
    stride = 2 if thorough else 12
    with open(cases, "w") as f:
        for x in rg.prints:
            p = common.parse_print(x)
            if p and p[0] == "CASE":
                n += 1
                if n % stride == v.seed % stride:
                    f.write(json.dumps(p[1]) + "\n")
    # the ignore-list calls taken apart (ignore / export / clear / import / lint), 4 calls deep
    ri = common.tlc(os.path.join(SPEC, "mc", "MC_JsLinter.tla"), os.path.join(SPEC, "mc", "MC_JsLinter_ignorelist.cfg"),
                    "c16_ign", workers=8, coverage=False, timeout=1800)
    if ri.violated:
        v.failure({"kind": "model", "invariant": ri.violated}, {"tlc_output": ri.output[-3000:]})
    v.add_mc("MC_JsLinter/ignorelist", ri, "ignore_lint / export / clear / import (appends) / lint, 6 calls deep: AnswerIsCurrent, IgnoredStayHidden")
    rm = common.tlc(os.path.join(SPEC, "mc", "MC_JsLinter.tla"), os.path.join(SPEC, "mc", "MC_JsLinter_dev_memo.cfg"),
                    "c16_memo", workers=4, coverage=False, timeout=900)
    if rm.violated != "AnswerIsCurrent":
        raise common.ToolError("MC_JsLinter: the lint-memo deviation is not refuted (vacuous invariant)")
    rdc = common.tlc(os.path.join(SPEC, "mc", "MC_JsLinter.tla"), os.path.join(SPEC, "mc", "MC_JsLinter_dev_doccache.cfg"),
                     "c16_doccache", workers=4, coverage=False, timeout=900)
    if rdc.violated != "PromisedHidden":
        raise common.ToolError("MC_JsLinter: the document-cache deviation is not refuted (vacuous invariant)")
    rg2 = common.tlc(os.path.join(SPEC, "mc", "MC_JsLinter.tla"), os.path.join(SPEC, "mc", "MC_JsLinter_gen_ignorelist.cfg"),
                     "c16_gen2", workers=8, coverage=False, timeout=1800)
    stride2 = 10 if thorough else 90
    with open(cases, "a") as f:
        for x in rg2.prints:
            p = common.parse_print(x)
            if p and p[0] == "CASE":
                n += 1
                if n % stride2 == v.seed % stride2:
                    f.write(json.dumps(p[1]) + "\n")
    _, corp = corpus.harvest()
    trace = os.path.join(wd, "trace.ndjson")
    rc, out, err = common.run_hv(["c16", "--cases", cases, "--out", trace, "--seed", v.seed, "--corpus", corp,
                                  "--sessions", 3000 if thorough else 250], timeout=7200)
    if rc != 0:
        raise common.ToolError("hv c16 failed: " + err[-2000:])
    v.cov["distinct_nontrivial"] = validate(v, trace, "t")
    v.cov["tlc_histories_generated"] = n
    v.cov["rule"] = ("sessions on one real harper_wasm::Linter (native build): every TLC call sequence of 3 operations "
                     "(import_words with case variants, ignore_lint, ignore-list export/clear/import) concretised with "
                     "non-dictionary words, and random sessions over corpus texts in both languages (lint, apply every "
                     "suggestion through apply_suggestion, Lint/Span JSON round trips, ignore, import words taken from "
                     "the text, config JSON); every session ends by cloning the object through export_words / "
                     "export_ignored_lints / config JSON and comparing both on probe texts; distinct = distinct "
                     "operation sequences")
    v.assumptions += ["methods returning JsValue need a JS host and are not exercised"]
    return v.finish()


def replay(v, path):
    rep = json.load(open(path))
    print(json.dumps(rep["replay"]["event"], ensure_ascii=False)[:2000])
    sf = rep["replay"].get("session_file")
    if sf and os.path.exists(sf):
        validate(v, sf, "r")
    return v.finish()
