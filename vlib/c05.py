"""C05 — lint results depend only on text, language, dictionary and configuration."""
import json
import os

from . import common, corpus
from .common import SPEC

TRACE_TLA = os.path.join(SPEC, "trace", "Trace_LintGroup.tla")
TRACE_CFG = os.path.join(SPEC, "trace", "Trace_LintGroup.cfg")


def split_sessions(trace, outdir, name, max_events=4000):
    os.makedirs(outdir, exist_ok=True)
    files, buf, idx = [], [], 0

    def flush():
        nonlocal buf, idx
        if buf:
            p = os.path.join(outdir, f"{name}_{idx:04d}.ndjson")
            open(p, "w").writelines(buf)
            files.append(p)
            buf, idx = [], idx + 1
    for line in open(trace):
        if line.startswith('{"ev":"Reset"') and len(buf) >= max_events:
            flush()
        buf.append(line)
    flush()
    return files


def validate(v, trace, name):
    files = split_sessions(trace, os.path.dirname(trace), name)
    res = common.validate_traces_parallel(TRACE_TLA, TRACE_CFG, files, "c05_" + name, procs=8)
    distinct = set()
    hits = 0
    sessions = 0
    for f, consumed, rejects in res:
        evs = common.read_ndjson(f)
        if consumed != len(evs):
            raise common.ToolError(f"trace {f}: consumed {consumed} of {len(evs)} events")
        v.cov["evaluations"] += len(evs)
        for e in evs:
            if e["ev"] == "Reset":
                sessions += 1
            if e["ev"] == "Lint":
                hits += e["hits"]
                if e["n"] > 0 and e["hits"] > 0:
                    distinct.add((e["text"], e["lang"], e["cfg"]))
        if len(v.cov["samples"]) < 5:
            v.cov["samples"] += [{k: e[k] for k in ("text", "lang", "cfg", "hits", "misses", "n")}
                                 for e in evs if e["ev"] == "Lint" and e["hits"] > 0 and e["n"] > 0][:2]
        for rej in rejects:
            e = evs[rej[0] - 1]
            sig = {"kind": rej[1]}
            if e["ev"] == "Lint":
                # which earlier request of the session shares a chunk's characters but not its tokens?
                sig["lang"] = e["lang"]
            v.failure(sig, {"event": e, "session_file": f, "line": rej[0]})
    v.cov["traces_validated_against_impl"] += sessions
    v.cov["cache_hits_observed"] = v.cov.get("cache_hits_observed", 0) + hits
    for f, d in common.LAST_DRIFTS[:10]:
        e = common.read_ndjson(f)[d[0] - 1]
        v.drift.append("cache hits differ from the model: real %s, model %s for %r" % (d[1], d[2], e.get("text", "")[:60]))
    return len(distinct)


def run(v):
    wd = common.workdir("c05")
    thorough = v.tier == "thorough"
    mcs = [("MC_LintGroup_onelang.cfg", None), ("MC_LintGroup_twolang_fixed.cfg", None), ("MC_LintGroup_glue.cfg", None)]
    # a seeded deviation (a pattern rule reading what stands before its chunk) must be refuted
    rp = common.tlc(os.path.join(SPEC, "mc", "MC_LintGroup.tla"), os.path.join(SPEC, "mc", "MC_LintGroup_dev_peek.cfg"), "c05_mc_peek",
                    workers=2, timeout=600, coverage=False)
    if rp.violated != "CacheUnobservable":
        raise common.ToolError("MC_LintGroup: the peeking-rule deviation is not refuted (vacuous invariant)")
    if thorough:
        mcs.append(("MC_LintGroup_thorough.cfg", None))
    for cfg, _ in mcs:
        r = common.tlc(os.path.join(SPEC, "mc", "MC_LintGroup.tla"), os.path.join(SPEC, "mc", cfg), "c05_mc",
                       workers=8, timeout=1800)
        if r.violated:
            v.failure({"kind": "model", "invariant": r.violated, "cfg": cfg}, {"tlc_output": r.output[-3000:]})
        common.check_coverage(r, ["SetConfig", "Lint"], cfg)
        v.add_mc("MC_LintGroup/" + cfg, r, "all histories of SetConfig/Lint up to MaxOps over documents whose chunks "
                 "collide by construction, LRU capacity 2: CacheUnobservable, Decomposes")
    rg = common.tlc(os.path.join(SPEC, "mc", "MC_LintGroupH.tla"), os.path.join(SPEC, "mc", "MC_LintGroupH_gen.cfg"),
                    "c05_gen", workers=8, coverage=False, timeout=1800)
    cases = os.path.join(wd, "cases.ndjson")
    n = 0
    stride = 1 if thorough else 7
    with open(cases, "w") as f:
        for x in rg.prints:
            p = common.parse_print(x)
            if p and p[0] == "CASE":
                n += 1
                if n % stride == v.seed % stride:
                    f.write(json.dumps(p[1]) + "\n")
    _, corp = corpus.harvest()
    trace = os.path.join(wd, "trace.ndjson")
    args = ["c05", "--cases", cases, "--out", trace, "--seed", v.seed, "--corpus", corp,
            "--sessions", 2000 if thorough else 150, "--glue-families", 600 if thorough else 150, "--family-sentences", 646 if thorough else 80, "--thread-docs", 2000 if thorough else 200]
    rc, out, err = common.run_hv(args, timeout=7200)
    if rc != 0:
        raise common.ToolError("hv c05 failed rc=%s: " % rc + err[-2000:])
    # second process: same documents, compared by digest
    trace2 = os.path.join(wd, "trace2.ndjson")
    rc, out, err = common.run_hv(["c05", "--out", trace2, "--seed", v.seed, "--corpus", corp, "--sessions", 0,
                                  "--thread-docs", 2000 if thorough else 200], timeout=7200)
    if rc != 0:
        raise common.ToolError("hv c05 (second process) failed: " + err[-2000:])
    with open(trace, "a") as f:
        for e in common.read_ndjson(trace2):
            if e["ev"] == "Proc":
                e["ev"] = "Proc2"
                f.write(json.dumps(e) + "\n")
    v.cov["distinct_nontrivial"] = validate(v, trace, "t")
    if v.cov.get("cache_hits_observed", 0) == 0:
        raise common.ToolError("vacuous C05 run: the chunk cache was never hit")
    v.cov["tlc_histories_generated"] = n
    v.cov["rule"] = ("sessions on one long-lived real LintGroup, each Lint compared with a freshly built group: "
                     "every TLC history of 4 operations over {8 configurations} x {4 model documents} concretised "
                     "through 5 document pools (same characters tokenised differently by plain English and "
                     "Markdown, a clause at two offsets, a clause twice), random histories over corpus sentences "
                     "in both languages with config switches, the same documents on 1/2/8 threads and in a second "
                     "process; distinct = distinct (text, language, config) requests that hit the cache and "
                     "produced lints")
    return v.finish()


def replay(v, path):
    rep = json.load(open(path))
    print(json.dumps(rep["replay"]["event"], ensure_ascii=False)[:2000])
    sf = rep["replay"].get("session_file")
    if sf and os.path.exists(sf):
        validate(v, sf, "r")
    return v.finish()
