"""C18 — title-casing only changes letter case and is idempotent."""
import json
import os

from . import common, corpus
from .common import SPEC

TRACE_TLA = os.path.join(SPEC, "trace", "Trace_TitleCase.tla")
TRACE_CFG = os.path.join(SPEC, "trace", "Trace_TitleCase.cfg")


def validate(v, trace, name):
    files = common.split_ndjson(trace, 8000, os.path.dirname(trace), name)
    res = common.validate_traces_parallel(TRACE_TLA, TRACE_CFG, files, "c18_" + name, procs=8)
    distinct = set()
    for f, consumed, rejects in res:
        evs = common.read_ndjson(f)
        if consumed != len(evs):
            raise common.ToolError(f"trace {f}: consumed {consumed} of {len(evs)} events")
        v.cov["traces_validated_against_impl"] += len(evs)
        v.cov["evaluations"] += len(evs)
        for e in evs:
            if e["ev"] == "Title" and e["in"] != e["out"]:
                distinct.add(e["text"])
        if len(v.cov["samples"]) < 6:
            v.cov["samples"] += [{"in": e["text"], "out": "".join(map(chr, e["out"]))}
                                 for e in evs if e["ev"] == "Title" and e["in"] != e["out"]][:2]
        for rej in rejects:
            e = evs[rej[0] - 1]
            if e["ev"] == "TitlePanic":
                v.failure({"kind": "panic", "loc": e["loc"]}, {"event": e})
            else:
                v.failure({"kind": rej[1], "text": e["text"]}, {"event": e})
    return len(distinct)


def run(v):
    wd = common.workdir("c18")
    thorough = v.tier == "thorough"
    t = "thorough" if thorough else "quick"
    r = common.tlc(os.path.join(SPEC, "mc", "MC_TitleCase.tla"), os.path.join(SPEC, "mc", f"MC_TitleCase_{t}.cfg"),
                   "c18_mc", workers=8, timeout=1800)
    if r.violated:
        v.failure({"kind": "model", "invariant": r.violated}, {"tlc_output": r.output[-3000:]})
    common.check_coverage(r, ["AddTok", "Run"], "MC_TitleCase")
    v.add_mc(f"MC_TitleCase/{t}", r, "all token strings within bounds with proper-noun / capitalisation "
             "attributes: LengthKept, OnlyCase, FirstCap, Idempotent")
    # two deviations seeded changes introduced must be refuted by the same invariants
    for dev, inv in (("dev_allcaps", "Idempotent"), ("dev_latin", "FirstCap")):
        rd = common.tlc(os.path.join(SPEC, "mc", "MC_TitleCase.tla"), os.path.join(SPEC, "mc", f"MC_TitleCase_{dev}.cfg"), "c18_mc_dev",
                        workers=2, timeout=600, coverage=False)
        if rd.violated != inv:
            raise common.ToolError(f"MC_TitleCase: deviation {dev} is not refuted (vacuous invariant)")
    _, corp = corpus.harvest()
    trace = os.path.join(wd, "trace.ndjson")
    rc, out, err = common.run_hv(["c18", "--out", trace, "--seed", v.seed, "--corpus", corp,
                                  "--n", 60000 if thorough else 5000, "--corpus-n", 646 if thorough else 200])
    if rc != 0:
        raise common.ToolError("hv c18 failed: " + err[-2000:])
    v.cov["distinct_nontrivial"] = validate(v, trace, "t")
    v.cov["rule"] = ("titles assembled from corpus words, dictionary proper nouns (as listed, lower-cased, "
                     "upper-cased with curly apostrophes), short prepositions/determiners/conjunctions, "
                     "numbers, hyphenated and non-ASCII words, punctuation and quotes; both "
                     "make_title_case_str and harper_wasm::to_title_case; distinct = distinct inputs that "
                     "title-casing changed")
    v.assumptions += ["case folding of a single character is taken from Rust's char::to_lowercase in the harness"]
    return v.finish()


def replay(v, path):
    rep = json.load(open(path))
    e = rep["replay"]["event"]
    print(json.dumps(e, ensure_ascii=False))
    wd = common.workdir("c18_replay")
    trace = os.path.join(wd, "trace.ndjson")
    with open(trace, "w") as f:
        f.write(json.dumps(e) + "\n")
    validate(v, trace, "r")
    return v.finish()
