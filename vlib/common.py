"""Common machinery for the /verif checks.

Pipeline per property (DESIGN.md section 3):
  build harness -> (M) TLC model check -> cases from TLC -> (R) replay on real code
  -> drivers -> (T) TLC trace validation -> classify vs known findings -> evidence.

Exit codes: 0 held, 1 VIOLATION (printed with replay path), 2 tool trouble.
"""
import hashlib
import json
import os
import re
import shutil
import subprocess
import sys
import time

ROOT = os.path.dirname(os.path.dirname(os.path.abspath(__file__)))
SPEC = os.path.join(ROOT, "spec")
# VERIF_HARNESS_DIR: a scratch copy of harness/ whose path dependencies point at a scratch worktree of
# the repository (used only to try the checks against seeded changes without touching /repo)
HARNESS = os.environ.get("VERIF_HARNESS_DIR", os.path.join(ROOT, "harness"))
WORK = os.path.join(ROOT, "work")
EVID = os.path.join(ROOT, "evidence")
REPLAYS = os.path.join(ROOT, "replays")
HV = os.path.join(HARNESS, "target", "release", "hv")
TLA_JAR = "/opt/veriftools/tla/tla2tools.jar:/opt/veriftools/tla/CommunityModules-deps.jar"
REPO = os.environ.get("HARPER_SRC", "/repo")


LAST_DRIFTS = []


class ToolError(Exception):
    pass


def log(*a):
    print(*a, flush=True)


def workdir(name):
    d = os.path.join(WORK, name)
    shutil.rmtree(d, ignore_errors=True)
    os.makedirs(d, exist_ok=True)
    return d


def seed_from_env():
    try:
        return int(os.environ.get("VERIF_SEED", "1"))
    except ValueError:
        return 1


_built = False


HARNESS_OK = True
HARNESS_BUILD_ERROR = ""


def sync_manifest():
    """The harness compiles harper-ls and harper-cli sources inside its own package (#[path] modules, the two
    -real binaries), so it needs every dependency those crates declare.  Dependencies their manifests name and the
    harness manifest lacks are appended (between two marker lines) before building; nothing else is touched."""
    import tomllib
    mf = os.path.join(HARNESS, "Cargo.toml")
    text = open(mf).read()
    begin, end = "# >>> dependencies followed from the repository's manifests\n", "# <<<\n"
    if begin in text:
        text = text[:text.index(begin)] + text[text.index(end) + len(end):]
    have = tomllib.loads(text).get("dependencies", {})
    extra = []
    for crate in ("harper-ls", "harper-cli"):
        try:
            deps = tomllib.load(open(os.path.join(REPO, crate, "Cargo.toml"), "rb")).get("dependencies", {})
        except Exception:
            continue
        for name, spec in deps.items():
            if name in have or any(x[0] == name for x in extra):
                continue
            if isinstance(spec, str):
                extra.append((name, json.dumps(spec)))
            else:
                parts = []
                for k, val in spec.items():
                    if k == "path":
                        val = os.path.normpath(os.path.join(REPO, crate, val))
                    elif k == "version" and "path" in spec:
                        continue
                    parts.append(f"{k} = {json.dumps(val)}")
                extra.append((name, "{ " + ", ".join(parts) + " }"))
    if extra:
        block = begin + "".join(f"{n} = {v}\n" for n, v in extra) + end
        # the generated block belongs to [dependencies]: put it right after that table's header
        head = "[dependencies]\n"
        i = text.index(head) + len(head)
        text = text[:i] + block + text[i:]
    if text != open(mf).read():
        open(mf, "w").write(text)
        log("[build] harness manifest: followed " + (", ".join(n for n, _ in extra) or "no extra dependencies"))


def build_harness(protocol_only_ok=False):
    """Rebuild the harness against /repo's working tree with --cfg harper_verif."""
    global _built
    if _built:
        return HV
    t0 = time.time()
    env = dict(os.environ)
    env["CARGO_NET_OFFLINE"] = "true"
    # a lock so that concurrently started checks do not fight over target/
    lock = os.path.join(HARNESS, ".build.lock")
    import fcntl
    with open(lock, "w") as lf:
        fcntl.flock(lf, fcntl.LOCK_EX)
        sync_manifest()
        p = subprocess.run(["cargo", "build", "--release", "--offline", "--quiet"],
                           cwd=HARNESS, env=env, stdout=subprocess.PIPE,
                           stderr=subprocess.STDOUT, text=True)
    if p.returncode != 0:
        tail = "\n".join(p.stdout.splitlines()[-40:])
        # The harness binds to harper-ls internals; a reshaped internal interface stops it from compiling.
        # The real language-server binary may still build: checks with a protocol-level stage go on with that alone.
        if protocol_only_ok:
            with open(lock, "w") as lf:
                fcntl.flock(lf, fcntl.LOCK_EX)
                q = subprocess.run(["cargo", "build", "--release", "--offline", "--quiet", "--bin", "harper-ls-real"],
                                   cwd=HARNESS, env=env, stdout=subprocess.PIPE, stderr=subprocess.STDOUT, text=True)
            if q.returncode == 0:
                global HARNESS_OK, HARNESS_BUILD_ERROR
                HARNESS_OK, HARNESS_BUILD_ERROR = False, tail
                log("[build] the harness does not compile against this tree; harper-ls-real does (protocol-level stages only)")
                _built = True
                return None
        raise ToolError("harness build failed:\n" + tail)
    log(f"[build] harness built in {time.time()-t0:.1f}s")
    _built = True
    return HV


def run_hv(args, timeout=3600, stdin=None, env_extra=None):
    """Run the harness binary; returns (rc, stdout, stderr)."""
    env = dict(os.environ)
    # scratch directories of the harness live under work/, not under /tmp (a killed run leaves them behind)
    tmp = os.path.join(WORK, "tmp")
    os.makedirs(tmp, exist_ok=True)
    env["TMPDIR"] = tmp
    if env_extra:
        env.update(env_extra)
    p = subprocess.run([HV] + [str(a) for a in args], stdout=subprocess.PIPE,
                       stderr=subprocess.PIPE, text=True, timeout=timeout,
                       input=stdin, env=env)
    return p.returncode, p.stdout, p.stderr


class TlcResult:
    def __init__(self):
        self.ok = False
        self.generated = 0
        self.distinct = 0
        self.violated = None
        self.error = None
        self.prints = []      # raw PrintT lines
        self.coverage = {}    # action -> (distinct, total)
        self.output = ""
        self.wall = 0.0
        self.depth = 0


_RE_STATES = re.compile(r"^(\d+) states generated, (\d+) distinct states found")
_RE_COV = re.compile(r"^<(\w+) line \d+, col \d+ to line \d+, col \d+ of module (\w+)>: (\d+):(\d+)")
_RE_DEPTH = re.compile(r"^The depth of the complete state graph search is (\d+)")


def _compact(t):
    """Normalise a re-joined multi-line tuple print to the single-line form `<<"A", 1>>`."""
    t = re.sub(r'^<<\s+', '<<', t)
    t = re.sub(r'\s+>>$', '>>', t)
    return t


def java_cmd(xmx="6g", xss=None, deque=False, extra_props=()):
    cmd = ["java", "-XX:+UseParallelGC", f"-Xmx{xmx}"]
    if xss:
        cmd.append(f"-Xss{xss}")
    if deque:
        cmd.append("-Dtlc2.tool.queue.IStateQueue=StateDeque")
    cmd.append(f"-DTLA-Library={SPEC}:{SPEC}/mc:{SPEC}/trace")
    cmd += list(extra_props)
    cmd += ["-cp", TLA_JAR, "tlc2.TLC"]
    return cmd


def tlc(tla, cfg, name, workers=8, timeout=900, env_extra=None, simulate=None,
        depth=None, coverage=True, xmx="6g", xss="512m", deque=False, seed=None,
        keep_prints=True):
    """Run TLC. tla/cfg are paths. Returns TlcResult. Raises ToolError on crash/timeout."""
    md = workdir("tlc_" + name)
    # TLC unpacks its standard modules into java.io.tmpdir (tlc-<n>/) and never removes them
    cmd = java_cmd(xmx=xmx, xss=xss, deque=deque, extra_props=(f"-Djava.io.tmpdir={md}",))
    cmd += ["-workers", str(workers), "-metadir", md, "-cleanup", "-noGenerateSpecTE",
            "-config", cfg]
    if coverage:
        cmd += ["-coverage", "1"]
    if simulate:
        cmd += ["-simulate", simulate]
    if depth:
        cmd += ["-depth", str(depth)]
    if seed is not None:
        cmd += ["-seed", str(seed)]
    cmd.append(tla)
    env = dict(os.environ)
    env.pop("JAVA_TOOL_OPTIONS", None)
    if env_extra:
        env.update({k: str(v) for k, v in env_extra.items()})
    t0 = time.time()
    try:
        p = subprocess.run(cmd, cwd=os.path.dirname(tla), stdout=subprocess.PIPE,
                           stderr=subprocess.STDOUT, text=True, timeout=timeout, env=env)
    except subprocess.TimeoutExpired:
        raise ToolError(f"TLC timeout after {timeout}s on {name}")
    finally:
        shutil.rmtree(md, ignore_errors=True)
    r = TlcResult()
    r.wall = time.time() - t0
    r.output = p.stdout
    pending = None      # a PrintT value that TLC's pretty-printer wrapped over several lines
    for line in p.stdout.splitlines():
        if pending is not None:
            pending += " " + line.strip()
            if pending.count("<<") <= pending.count(">>"):
                if keep_prints:
                    r.prints.append(_compact(pending))
                pending = None
            continue
        if line.startswith("<<") and line.count("<<") > line.count(">>"):
            pending = line.strip()
            continue
        m = _RE_STATES.match(line)
        if m:
            r.generated, r.distinct = int(m.group(1)), int(m.group(2))
            continue
        m = _RE_COV.match(line)
        if m:
            r.coverage[m.group(1)] = (int(m.group(3)), int(m.group(4)))
            continue
        m = _RE_DEPTH.match(line)
        if m:
            r.depth = int(m.group(1))
            continue
        if line.startswith("<<\"") and keep_prints:
            r.prints.append(line)
        elif line.startswith("Error: Invariant "):
            r.violated = line[len("Error: Invariant "):].split(" ")[0]
        elif line.startswith("Error: Action property "):
            r.violated = line[len("Error: Action property "):].split(" ")[0]
        elif line.startswith("Error:") and r.error is None and r.violated is None:
            r.error = line
    if "Model checking completed. No error has been found." in p.stdout or \
            (simulate and r.violated is None and r.error is None and p.returncode == 0):
        r.ok = True
    if r.violated is None and not r.ok:
        # TLC crashed or spec error: tool trouble
        tail = "\n".join(p.stdout.splitlines()[-30:])
        raise ToolError(f"TLC failed on {name} (rc={p.returncode}):\n{tail}")
    return r


def parse_print(line):
    """Parse a TLC PrintT line of the form <<"TAG", "json...">> -> (tag, obj)."""
    m = re.match(r'^<<"(\w+)", "(.*)">>$', line)
    if not m:
        return None
    s = m.group(2).replace('\\"', '"').replace('\\\\', '\\')
    try:
        return m.group(1), json.loads(s)
    except json.JSONDecodeError:
        return None


def parse_print_raw(line):
    """Parse <<"TAG", v1, v2, ...>> where values are ints/strings -> list."""
    m = re.match(r'^<<(.*)>>$', line)
    if not m:
        return None
    out = []
    for part in re.findall(r'"(?:[^"\\]|\\.)*"|-?\d+|TRUE|FALSE', m.group(1)):
        if part.startswith('"'):
            out.append(part[1:-1].replace('\\"', '"').replace('\\\\', '\\'))
        elif part in ("TRUE", "FALSE"):
            out.append(part == "TRUE")
        else:
            out.append(int(part))
    return out


def validate_trace(trace_tla, cfg, trace_file, name, timeout=900, xmx="4g", env_extra=None):
    """Validate one NDJSON trace file against a trace spec.

    Trace specs print  <<"REJECT", line, reason...>> for each rejected event and
    <<"CONSUMED", n>> from the postcondition.  Returns (consumed, rejects[list]).
    """
    env = {"TRACE": trace_file}
    if env_extra:
        env.update(env_extra)
    r = tlc(trace_tla, cfg, name, workers=1, timeout=timeout, env_extra=env,
            coverage=False, xmx=xmx, xss="1g", deque=True)
    consumed = None
    rejects = []
    r.drifts = []
    for line in r.prints:
        v = parse_print_raw(line)
        if not v:
            continue
        if v[0] == "CONSUMED":
            consumed = v[1]
        elif v[0] == "REJECT":
            rejects.append(v[1:])
        elif v[0] == "DRIFT":
            r.drifts.append(v[1:])
    if consumed is None:
        raise ToolError(f"trace validation of {trace_file} did not finish:\n" + r.output[-2000:])
    return consumed, rejects, r


def validate_traces_parallel(trace_tla, cfg, files, name, procs=6, timeout=600, env_extra=None):
    """Validate many trace files with several TLC processes. Returns list of
    (file, consumed, rejects); DRIFT lines are collected in LAST_DRIFTS as (file, [args])."""
    global LAST_DRIFTS
    LAST_DRIFTS = []
    from concurrent.futures import ThreadPoolExecutor
    out = []

    def one(i_f):
        i, f = i_f
        c, rej, r = validate_trace(trace_tla, cfg, f, f"{name}_{i}", timeout=timeout,
                                   env_extra=env_extra)
        for d in r.drifts:
            LAST_DRIFTS.append((f, d))
        return (f, c, rej)
    with ThreadPoolExecutor(max_workers=procs) as ex:
        for res in ex.map(one, list(enumerate(files))):
            out.append(res)
    return out


def count_lines(path):
    n = 0
    with open(path, "rb") as f:
        for _ in f:
            n += 1
    return n


def read_ndjson(path):
    with open(path) as f:
        return [json.loads(x) for x in f if x.strip()]


def split_ndjson(path, max_lines, outdir, prefix):
    """Split an NDJSON file into chunks of <= max_lines lines; returns paths."""
    os.makedirs(outdir, exist_ok=True)
    paths = []
    buf = []
    idx = 0

    def flush():
        nonlocal buf, idx
        if not buf:
            return
        p = os.path.join(outdir, f"{prefix}_{idx:04d}.ndjson")
        with open(p, "w") as o:
            o.writelines(buf)
        paths.append(p)
        buf = []
        idx += 1
    with open(path) as f:
        for line in f:
            if not line.strip():
                continue
            buf.append(line if line.endswith("\n") else line + "\n")
            if len(buf) >= max_lines:
                flush()
    flush()
    return paths


# ---------------------------------------------------------------- known findings

def load_known():
    p = os.path.join(ROOT, "known_findings.json")
    if not os.path.exists(p):
        return []
    with open(p) as f:
        return json.load(f).get("findings", [])


def match_known(prop, sig, known):
    """sig: dict describing the failure. A known entry matches when it is for this
    property, has status 'known', and every key of its 'signature' equals the
    corresponding key of sig."""
    for k in known:
        if k.get("property") != prop or k.get("status") != "known":
            continue
        ks = k.get("signature", {})

        def eq(a, b):
            if a.endswith("_re"):
                val = sig.get(a[:-3])
                return isinstance(val, str) and re.fullmatch(b, val, re.S) is not None
            return sig.get(a) == b
        if ks and all(eq(a, b) for a, b in ks.items()):
            return k
    return None


# ---------------------------------------------------------------- verdicts

class Verdict:
    def __init__(self, prop, tier, seed):
        self.prop = prop
        self.tier = tier
        self.seed = seed
        self.t0 = time.time()
        self.violations = []   # (sig, replay_obj)
        self.known_hits = {}   # id -> (entry, count)
        self.drift = []
        self.cov = {"states": 0, "transitions": 0, "traces_validated_against_impl": 0,
                    "samples": [], "evaluations": 0, "distinct_nontrivial": 0, "rule": "",
                    "mc_runs": [], "trace_runs": []}
        self.assumptions = []
        self.known = load_known()

    def add_mc(self, name, r, note=""):
        self.cov["states"] += r.distinct
        self.cov["transitions"] += r.generated
        self.cov["mc_runs"].append({"model": name, "distinct": r.distinct,
                                    "generated": r.generated, "depth": r.depth,
                                    "wall_s": round(r.wall, 1), "note": note,
                                    "actions_covered": {k: v[1] for k, v in r.coverage.items()}})

    def failure(self, sig, replay_obj):
        """Register a property failure observed on the real code (or design level)."""
        k = match_known(self.prop, sig, self.known)
        if k is not None:
            kid = k.get("id", json.dumps(k.get("signature"), sort_keys=True))
            e = self.known_hits.get(kid)
            self.known_hits[kid] = (k, (e[1] + 1) if e else 1)
        else:
            self.violations.append((sig, replay_obj))

    def finish(self, level="model_checking"):
        os.makedirs(EVID, exist_ok=True)
        rc = 0
        for kid, (k, n) in sorted(self.known_hits.items()):
            log(f"KNOWN-FINDING: property={self.prop} {k.get('what','')} [{kid}] (seen {n}x)")
        for d in self.drift[:20]:
            log(f"MODEL-DRIFT: property={self.prop} {d}")
        if self.violations:
            rc = 1
            os.makedirs(os.path.join(REPLAYS, self.prop), exist_ok=True)
            seen = set()
            for sig, rep in self.violations:
                dig = hashlib.sha1(json.dumps(sig, sort_keys=True).encode()).hexdigest()[:12]
                if dig in seen:
                    continue
                seen.add(dig)
                if len(seen) > 25:
                    continue
                path = os.path.join(REPLAYS, self.prop, dig + ".json")
                with open(path, "w") as f:
                    json.dump({"property": self.prop, "signature": sig, "replay": rep,
                               "tier": self.tier, "seed": self.seed}, f, indent=1,
                              ensure_ascii=False)
                if True:
                    log(f"VIOLATION property={self.prop} replay={path}")
                    log(f"  signature: {json.dumps(sig, ensure_ascii=False)[:600]}")
        cov = dict(self.cov)
        cov["samples"] = cov["samples"][:12]
        if not cov["samples"]:
            cov["samples"] = ["(none)"]
        ev = {"property_id": self.prop, "tier": self.tier, "seed": self.seed, "level": level,
              "coverage": cov, "assumptions": self.assumptions,
              "wall_s": round(time.time() - self.t0, 1), "violations": len(self.violations),
              "known_findings_seen": {k: n for k, (e, n) in self.known_hits.items()},
              "model_drift": self.drift[:50]}
        with open(os.path.join(EVID, self.prop + ".json"), "w") as f:
            json.dump(ev, f, indent=1, ensure_ascii=False)
        log(f"[{self.prop}] {self.tier}: states={cov['states']} transitions={cov['transitions']} "
            f"traces={cov['traces_validated_against_impl']} evals={cov['evaluations']} "
            f"violations={len(self.violations)} wall={ev['wall_s']}s")
        return rc


def require_mc_ok(v, name, r, expect_violation=None):
    """(M) result handling: a violated invariant in the algorithm-level model is a
    design-level counterexample; the caller decides whether it is an expected named
    deviation."""
    if r.violated and r.violated != expect_violation:
        return False
    return True


def check_coverage(r, actions, name):
    """Vacuity guard: every listed action must have been taken at least once."""
    missing = [a for a in actions if r.coverage.get(a, (0, 0))[1] == 0]
    if missing:
        raise ToolError(f"vacuous model run {name}: actions never taken: {missing}")
