"""C10 — the text being checked never leaves the machine."""
import json
import os
import re
import shutil
import socket
import subprocess
import time

from . import common, corpus, lspclient
from .common import SPEC, HARNESS

TRACE_TLA = os.path.join(SPEC, "trace", "Trace_Effects.tla")
TRACE_CFG = os.path.join(SPEC, "trace", "Trace_Effects.cfg")
PROTOCOL_ONLY_OK = True     # everything but the library-only process uses the real binary alone
LS_BIN = os.path.join(HARNESS, "target", "release", "harper-ls-real")
SYSCALLS = ("network,open,openat,openat2,creat,rename,renameat,renameat2,unlink,unlinkat,mkdir,mkdirat,"
            "truncate,ftruncate,link,linkat,symlink,symlinkat")

TEXTS = [("doc1.txt", "plaintext", "This is teh first zzyzxq document, wich has errors."),
         ("doc2.md", "markdown", "# Title\n\nSome *markdown* with an mistake and qwertzuv.\n"),
         ("doc3.rs", "rust", "// A comment with teh typo.\nfn main() {}\n"),
         # texts that name hosts, addresses and files: nothing in them may be looked up, fetched or opened
         ("doc4.md", "markdown", "See https://nightjar-internal.example.com/path?q=teh and http://example.org:8080/x or "
          "ftp://files.example.net/a.txt today.\n\nMail bob@corp.example.com or visit www.example.com.\n\n"
          "[the guide](https://docs.example.com/guide \"a title\") and <https://auto.example.io> and ![img](http://img.example.com/a.png)\n"),
         ("doc5.txt", "plaintext", "Connect to ws://socket.example.com or wss://secure.example.com:443/ws, read file:///etc/hostname "
          "and /etc/passwd, ssh 192.168.1.10:22, localhost:3000, \\\\fileserver\\share, mailto:alice@example.com, teh end.\n"),
         ("doc6.py", "python", "# Fetch https://api.example.com/v1/users?id=1 and see teh docs at http://docs.example.com\nx = 1\n"),
         # document URIs with escaped characters, among them an escaped path separator: the name of the file
         # dictionary is made from the URI, and must stay a name inside the configured directory
         ("enc%2F..%2F..%2F..%2Fescape.md", "markdown", "An teh text with qwertzuv.\n"),
         ("my%20notes%2Fdraft%C3%A9.txt", "plaintext", "Some teh words.\n")]


def classify(path, pol):
    path = os.path.normpath(path)
    if path == pol["userDict"] or path in [r[0] for r in pol.get("retired", [])]:
        return "userDict"      # (a retired location counts until the moment it was retired: see parse_strace)
    if path == pol["stats"]:
        return "stats"
    fd = pol["fileDictDir"].rstrip("/")
    if path == fd:
        return "fileDictDir"
    if os.path.dirname(path) == fd:
        # only the dictionaries of the documents of this session: <path segments joined by %>
        names = pol.get("fileDictNames")
        base = os.path.basename(path)
        pre = pol.get("fileDictPrefix")
        if pre and base.startswith(pre) and base.endswith("%") and "%" not in base[len(pre):-1]:
            return "fileDict"
        return "fileDict" if names is None or base in names else "other"
    for target in [pol["userDict"], pol["stats"], fd] + [r[0] for r in pol.get("retired", [])]:
        if target.startswith(path.rstrip("/") + "/"):
            return "ancestor"
    return "other"


_RE_LINE = re.compile(r"^(?:\d+\s+)?(\w+)\((.*)\)\s+=\s+(-?\d+|\?)")


def unescape(p):
    """strace prints non-ASCII bytes of a path as octal escapes"""
    if "\\" not in p:
        return p
    try:
        import codecs
        return codecs.decode(p, "unicode_escape").encode("latin1").decode("utf-8", errors="replace")
    except Exception:
        return p


def parse_strace(path, pol, cwd):
    """Turn strace lines into Sys events (only successful calls)."""
    evs = []
    raw = []
    pending = {}
    for line in open(path, errors="replace"):
        line = line.rstrip("\n")
        m0 = re.match(r"^(\d+)\s+(.*)$", line)
        pid, rest = (m0.group(1), m0.group(2)) if m0 else ("0", line)
        ts = 0.0
        mt = re.match(r"^(\d+\.\d+)\s+(.*)$", rest)
        if mt:
            ts, rest = float(mt.group(1)), mt.group(2)
        if rest.endswith("<unfinished ...>"):
            pending[pid] = rest[:-len("<unfinished ...>")]
            continue
        m1 = re.match(r"^<\.\.\. (\w+) resumed>(.*)$", rest)
        if m1 and pid in pending:
            rest = pending.pop(pid) + m1.group(2)
        m = _RE_LINE.match(rest)
        if not m:
            continue
        call, args, ret = m.group(1), m.group(2), m.group(3)
        if ret == "?" or int(ret) < 0:
            continue
        raw.append(rest)
        if call in ("open", "openat", "openat2", "creat"):
            pm = re.search(r'"((?:[^"\\]|\\.)*)"', args)
            if not pm:
                continue
            p = unescape(pm.group(1))
            writes = call == "creat" or any(f in args for f in ("O_WRONLY", "O_RDWR", "O_CREAT", "O_TRUNC", "O_APPEND"))
            if not writes:
                continue
            if not p.startswith("/"):
                p = os.path.join(cwd, p)
            if p.startswith("/dev/") or p.startswith("/proc/"):
                continue
            pc = classify(p, pol)
            # a location that the client's settings stopped naming (and the server has been told): no longer configured
            for rp, rt in pol.get("retired", []):
                if os.path.normpath(p) == rp and ts > rt:
                    pc = "other"
            evs.append({"ev": "Sys", "call": "open_write", "path": p, "pclass": pc, "family": "", "kind": "", "addr": "", "port": 0})
        elif call in ("mkdir", "mkdirat"):
            pm = re.search(r'"((?:[^"\\]|\\.)*)"', args)
            p = unescape(pm.group(1)) if pm else ""
            if not p.startswith("/"):
                p = os.path.join(cwd, p)
            evs.append({"ev": "Sys", "call": "mkdir", "path": p, "pclass": classify(p, pol), "family": "", "kind": "", "addr": "", "port": 0})
        elif call in ("rename", "renameat", "renameat2", "unlink", "unlinkat", "link", "linkat", "symlink", "symlinkat", "truncate", "ftruncate"):
            base = {"renameat": "rename", "renameat2": "rename", "unlinkat": "unlink", "linkat": "link", "symlinkat": "symlink", "ftruncate": "truncate"}.get(call, call)
            evs.append({"ev": "Sys", "call": base, "path": args[:200], "pclass": "other", "family": "", "kind": "", "addr": "", "port": 0})
        elif call in ("socket", "socketpair", "bind", "connect", "listen", "accept", "accept4", "sendto", "sendmsg", "sendmmsg", "recvfrom",
                      "recvmsg", "getsockname", "getpeername", "setsockopt", "getsockopt", "shutdown"):
            fam = re.search(r"(AF_\w+)", args)
            kind = re.search(r"(SOCK_STREAM|SOCK_DGRAM|SOCK_RAW|SOCK_SEQPACKET)", args)
            addr = re.search(r'inet_addr\("([^"]+)"\)', args) or re.search(r'inet_pton\(AF_INET6?, "([^"]+)"', args)
            port = re.search(r"htons\((\d+)\)", args)
            e = {"ev": "Sys", "call": call, "path": "", "pclass": "", "family": fam.group(1) if fam else "",
                 "kind": kind.group(1) if kind else "", "addr": addr.group(1) if addr else "", "port": int(port.group(1)) if port else 0}
            # sendto/recvfrom on a connected socket carry no address (NULL)
            evs.append(e)
    return evs, raw


def _kill_group(p):
    """strace -f detaches from its children when killed: kill the whole session, server included."""
    import signal
    try:
        os.killpg(os.getpgid(p.pid), signal.SIGKILL)
    except OSError:
        pass
    try:
        p.wait(timeout=5)
    except Exception:       # noqa: BLE001
        pass


def run_server(mode, wd, v, pre=False, rnd=None):
    """One complete LSP session against the real binary under strace.  pre: the dictionaries and the
    statistics file exist beforehand, in states a user or another tool may have left them in."""
    home = os.path.join(wd, f"home_{mode}" + ("_blocked" if pre == "blocked" else "_pre" if pre else "") + (f"_r{rnd[0]}" if rnd else ""))
    docs = os.path.join(home, "docs")
    os.makedirs(docs, exist_ok=True)
    pol = {"userDict": os.path.join(home, "cfg", "harper-ls", "my_dict.txt"),
           "fileDictDir": os.path.join(home, "data", "file_dicts"),
           "stats": os.path.join(home, "data", "stats", "stats.txt")}
    pol["fileDictNames"] = {lspclient.flat_name("file://" + os.path.join(docs, name)) for name, _, _ in TEXTS}
    if rnd:
        pol["fileDictPrefix"] = "".join(seg + "%" for seg in docs.split("/") if seg)
    if pre == "blocked":
        # the configured locations cannot be used: a directory sits where the statistics file should be, a file
        # where the file-dictionary directory should be, and the user dictionary's directory is a file.  Nothing can
        # be saved - and nothing may be written anywhere else instead.
        os.makedirs(pol["stats"], exist_ok=True)
        os.makedirs(os.path.dirname(pol["fileDictDir"]), exist_ok=True)
        open(pol["fileDictDir"], "w").close()
        os.makedirs(os.path.dirname(os.path.dirname(pol["userDict"])), exist_ok=True)
        open(os.path.dirname(pol["userDict"]), "w").close()
    elif pre:
        os.makedirs(os.path.dirname(pol["userDict"]), exist_ok=True)
        os.makedirs(pol["fileDictDir"], exist_ok=True)
        os.makedirs(os.path.dirname(pol["stats"]), exist_ok=True)
        with open(pol["userDict"], "wb") as f:        # duplicates, case variants, CRLF, blank line, no final terminator
            f.write("harperish\nharperish\nHarperish\r\nfoo\n\nfoo\nbar".encode())
        for k, (name, _, _) in enumerate(TEXTS[:2]):
            fd = "".join(seg + "%" for seg in os.path.join(docs, name).split("/") if seg)
            with open(os.path.join(pol["fileDictDir"], fd), "wb") as f:
                f.write(b"caf\xe9\nword\nword\n" if k == 0 else b"alpha\nalpha\nalpha\nbeta")   # not UTF-8 / duplicates
        with open(pol["stats"], "wb") as f:
            f.write(b'not json\n{"kind":"Lint","when":1,"uuid":"00000000-0000-0000-0000-000000000000"}\n')
    settings = {"harper-ls": {"userDictPath": pol["userDict"], "fileDictPath": pol["fileDictDir"], "statsPath": pol["stats"],
                              "linters": {"SpelledNumbers": True}, "dialect": "British"}}
    env = dict(os.environ, HOME=home, XDG_CONFIG_HOME=os.path.join(home, "xdg_config"), XDG_DATA_HOME=os.path.join(home, "xdg_data"))
    st = os.path.join(wd, f"strace_{mode}.txt")
    ok = False
    if mode == "stdio":
        errf = os.path.join(home, "server_stderr.txt")
        p = subprocess.Popen(["strace", "-f", "-ttt", "-o", st, "-e", "trace=" + SYSCALLS, LS_BIN, "--stdio"], stdin=subprocess.PIPE,
                             stdout=subprocess.PIPE, stderr=open(errf, "wb"), env=env, cwd=home, start_new_session=True)
        c = lspclient.Client(p.stdout, p.stdin, settings)
        try:
            if rnd:
                import random
                v.cov.setdefault("random_sessions", []).append(lspclient.random_session(c, docs, random.Random(rnd[1]), rnd[2], pol=pol))
            else:
                lspclient.full_session(c, docs, TEXTS)
            ok = True
        except Exception as ex:       # noqa: BLE001
            common.log(f"[C10] stdio session error: {ex}")
        try:
            p.wait(timeout=10)
        except subprocess.TimeoutExpired:
            _kill_group(p)
    else:
        # the listener address is fixed (127.0.0.1:4000)
        probe = socket.socket()
        try:
            probe.bind(("127.0.0.1", 4000))
            probe.close()
        except OSError:
            raise common.ToolError("port 4000 is busy: cannot run the TCP-mode session")
        p = subprocess.Popen(["strace", "-f", "-ttt", "-o", st, "-e", "trace=" + SYSCALLS, LS_BIN], stdin=subprocess.DEVNULL,
                             stdout=subprocess.PIPE, stderr=subprocess.DEVNULL, env=env, cwd=home, start_new_session=True)
        p.stdout.readline()   # "Listening on ..."
        s = None
        for _ in range(100):
            try:
                s = socket.create_connection(("127.0.0.1", 4000), timeout=2)
                break
            except OSError:
                time.sleep(0.05)
        if s is None:
            _kill_group(p)
            raise common.ToolError("could not connect to harper-ls on 127.0.0.1:4000")
        rf, wf = s.makefile("rb"), s.makefile("wb")
        c = lspclient.Client(rf, wf, settings)
        try:
            lspclient.full_session(c, docs, TEXTS)
            ok = True
        except Exception as ex:       # noqa: BLE001
            common.log(f"[C10] tcp session error: {ex}")
        try:
            s.close()
        except OSError:
            pass
        try:
            p.wait(timeout=10)
        except subprocess.TimeoutExpired:
            _kill_group(p)
    evs, raw = parse_strace(st, pol, home)
    # did the session really exercise the persistence paths?
    wrote = {e["pclass"] for e in evs if e["call"] == "open_write"}
    if not ok:
        # a request timed out or the pipe broke: nothing can be concluded from a half-played session
        panic = ""
        try:
            err = open(os.path.join(home, "server_stderr.txt"), errors="replace").read()
            if "panicked at" in err:
                panic = " (the server's stderr: " + err[err.index("panicked at"):][:300].replace("\n", " ") + ")"
        except OSError:
            pass
        raise common.ToolError(f"the {mode} session with harper-ls did not run to its end" + panic)
    persisted = True if (rnd or pre == "blocked") else {"userDict", "fileDict", "stats"} <= wrote     # random sessions need not touch every file
    return ([{"ev": "Proc", "mode": mode}] + evs + [{"ev": "SessionOk", "ok": persisted, "wrote": sorted(wrote)}]), raw


def run_tcp_busy(wd):
    """TCP mode while the default port is taken: whatever the server does then, it must not listen anywhere
    but on loopback (the unchanged tree gives up)."""
    home = os.path.join(wd, "home_tcp_busy")
    os.makedirs(home, exist_ok=True)
    hold = socket.socket()
    hold.setsockopt(socket.SOL_SOCKET, socket.SO_REUSEADDR, 1)
    try:
        hold.bind(("127.0.0.1", 4000))
        hold.listen(1)
    except OSError:
        raise common.ToolError("port 4000 is busy: cannot run the busy-port TCP session")
    st = os.path.join(wd, "strace_tcp_busy.txt")
    env = dict(os.environ, HOME=home, XDG_CONFIG_HOME=os.path.join(home, "xdg_config"), XDG_DATA_HOME=os.path.join(home, "xdg_data"))
    p = subprocess.Popen(["strace", "-f", "-ttt", "-o", st, "-e", "trace=" + SYSCALLS, LS_BIN], stdin=subprocess.DEVNULL,
                         stdout=subprocess.PIPE, stderr=subprocess.DEVNULL, env=env, cwd=home, start_new_session=True)
    try:
        p.wait(timeout=4)
    except subprocess.TimeoutExpired:
        pass
    _kill_group(p)
    hold.close()
    pol = {"userDict": "/nonexistent/a", "fileDictDir": "/nonexistent/b", "stats": "/nonexistent/c"}
    evs, raw = parse_strace(st, pol, home)
    return [{"ev": "Proc", "mode": "tcp"}] + evs + [{"ev": "SessionOk", "ok": True, "wrote": []}], raw


def run_lib(wd, corp):
    st = os.path.join(wd, "strace_lib.txt")
    p = subprocess.run(["strace", "-f", "-ttt", "-o", st, "-e", "trace=" + SYSCALLS, common.HV, "lintonly", "--corpus", corp, "--docs", "150"],
                       stdout=subprocess.PIPE, stderr=subprocess.DEVNULL, cwd=wd, timeout=600)
    evs, raw = parse_strace(st, {"userDict": "/nonexistent/a", "fileDictDir": "/nonexistent/b", "stats": "/nonexistent/c"}, wd)
    return [{"ev": "Proc", "mode": "lib"}] + evs + [{"ev": "SessionOk", "ok": p.returncode == 0, "wrote": []}], raw


def deps_events():
    evs = []
    repo = common.REPO
    env = dict(os.environ, RUSTUP_AUTO_INSTALL="0", CARGO_NET_OFFLINE="true")
    p = subprocess.run(["cargo", "metadata", "--offline", "--format-version", "1", "--locked"], cwd=repo, env=env,
                       stdout=subprocess.PIPE, stderr=subprocess.PIPE, text=True)
    if p.returncode != 0:
        p = subprocess.run(["cargo", "metadata", "--offline", "--format-version", "1"], cwd=repo, env=env,
                           stdout=subprocess.PIPE, stderr=subprocess.PIPE, text=True)
    if p.returncode != 0:
        raise common.ToolError("cargo metadata failed: " + p.stderr[-1500:])
    md = json.loads(p.stdout)
    pk = {x["id"]: x for x in md["packages"]}
    nodes = {n["id"]: n for n in md["resolve"]["nodes"]}
    roots = [x["id"] for x in md["packages"] if x["name"] in ("harper-ls", "harper-cli", "harper-wasm", "harper-core")]
    seen = set()
    stack = list(roots)
    while stack:
        i = stack.pop()
        if i in seen:
            continue
        seen.add(i)
        for d in nodes[i]["deps"]:
            # normal and build dependencies ship; dev-dependencies do not
            if any(k.get("kind") in (None, "build") for k in d.get("dep_kinds", [{"kind": None}])):
                stack.append(d["pkg"])
    for i in sorted(seen):
        evs.append({"ev": "Dep", "name": pk[i]["name"], "version": pk[i]["version"]})
    return evs


def run(v):
    wd = common.workdir("c10")
    thorough = v.tier == "thorough"
    r = common.tlc(os.path.join(SPEC, "mc", "MC_Effects.tla"), os.path.join(SPEC, "mc", "MC_Effects.cfg"), "c10_mc", workers=2, timeout=600)
    if r.violated:
        v.failure({"kind": "model", "invariant": r.violated}, {"tlc_output": r.output[-3000:]})
    v.add_mc("MC_Effects", r, "the server's life (listener set-up, serving, save_dict windows, save_stats at shutdown) in stdio, TCP and "
             "library mode: every emitted effect is in the allowed alphabet")
    _, corp = corpus.harvest()
    evs, raws = [], {}
    for mode, pre in (("stdio", False), ("tcp", False), ("stdio", True), ("stdio", "blocked")):
        e, raw = run_server(mode, wd, v, pre)
        evs += e
        raws[mode + ("_blocked" if pre == "blocked" else "_pre" if pre else "")] = raw
    e, raw = run_tcp_busy(wd)
    evs += e
    raws["tcp_busy"] = raw
    nrand = 12 if thorough else 2
    sentences = [json.loads(l) for l in open(corp)][:600]
    for k in range(nrand):
        e, raw = run_server("stdio", wd, v, pre=(k % 2 == 1), rnd=(k, v.seed * 1000 + k, sentences))
        evs += e
        raws[f"random{k}"] = raw
    if common.HARNESS_OK:
        e, raw = run_lib(wd, corp)
        evs += e
        raws["lib"] = raw
    else:
        v.assumptions.append("the harness crate did not build against this tree; the library-only process was not traced: " + common.HARNESS_BUILD_ERROR[-200:])
    evs += [{"ev": "Proc", "mode": "lib"}] + deps_events()
    trace = os.path.join(wd, "trace.ndjson")
    with open(trace, "w") as f:
        for x in evs:
            f.write(json.dumps(x) + "\n")
    consumed, rejects, _ = common.validate_trace(TRACE_TLA, TRACE_CFG, trace, "c10_t", timeout=600)
    if consumed != len(evs):
        raise common.ToolError(f"trace: consumed {consumed} of {len(evs)} events")
    v.cov["traces_validated_against_impl"] = 5 + nrand
    v.cov["evaluations"] = len(evs)
    v.cov["distinct_nontrivial"] = len({(x.get("call"), x.get("pclass"), x.get("family"), x.get("name")) for x in evs})
    v.cov["samples"] = [x for x in evs if x["ev"] == "Sys"][:6] + [x for x in evs if x["ev"] == "Dep"][:3]
    v.cov["syscalls_seen"] = sorted({x["call"] for x in evs if x["ev"] == "Sys"})
    v.cov["dependencies_checked"] = sum(1 for x in evs if x["ev"] == "Dep")
    for rej in rejects:
        e = evs[rej[0] - 1]
        if e["ev"] == "Sys":
            sig = {"kind": "effect-outside-the-allowed-alphabet", "call": e["call"], "pclass": e.get("pclass", ""), "family": e.get("family", ""),
                   "addr": e.get("addr", ""), "path_tail": os.path.basename(e.get("path", ""))}
        elif e["ev"] == "Dep":
            sig = {"kind": "forbidden-dependency", "name": e["name"]}
        else:
            sig = {"kind": rej[1]}
        v.failure(sig, {"event": e})
    v.cov["rule"] = ("strace -f of the real harper-ls binary (built from /repo) during one complete LSP session in stdio mode, one in "
                     "TCP mode and one in stdio mode over dictionaries and a statistics file that already exist (duplicates, case "
                     "variants, CRLF, no final terminator, bytes that are not UTF-8, unreadable records) - initialize, configuration round trips, didOpen/didChange for plain text, Markdown and Rust, codeAction, "
                     "every command the server offers except the user-initiated HarperOpen, add-to-user/file-dictionary, didSave, "
                     "didChangeConfiguration, watched-file delete, didClose, shutdown, exit - and of a process that only lints through "
                     "the library, the comment parsers and the JS-facing API; every network call and every write-open/mkdir/rename/"
                     "unlink is an event; plus one Dep event per package in the resolved normal+build dependency set of harper-ls, "
                     "harper-cli, harper-wasm, harper-core; distinct = distinct (call, path class, family) / packages")
    v.assumptions += ["strace reports every system call of the traced process tree", "the dependency policy is a deny-list of network/TLS/DNS client crates"]
    shutil.rmtree(wd, ignore_errors=True)
    return v.finish()


def replay(v, path):
    rep = json.load(open(path))
    print(json.dumps(rep["replay"], ensure_ascii=False)[:2000])
    return run(v)
