"""C14 — ignoring a lint hides that lint, only that lint, and keeps hiding it."""
import json
import os

from . import common, corpus
from .common import SPEC
from .c05 import split_sessions

TRACE_TLA = os.path.join(SPEC, "trace", "Trace_Ignore.tla")
TRACE_CFG = os.path.join(SPEC, "trace", "Trace_Ignore.cfg")


def validate(v, trace, name):
    files = split_sessions(trace, os.path.dirname(trace), name, max_events=3000)
    res = common.validate_traces_parallel(TRACE_TLA, TRACE_CFG, files, "c14_" + name, procs=8)
    distinct = set()
    sessions = 0
    for f, consumed, rejects in res:
        evs = common.read_ndjson(f)
        if consumed != len(evs):
            raise common.ToolError(f"trace {f}: consumed {consumed} of {len(evs)} events")
        v.cov["evaluations"] += len(evs)
        last_text = ""
        for i, e in enumerate(evs):
            if e["ev"] == "Reset":
                sessions += 1
                last_text = e["text"]
            if e["ev"] == "Ignored":
                distinct.add((last_text, e["pid"]))
        if len(v.cov["samples"]) < 5:
            v.cov["samples"] += [{"text": e["text"], "lints": len(e["all"]), "visible": len(e["visible"])}
                                 for e in evs if e["ev"] == "Lints" and len(e["visible"]) < len(e["all"])][:2]
        for rej in rejects:
            e = evs[rej[0] - 1]
            sig = {"kind": rej[1]}
            if e["ev"] == "Lints" and len(rej) > 2 and rej[2]:
                li = e["all"][rej[2] - 1]
                t = e["text"]
                sig["flagged"] = t[li["s"]:li["e"]][:30]
                sig["context"] = t[max(0, li["s"] - 3):li["e"] + 3][:40]
            v.failure(sig, {"event": e, "session_file": f, "line": rej[0]})
    v.cov["traces_validated_against_impl"] += sessions
    return len(distinct)


def run(v):
    wd = common.workdir("c14")
    thorough = v.tier == "thorough"
    t = "thorough" if thorough else "quick"
    r = common.tlc(os.path.join(SPEC, "mc", "MC_Ignore.tla"), os.path.join(SPEC, "mc", f"MC_Ignore_{t}.cfg"),
                   "c14_mc", workers=12, timeout=3000)
    if r.violated:
        v.failure({"kind": "model", "invariant": r.violated}, {"tlc_output": r.output[-3000:]})
    common.check_coverage(r, ["Build", "IgnoreOne", "Prepend", "AppendFar"], "MC_Ignore")
    v.add_mc(f"MC_Ignore/{t}", r, "all documents of <= MaxToks tokens (two misspellings of different width, words, blank, "
             "quote), every lint chosen for ignoring, far prepend/append edits (with and without quotes): HidesIt, "
             "OnlyIt, KeepsHiding")
    _, corp = corpus.harvest()
    trace = os.path.join(wd, "trace.ndjson")
    rc, out, err = common.run_hv(["c14", "--out", trace, "--seed", v.seed, "--corpus", corp,
                                  "--sessions", 20000 if thorough else 2000], timeout=7200)
    if rc != 0:
        raise common.ToolError("hv c14 failed: " + err[-2000:])
    # the same through the language server: HarperIgnoreLint taken from a code action, re-publish, far edit
    trace_ls = os.path.join(wd, "trace_ls.ndjson")
    rc, out, err = common.run_hv(["ls-ignore", "--out", trace_ls, "--seed", v.seed, "--corpus", corp,
                                  "--sessions", 400 if thorough else 40], timeout=7200)
    if rc != 0:
        raise common.ToolError("hv ls-ignore failed: " + err[-2000:])
    with open(trace, "a") as f:
        f.write(open(trace_ls).read())
    v.cov["distinct_nontrivial"] = validate(v, trace, "t")
    v.cov["rule"] = ("sessions: lint a document (corpus sentences, composed documents, hand-picked texts with repeated "
                     "mistakes and quotes), ignore a random visible lint, re-lint, then prepend/append far text or "
                     "export+import the list (core IgnoredLints; in a third of the sessions harper-wasm's "
                     "ignore_lint/export/clear/import alongside), re-lint, ignore another, re-lint; plus sessions on the real "
                     "harper-ls Backend where the ignore command comes from a code action; distinct = distinct "
                     "(document, ignored identity)")
    v.assumptions += ["token boundaries used for a lint's neighbourhood come from Harper's own tokenisation"]
    return v.finish()


def replay(v, path):
    rep = json.load(open(path))
    print(json.dumps(rep["replay"]["event"], ensure_ascii=False)[:2000])
    sf = rep["replay"].get("session_file")
    if sf and os.path.exists(sf):
        validate(v, sf, "r")
    return v.finish()
