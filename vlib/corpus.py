"""Harvest the sentences the repository's own rule tests use (from the working tree,
at run time) so that drivers reach each rule's trigger words."""
import glob
import json
import os
import re

from . import common

_RE = re.compile(r'assert_\w+\(\s*(?:&\w+\(\s*)?"((?:[^"\\]|\\.)*)"', re.S)
_RE_RAW = re.compile(r'assert_\w+\(\s*r#"(.*?)"#', re.S)


def _unescape(s):
    out = []
    i = 0
    while i < len(s):
        c = s[i]
        if c == "\\" and i + 1 < len(s):
            n = s[i + 1]
            if n == "n":
                out.append("\n"); i += 2; continue
            if n == "t":
                out.append("\t"); i += 2; continue
            if n == "r":
                out.append("\r"); i += 2; continue
            if n in "\"'\\":
                out.append(n); i += 2; continue
            if n == "\n":
                # line continuation: skip newline and leading whitespace
                i += 2
                while i < len(s) and s[i] in " \t\n":
                    i += 1
                continue
            if n == "u":
                m = re.match(r"\\u\{([0-9a-fA-F]+)\}", s[i:])
                if m:
                    out.append(chr(int(m.group(1), 16))); i += len(m.group(0)); continue
            out.append(n); i += 2; continue
        out.append(c)
        i += 1
    return "".join(out)


def harvest(path=None):
    """Returns the list of harvested sentences (deduplicated, stable order) and writes
    them to work/corpus.ndjson (one JSON string per line)."""
    repo = common.REPO
    files = sorted(glob.glob(os.path.join(repo, "harper-core/src/**/*.rs"), recursive=True))
    seen = set()
    out = []
    for f in files:
        try:
            src = open(f, encoding="utf-8").read()
        except OSError:
            continue
        for m in _RE.finditer(src):
            s = _unescape(m.group(1))
            if 3 <= len(s) <= 400 and s not in seen:
                seen.add(s); out.append(s)
        for m in _RE_RAW.finditer(src):
            s = m.group(1)
            if 3 <= len(s) <= 400 and s not in seen:
                seen.add(s); out.append(s)
    os.makedirs(common.WORK, exist_ok=True)
    path = path or os.path.join(common.WORK, "corpus.ndjson")
    with open(path, "w") as o:
        for s in out:
            o.write(json.dumps(s, ensure_ascii=False) + "\n")
    return out, path
