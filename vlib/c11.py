"""C11 — rule switches do exactly what they say."""
import json
import os

from . import common, corpus
from .common import SPEC

TRACE_TLA = os.path.join(SPEC, "trace", "Trace_Config.tla")
TRACE_CFG = os.path.join(SPEC, "trace", "Trace_Config.cfg")


def validate(v, trace, name):
    files = common.split_ndjson(trace, 6000, os.path.dirname(trace), name)
    res = common.validate_traces_parallel(TRACE_TLA, TRACE_CFG, files, "c11_" + name, procs=8)
    distinct = set()
    for f, consumed, rejects in res:
        evs = common.read_ndjson(f)
        if consumed != len(evs):
            raise common.ToolError(f"trace {f}: consumed {consumed} of {len(evs)} events")
        v.cov["traces_validated_against_impl"] += len(evs)
        v.cov["evaluations"] += len(evs)
        for e in evs:
            if e["ev"] == "Cfg":
                distinct.add((e["op"], e["k"], json.dumps(e["before"], sort_keys=True)))
            elif e["ev"] == "Switch":
                distinct.add(("switch", e["entry"], e["rule"], e["value"]))
            elif e["ev"] == "Parts" and e["a"] and e["b"]:
                distinct.add((e["text"], e["ne"], e["na"]))
        if len(v.cov["samples"]) < 6:
            v.cov["samples"] += [{k: e[k] for k in ("op", "k", "on", "before", "other", "after")} for e in evs if e["ev"] == "Cfg" and e["op"] == "MergeFrom"][:1]
            v.cov["samples"] += [{"text": e["text"], "ne": e["ne"], "na": e["na"], "lints": len(e["e"])} for e in evs if e["ev"] == "Parts" and e["a"] and e["b"]][:2]
        for rej in rejects:
            e = evs[rej[0] - 1]
            if e["ev"] == "Cfg":
                sig = {"kind": rej[1], "op": e["op"]}
            elif e["ev"] == "Effective":
                sig = {"kind": rej[1], "entry": e["entry"], "missing": min(e["missing"], 6), "unknown_names": e["unknown"] > 0}
            elif e["ev"] == "Switch":
                sig = {"kind": rej[1], "entry": e["entry"], "rule": e["rule"], "value": e["value"]}
            else:
                sig = {"kind": rej[1], "text": e.get("text", "")[:80]}
            if e.get("ev") == "Unset":
                sig = {"kind": rej[1], "entry": e["entry"]}
            v.failure(sig, {"event": e})
    for f, d in common.LAST_DRIFTS[:10]:
        e = common.read_ndjson(f)[d[0] - 1]
        v.drift.append("config operation %s stores a different map than the model: before=%s after=%s" %
                       (e["op"], json.dumps(e["before"]), json.dumps(e["after"])))
    return len(distinct)


def run(v):
    wd = common.workdir("c11")
    thorough = v.tier == "thorough"
    r = common.tlc(os.path.join(SPEC, "mc", "MC_Config.tla"),
                   os.path.join(SPEC, "mc", "MC_Config_thorough.cfg" if thorough else "MC_Config_quick.cfg"),
                   "c11_mc", workers=8, timeout=1800, coverage=False)
    if r.violated:
        v.failure({"kind": "model", "invariant": r.violated}, {"tlc_output": r.output[-3000:]})
    v.add_mc("MC_Config", r, "all configurations over {known-on, known-off, unknown} keys x all operation sequences: "
             "overlay, merge, unknown keys, clear, JSON round trip")
    # named deviation: a rule whose default depends on the dialect while overlays fill from the American table
    rd = common.tlc(os.path.join(SPEC, "mc", "MC_Config.tla"), os.path.join(SPEC, "mc", "MC_Config_dev_dialect.cfg"),
                    "c11_mc_dev", workers=2, timeout=600, coverage=False)
    if rd.violated != "OverlayMatchesGroup":
        raise common.ToolError("MC_Config_dev_dialect: TLC did not refute OverlayMatchesGroup (vacuous invariant)")
    r2 = common.tlc(os.path.join(SPEC, "mc", "MC_LintGroup.tla"), os.path.join(SPEC, "mc", "MC_LintGroup_twolang_fixed.cfg"),
                    "c11_mc2", workers=8, timeout=1800)
    if r2.violated:
        v.failure({"kind": "model", "invariant": r2.violated}, {"tlc_output": r2.output[-3000:]})
    v.add_mc("MC_LintGroup (Decomposes)", r2, "a disabled rule contributes nothing, with the cache in play")
    rg = common.tlc(os.path.join(SPEC, "mc", "MC_Config.tla"), os.path.join(SPEC, "mc", "MC_Config_gen.cfg"),
                    "c11_gen", workers=4, coverage=False, timeout=900)
    cases = os.path.join(wd, "cases.ndjson")
    n = 0
    stride = 1 if thorough else 5
    with open(cases, "w") as f:
        for x in rg.prints:
            p = common.parse_print(x)
            if p and p[0] == "CASE":
                n += 1
                if n % stride == v.seed % stride:
                    f.write(json.dumps(p[1]) + "\n")
    _, corp = corpus.harvest()
    trace = os.path.join(wd, "trace.ndjson")
    rc, out, err = common.run_hv(["c11", "--cases", cases, "--out", trace, "--seed", v.seed, "--corpus", corp,
                                  "--docs", 4000 if thorough else 400, "--overlays", 400 if thorough else 40], timeout=7200)
    if rc != 0:
        raise common.ToolError("hv c11 failed: " + err[-2000:])
    v.cov["distinct_nontrivial"] = validate(v, trace, "t")
    v.cov["tlc_states_generated"] = n
    v.cov["rule"] = ("Cfg: every (configuration, other) pair over 3 keys from TLC x 19 operations on the real "
                     "LintGroupConfig with the model keys mapped to real rule names (rotating through all rules); "
                     "Parts: documents linted on a reused linter under a random enabled set E, under both halves of a "
                     "random partition of E (or E minus one toggled rule), and under E again; Overlay: random user "
                     "settings through harper-ls's settings JSON and harper-wasm's JSON config; distinct = distinct "
                     "(operation, key, configuration) / documents with lints in both halves")
    return v.finish()


def replay(v, path):
    rep = json.load(open(path))
    e = rep["replay"]["event"]
    print(json.dumps(e, ensure_ascii=False)[:3000])
    wd = common.workdir("c11_replay")
    trace = os.path.join(wd, "trace.ndjson")
    with open(trace, "w") as f:
        f.write(json.dumps(e) + "\n")
    validate(v, trace, "r")
    return v.finish()
