"""C15 — all dictionary back-ends agree; fuzzy search returns true near matches."""
import json
import os

from . import common
from .common import SPEC

TRACE_TLA = os.path.join(SPEC, "trace", "Trace_Dict.tla")
TRACE_CFG = os.path.join(SPEC, "trace", "Trace_Dict.cfg")


def validate(v, trace, name, chunk=1500):
    files = common.split_ndjson(trace, chunk, os.path.dirname(trace), name)
    res = common.validate_traces_parallel(TRACE_TLA, TRACE_CFG, files, "c15_" + name, procs=10, timeout=600)
    distinct = set()
    for f, consumed, rejects in res:
        evs = common.read_ndjson(f)
        if consumed != len(evs):
            raise common.ToolError(f"trace {f}: consumed {consumed} of {len(evs)} events")
        v.cov["traces_validated_against_impl"] += len(evs)
        v.cov["evaluations"] += len(evs)
        for e in evs:
            if e["ev"] == "Q" and (e["fzmut"] or e["mut"]["contains"]):
                distinct.add((json.dumps(e["ws"]), "".join(e["q"])))
            elif e["ev"] == "F" and e["fst"]:
                distinct.add(e["qs"])
        if len(v.cov["samples"]) < 6:
            v.cov["samples"] += [{"ws": ["".join(w) for w in e["ws"]], "q": "".join(e["q"]), "mut": e["mut"],
                                  "fzfst": e["fzfst"]} for e in evs if e["ev"] == "Q" and e["fzfst"]][:1]
            v.cov["samples"] += [{"q": e["qs"], "bound": e["bound"], "cap": e["cap"],
                                  "fst": [["".join(map(chr, r["w"])), r["d"]] for r in e["fst"][:5]]}
                                 for e in evs if e["ev"] == "F" and e["fst"]][:1]
        for rej in rejects:
            e = evs[rej[0] - 1]
            if e["ev"] == "Q":
                sig = {"kind": rej[1]}
                if rej[1] != "backends-disagree-on-case-variants":
                    sig["ws"] = ["".join(w) for w in e["ws"]]
                    sig["q"] = "".join(e["q"])
            elif e["ev"] == "F":
                sig = {"kind": rej[1], "q": e["qs"], "bound": e["bound"], "cap": e["cap"]}
            else:
                sig = {"kind": rej[1], "ev": e["ev"]}
            v.failure(sig, {"event": e})
    for f, d in common.LAST_DRIFTS[:20]:
        e = common.read_ndjson(f)[d[0] - 1]
        v.drift.append("dictionary answers differ from the model for ws=%s q=%s" %
                       (["".join(w) for w in e["ws"]], "".join(e["q"])))
    return len(distinct)


def run(v):
    wd = common.workdir("c15")
    thorough = v.tier == "thorough"
    cfgs = ["MC_Dict_thorough.cfg", "MC_Dict_dist.cfg"] + (["MC_Dict_quick.cfg"] if thorough else [])
    for cfg in cfgs:
        r = common.tlc(os.path.join(SPEC, "mc", "MC_Dict.tla"), os.path.join(SPEC, "mc", cfg), "c15_mc",
                       workers=12, timeout=3000, coverage=False)
        if r.violated:
            v.failure({"kind": "model", "invariant": r.violated}, {"tlc_output": r.output[-3000:]})
        v.add_mc("MC_Dict/" + cfg, r, "every word list within bounds x every query: membership, back-end "
                 "agreement (modulo Id clashes), merged = union, exact sanity, distance algorithms, mutable fuzzy")
    # a seeded deviation (a child of the merged dictionary dropped because its unseparated hash collides) must be refuted
    rdd = common.tlc(os.path.join(SPEC, "mc", "MC_Dict.tla"), os.path.join(SPEC, "mc", "MC_Dict_dev_dedup.cfg"), "c15_mc_dev",
                     workers=2, timeout=600, coverage=False)
    if rdd.violated != "MergedIsUnion":
        raise common.ToolError("MC_Dict: the dedup-by-concatenation deviation is not refuted (vacuous invariant)")
    rg = common.tlc(os.path.join(SPEC, "mc", "MC_Dict.tla"),
                    os.path.join(SPEC, "mc", "MC_Dict_gen_thorough.cfg" if thorough else "MC_Dict_gen.cfg"),
                    "c15_gen", workers=8, coverage=False, timeout=1800)
    cases = os.path.join(wd, "cases.ndjson")
    n = 0
    with open(cases, "w") as f:
        for x in rg.prints:
            p = common.parse_print(x)
            if p and p[0] == "CASE":
                f.write(json.dumps(p[1]) + "\n")
                n += 1
    trace = os.path.join(wd, "trace.ndjson")
    rc, out, err = common.run_hv(["c15", "--cases", cases, "--chars", "abAB'’" if thorough else "abAB'",
                                  "--stride", 1 if thorough else 6, "--out", trace, "--seed", v.seed,
                                  "--curated-queries", 6000 if thorough else 500,
                                  "--dist-pairs", 5000 if thorough else 500], timeout=7200)
    if rc != 0:
        raise common.ToolError("hv c15 failed: " + err[-2000:])
    v.cov["distinct_nontrivial"] = validate(v, trace, "t")
    v.cov["tlc_cases_generated"] = n
    v.cov["rule"] = ("Q: TLC-enumerated word lists (insertion order matters) built into the three real "
                     "back-ends (merged in every split) x every query of length <= 2 over the alphabet (+ "
                     "some of length 3) x rotating bound 0..2 and cap; F: curated dictionary queried with "
                     "sampled words, re-cased, 1-3 random edits, apostrophe variants, random letter strings, "
                     "non-ASCII, empty and very long queries, bounds 0..3, caps 1/3/10/100, on FST, mutable "
                     "and merged; Dist: random string pairs through a one-word dictionary; distinct = distinct "
                     "(dictionary, query) with a non-empty answer")
    v.assumptions += ["for the curated dictionary, membership of a result (`indict`) is computed by the "
                      "harness from words_iter(); completeness is judged against the mutable back-end's full scan"]
    return v.finish()


def replay(v, path):
    rep = json.load(open(path))
    e = rep["replay"]["event"]
    print(json.dumps(e, ensure_ascii=False)[:3000])
    wd = common.workdir("c15_replay")
    trace = os.path.join(wd, "trace.ndjson")
    with open(trace, "w") as f:
        f.write(json.dumps(e) + "\n")
    validate(v, trace, "r")
    return v.finish()
