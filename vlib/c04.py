"""C04 — only prose is checked, and it is located at its true position in the file."""
import json
import os

from . import common
from .common import SPEC

TRACE_TLA = os.path.join(SPEC, "trace", "Trace_SourceFile.tla")
TRACE_CFG = os.path.join(SPEC, "trace", "Trace_SourceFile.cfg")


def validate(v, trace, name):
    files = common.split_ndjson(trace, 1500, os.path.dirname(trace), name)
    res = common.validate_traces_parallel(TRACE_TLA, TRACE_CFG, files, "c04_" + name, procs=8)
    distinct = set()
    langs = set()
    for f, consumed, rejects in res:
        evs = common.read_ndjson(f)
        if consumed != len(evs):
            raise common.ToolError(f"trace {f}: consumed {consumed} of {len(evs)} events")
        v.cov["traces_validated_against_impl"] += len(evs)
        v.cov["evaluations"] += len(evs)
        for e in evs:
            if e["ev"] == "Src":
                langs.add(e["lang"])
                distinct.add((e["lang"], tuple(s["kind"] for s in e["segs"])))
        if len(v.cov["samples"]) < 5:
            v.cov["samples"] += [{"lang": e["lang"], "text": e["text"][:300], "prose": e["prose"][:4]} for e in evs if e["ev"] == "Src"][:1]
        for rej in rejects:
            e = evs[rej[0] - 1]
            sig = {"kind": rej[1], "lang": e.get("lang")}
            k = rej[2] if len(rej) > 2 else 0
            if k and rej[1].startswith("prose"):
                p = e["prose"][k - 1]
                # what precedes the missing word on its line?
                line_start = e["text"].rfind("\n", 0, len("".join(list(e["text"])[:p["s"]]))) + 1
                sig["multibyte_before"] = any(ord(c) > 127 for c in list(e["text"])[:p["s"]])
                if e["text"].startswith("#!"):
                    # is the word in the run of comment lines (blank lines between them allowed) that the shebang opens?
                    lines = e["text"].split("\n")
                    li = e["text"].count("\n", 0, p["s"])
                    if all(x.strip() == "" or x.lstrip().startswith("#") for x in lines[:li + 1]):
                        sig = {"kind": rej[1], "header_comment_behind_a_shebang": True}
                if e.get("lang") == "go":
                    # is the word in a run of INDENTED comment lines that starts with a //go: directive?
                    lines = e["text"].split("\n")
                    li = e["text"].count("\n", 0, p["s"])
                    j = li
                    while j > 0 and lines[j - 1].lstrip().startswith("//") and not lines[j - 1].lstrip().startswith("//go:"):
                        j -= 1
                    head = lines[j - 1] if j > 0 else ""
                    if head.lstrip().startswith("//go:") and lines[li][:1] in (" ", "\t"):
                        sig["indented_block_behind_go_directive"] = True
            elif k:
                sig["token"] = e["toks"][k - 1]["text"][:30]
            v.failure(sig, {"event": e, "which": k})
    v.cov["front_ends"] = sorted(langs)
    return len(distinct)


def comment_lines(v, wd, thorough):
    """The line-based comment parsers (CommentLines.tla): model checking, four named deviations refuted, and every
    sequence of <= 5 line kinds from TLC rendered in nine language/comment styles and parsed by the real parsers."""
    mc = os.path.join(SPEC, "mc", "MC_CommentLines.tla")
    for cfg in ("dev_tilde", "dev_closeany", "dev_uncounted", "dev_untracked", "dev_anylength"):
        rd = common.tlc(mc, os.path.join(SPEC, "mc", f"MC_CommentLines_{cfg}.cfg"), "c04_cl_" + cfg, workers=2, timeout=600, coverage=False)
        if rd.violated != "OfferedIsProse":
            raise common.ToolError(f"MC_CommentLines_{cfg}: TLC did not refute OfferedIsProse (vacuous invariant)")
    for cfg in (("thorough",) if thorough else ("quick",)) + ("counted",):
        r = common.tlc(mc, os.path.join(SPEC, "mc", f"MC_CommentLines_{cfg}.cfg"), "c04_cl_" + cfg, workers=8, timeout=3000, coverage=False)
        if r.violated:
            v.failure({"kind": "model", "invariant": r.violated, "cfg": cfg}, {"tlc_output": r.output[-3000:]})
        v.add_mc("MC_CommentLines/" + cfg, r, "every comment block of <= MaxLines lines over {prose, directive, backtick fence, tilde fence} x leader "
                 "and body widths: the words offered are exactly the prose outside fenced blocks, at their true offsets (OfferedIsProse)")
    rg = common.tlc(mc, os.path.join(SPEC, "mc", "MC_CommentLines_gen.cfg"), "c04_cl_gen", workers=4, timeout=900, coverage=False)
    cases = os.path.join(wd, "line_cases.ndjson")
    n = 0
    with open(cases, "w") as f:
        for x in rg.prints:
            p = common.parse_print(x)
            if p and p[0] == "CASE":
                n += 1
                f.write(json.dumps(p[1]) + "\n")
    if n < 1000:
        raise common.ToolError(f"MC_CommentLines_gen produced only {n} cases")
    trace = os.path.join(wd, "trace_lines.ndjson")
    rc, out, err = common.run_hv(["c04lines", "--cases", cases, "--out", trace, "--stride", 1 if thorough else 4], timeout=3600)
    if rc != 0:
        raise common.ToolError("hv c04lines failed: " + err[-2000:])
    files = common.split_ndjson(trace, 4000, wd, "cl")
    res = common.validate_traces_parallel(os.path.join(SPEC, "trace", "Trace_CommentLines.tla"), os.path.join(SPEC, "trace", "Trace_CommentLines.cfg"),
                                          files, "c04_cl", procs=6)
    nev = 0
    for f, consumed, rejects in res:
        evs = common.read_ndjson(f)
        if consumed != len(evs):
            raise common.ToolError(f"trace {f}: consumed {consumed} of {len(evs)} events")
        nev += len(evs)
        for rej in rejects:
            e = evs[rej[0] - 1]
            v.failure({"kind": rej[1], "level": "comment-lines", "lang": e.get("lang"), "style": e.get("style"),
                       "fences": sorted({k for k in e.get("kinds", []) if k not in ("prose", "dir")})}, {"event": e, "comment_lines": True})
    v.cov["evaluations"] += nev
    v.cov["traces_validated_against_impl"] += nev
    v.cov["tlc_cases_replayed"] = v.cov.get("tlc_cases_replayed", 0) + n
    v.cov["comment_line_blocks"] = {"kind_sequences_from_tlc": n, "rendered_and_parsed": nev}


def run(v):
    wd = common.workdir("c04")
    thorough = v.tier == "thorough"
    t = "thorough" if thorough else "quick"
    r = common.tlc(os.path.join(SPEC, "mc", "MC_SourceFile.tla"), os.path.join(SPEC, "mc", f"MC_SourceFile_{t}.cfg"),
                   "c04_mc", workers=12, timeout=3000, coverage=False)
    if r.violated:
        v.failure({"kind": "model", "invariant": r.violated}, {"tlc_output": r.output[-3000:]})
    v.add_mc(f"MC_SourceFile/{t}", r, "every file of <= MaxSegs segments (code / comment / ignore-marked comment / white space) "
             "with characters of 1-4 bytes: byte->char conversion, coalescing, white-space merging and the ignore filter "
             "offer exactly the characters of ordinary comments (OnlyProseIsMasked, MaskInsideFile)")
    trace = os.path.join(wd, "trace.ndjson")
    rc, out, err = common.run_hv(["c04", "--out", trace, "--seed", v.seed, "--per-lang", 600 if thorough else 50], timeout=7200)
    if rc != 0:
        raise common.ToolError("hv c04 failed: " + err[-2000:])
    v.cov["distinct_nontrivial"] = validate(v, trace, "t")
    comment_lines(v, wd, thorough)
    v.cov["rule"] = ("files rendered from a segment grammar per front-end - the 22 comment languages (syntactically valid code "
                     "lines with multi-byte string literals, line comments, block comments where the language has them, "
                     "ignore-marked comments, indentation), Markdown with both link options (headings, lists, tables, links, "
                     "inline code, fences, inline and block HTML), HTML, Typst, Literate Haskell (bird tracks and code "
                     "environments) and git-commit buffers - with the ground truth (segment kinds and character ranges, "
                     "prose words and offsets, marker words placed in non-prose) recorded while rendering; distinct = "
                     "distinct (front-end, segment-kind sequence)")
    v.assumptions += ["tree-sitter grammars, pulldown-cmark and typst-syntax are black boxes: the ground truth comes from how the "
                      "file was generated, and the templates are accepted as valid by the unchanged tree",
                      "Typst string literals are linted on purpose (harper-typst's own tests), so they are not placed in non-prose"]
    return v.finish()


def replay(v, path):
    rep = json.load(open(path))
    e = rep["replay"]["event"]
    print(json.dumps(e, ensure_ascii=False)[:3000])
    wd = common.workdir("c04_replay")
    if rep["replay"].get("comment_lines"):
        # the recorded block is parsed again by the real parser
        cases = os.path.join(wd, "line_cases.ndjson")
        with open(cases, "w") as f:
            f.write(json.dumps({"kinds": e["kinds"]}) + "\n")
        trace = os.path.join(wd, "trace_lines.ndjson")
        rc, out, err = common.run_hv(["c04lines", "--cases", cases, "--out", trace])
        consumed, rejects, _ = common.validate_trace(os.path.join(SPEC, "trace", "Trace_CommentLines.tla"),
                                                     os.path.join(SPEC, "trace", "Trace_CommentLines.cfg"), trace, "c04_clr", timeout=300)
        evs = common.read_ndjson(trace)
        for rej in rejects:
            x = evs[rej[0] - 1]
            v.failure({"kind": rej[1], "level": "comment-lines", "lang": x.get("lang"), "style": x.get("style")}, {"event": x, "comment_lines": True})
        return v.finish()
    trace = os.path.join(wd, "trace.ndjson")
    with open(trace, "w") as f:
        f.write(json.dumps(e) + "\n")
    validate(v, trace, "r")
    return v.finish()
