//! C08: editor diagnostics and quick-fix edits land exactly on the flagged text.
use harper_core::linting::{LintGroup, Linter, Suggestion};
use harper_core::{Dialect, Document, FstDictionary, MergedDictionary, Span};
use serde_json::{Value, json};
use tower_lsp::lsp_types::{CodeActionOrCommand, Position, Range, Url};

use crate::document_state::DocumentState;
use crate::pos_conv::{range_to_span, span_to_range};
use crate::util::{Args, Out, Rng, catch, cps, par_map, read_corpus, read_ndjson};

fn class_of(c: char) -> &'static str {
    match c { '\n' => "NL", '\r' => "CR", c if c.len_utf16() == 2 => "a", _ => "b" }
}
fn classes(t: &[char]) -> Vec<&'static str> { t.iter().map(|c| class_of(*c)).collect() }
fn rj(r: &Range) -> Value { json!([[r.start.line, r.start.character], [r.end.line, r.end.character]]) }

/// Independent LSP reading of a position: (line, utf-16 column) -> char index.
fn client_offset(t: &[char], p: Position) -> Option<usize> {
    let (mut line, mut col) = (0u32, 0u32);
    for (i, c) in t.iter().enumerate() {
        if line == p.line && col == p.character { return Some(i); }
        if *c == '\n' { line += 1; col = 0; } else { col += c.len_utf16() as u32; }
    }
    if line == p.line && col == p.character { Some(t.len()) } else { None }
}

fn conv_events(t: &[char]) -> Vec<Value> {
    let mut evs = Vec::new();
    let n = t.len();
    for s in 0..n {
        for e in (s + 1)..=n {
            if t[s..e].iter().any(|c| *c == '\n' || *c == '\r') { continue; }
            let r = catch(|| {
                let range = span_to_range(t, Span::new(s, e));
                let back = range_to_span(t, range);
                let hits: Vec<bool> = (s..e).map(|i| {
                    let p = span_to_range(t, Span::new(i, i)).start;
                    let sp = range_to_span(t, Range { start: p, end: p }).with_len(1);
                    Span::new(s, e).overlaps_with(sp)
                }).collect();
                (range, back, hits)
            });
            match r {
                Ok((range, back, hits)) => evs.push(json!({"ev": "Conv", "t": classes(t), "s": s, "e": e, "range": rj(&range),
                    "back": [back.start, back.end], "hits": hits})),
                Err(p) => evs.push(json!({"ev": "Panic", "t": classes(t), "loc": p})),
            }
        }
    }
    evs
}

fn doc_events(text: &str, lang: &str) -> Vec<Value> {
    let mut evs = Vec::new();
    let r = catch(|| {
        let dict = std::sync::Arc::new({ let mut m = MergedDictionary::new(); m.add_dictionary(FstDictionary::curated()); m });
        let parser = crate::front::base_parser(lang).unwrap();
        let document = Document::new(text, &parser, &dict);
        let mut st = DocumentState {
            document,
            dict: dict.clone(),
            linter: LintGroup::new_curated(dict.clone(), Dialect::American),
            language_id: Some(lang.to_string()),
            url: Url::parse("file:///tmp/x.txt").unwrap(),
            ..Default::default()
        };
        let chars: Vec<char> = text.chars().collect();
        // the lints behind the diagnostics (same call sequence as generate_diagnostics)
        let mut lg = LintGroup::new_curated(dict.clone(), Dialect::American);
        let lints = lg.lint(&st.document);
        let diags = st.generate_diagnostics(crate::config::DiagnosticSeverity::Hint);
        let mut out = Vec::new();
        out.push(json!({"ev": "Doc", "text": text, "lang": lang, "t": classes(&chars), "ndiag": diags.len(), "nlints": lints.len()}));
        for (l, d) in lints.iter().zip(diags.iter()) {
            out.push(json!({"ev": "Diag", "s": l.span.start, "e": l.span.end, "range": rj(&d.range), "msg_same": l.message == d.message}));
            if l.span.end <= l.span.start { continue; }
            // code actions at every character boundary inside the range
            for i in l.span.start..l.span.end {
                let p = span_to_range(&chars, Span::new(i, i)).start;
                let acts = st.generate_code_actions(Range { start: p, end: p }, &crate::config::CodeActionConfig::default());
                // does the reply carry this lint's fixes? (an edit whose range is the diagnostic's range, one per suggestion)
                let mut edits: Vec<(Range, String)> = Vec::new();
                let mut has_ignore = false;
                for a in &acts {
                    match a {
                        CodeActionOrCommand::CodeAction(ca) => {
                            if let Some(ch) = ca.edit.as_ref().and_then(|e| e.changes.as_ref()) {
                                for v in ch.values() { for te in v { edits.push((te.range, te.new_text.clone())); } }
                            }
                        }
                        CodeActionOrCommand::Command(c) => {
                            if c.command == "HarperIgnoreLint" {
                                if let Some(args) = &c.arguments {
                                    if args.get(1).map(|v| serde_json::from_value::<harper_core::linting::Lint>(v.clone()).map(|x| x == *l).unwrap_or(false)).unwrap_or(false) { has_ignore = true; }
                                }
                            }
                        }
                    }
                }
                let mine: Vec<&(Range, String)> = edits.iter().filter(|(r, _)| *r == d.range).collect();
                out.push(json!({"ev": "Actions", "s": l.span.start, "e": l.span.end, "at": i, "pos": [p.line, p.character],
                    "found": has_ignore && mine.len() >= l.suggestions.len(), "nsugg": l.suggestions.len()}));
                if i == l.span.start && chars.len() <= 160 {
                    // each of this lint's edits, applied the way a client does, against Suggestion::apply
                    for sugg in &l.suggestions {
                        let mut want = chars.clone();
                        sugg.apply(l.span, &mut want);
                        let expect_text: String = match sugg {
                            Suggestion::ReplaceWith(w) => w.iter().collect(),
                            Suggestion::Remove => String::new(),
                            Suggestion::InsertAfter(w) => format!("{}{}", chars[l.span.start..l.span.end].iter().collect::<String>(), w.iter().collect::<String>()),
                        };
                        let matching = mine.iter().find(|(_, t)| *t == expect_text);
                        let (er, et) = match matching { Some((r, t)) => (*r, t.clone()), None => (d.range, "\u{0}MISSING".to_string()) };
                        let client = match (client_offset(&chars, er.start), client_offset(&chars, er.end)) {
                            (Some(a), Some(b)) if a <= b => {
                                let mut v = chars[..a].to_vec(); v.extend(et.chars()); v.extend_from_slice(&chars[b..]); Some(v)
                            }
                            _ => None,
                        };
                        out.push(json!({"ev": "Edit", "range": rj(&er), "new": cps(&et.chars().collect::<Vec<_>>()),
                            "before": cps(&chars), "t": classes(&chars), "want": cps(&want), "edit_present": matching.is_some(),
                            "client_ok": client.as_ref().map(|c| *c == want).unwrap_or(false)}));
                    }
                }
            }
        }
        out
    });
    match r {
        Ok(v) => evs.extend(v),
        Err(p) => evs.push(json!({"ev": "Panic", "text": text, "loc": p})),
    }
    evs
}

pub fn main(a: &Args) {
    let mut out = Out::create(a.req("out"));
    let mut rng = Rng::new(a.num("seed", 1));
    if let Some(cases) = a.get("cases") {
        let cases = read_ndjson(cases);
        let evs = par_map(cases.len(), a.num("threads", 12) as usize, |_| (), |_, i| {
            let t: Vec<char> = cases[i].as_array().unwrap().iter().map(|c| match c.as_str().unwrap() { "NL" => '\n', "CR" => '\r', "a" => '😀', _ => if i % 2 == 0 { 'x' } else { 'é' } }).collect();
            conv_events(&t)
        });
        for v in evs { for e in v { out.emit(&e); } }
    }
    if let Some(corpus) = a.get("corpus") {
        let corpus = read_corpus(corpus);
        let mut jobs: Vec<(String, String)> = Vec::new();
        let flagged = ["teh", "an test", "there is is", "wich", "could of", "the the", "1nd"];
        for i in 0..a.num("docs", 200) as usize {
            // several lines, lints on the first and on the last line, astral / combining / tab / CRLF content
            let nl = if i % 3 == 0 { "\r\n" } else { "\n" };
            let fill = ["😀", "e\u{301}", "\t", "𝒳𝒴", "é", "plain", "👍🏽 ok"][i % 7];
            let lines = rng.range(1, 4);
            let mut t = String::new();
            for k in 0..lines {
                if rng.chance(1, 2) { t.push_str(fill); t.push(' '); }
                if k == 0 || k + 1 == lines || rng.chance(1, 2) { t.push_str(flagged[rng.below(flagged.len())]); t.push(' '); }
                t.push_str(rng.pick(&corpus[..]).as_str());
                if k + 1 < lines { t.push_str(nl); }
            }
            match i % 4 { 0 => t.push_str(nl), 1 => { t.push(' '); t.push_str(flagged[rng.below(flagged.len())]); } _ => {} }
            let lang = ["plaintext", "markdown", "plaintext", "rust", "python"][i % 5];
            let text = match lang { "rust" => t.lines().map(|l| format!("// {l}\n")).collect::<String>().trim_end_matches('\n').to_string(),
                "python" => t.lines().map(|l| format!("# {l}\n")).collect(), _ => t };
            let lang_front = match lang { "plaintext" => "plain", l => l };
            jobs.push((text, lang_front.to_string()));
        }
        let evs = par_map(jobs.len(), a.num("threads", 12) as usize, |_| (), |_, i| doc_events(&jobs[i].0, &jobs[i].1));
        for v in evs { for e in v { out.emit(&e); } }
    }
    println!("{}", json!({"events": out.finish()}));
}
