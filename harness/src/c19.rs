//! C19: the statistics log reads back exactly what was written, append after append.
use std::io::{Cursor, Write};

use harper_core::linting::{LintGroupConfig, LintKind, Linter};
use harper_core::{Dialect, Document, FatStringToken, FstDictionary, TokenKind};
use harper_core::parsers::PlainEnglish;
use harper_stats::{Record, RecordKind, Stats};
use serde_json::{Value, json};

use crate::front;
use crate::util::{Args, Out, Rng, catch, digest, read_corpus, read_ndjson};

fn concretise(classes: &Value) -> String {
    classes.as_array().unwrap().iter().map(|c| match c.as_str().unwrap() {
        "p" => 'a', "n" => 'n', "NL" => '\n', "CR" => '\r', "Q" => '"', "BS" => '\\',
        "CT" => '\u{1}', "AS" => '😀', "LS" => '\u{2028}', _ => '?',
    }).collect()
}

fn rec_id(r: &Record) -> String {
    digest(&format!("{:?}", r))
}

fn rec_kind(r: &Record) -> &'static str {
    match r.kind {
        RecordKind::Lint { .. } => "Lint",
        RecordKind::LintConfigUpdate(_) => "Cfg",
    }
}

fn rec_meta(r: &Record) -> Value {
    let mut b: Vec<u8> = Vec::new();
    let ok = Stats { records: vec![r.clone()] }.write(&mut b).is_ok();
    let s = String::from_utf8_lossy(&b).to_string();
    let line = s.strip_suffix('\n').unwrap_or(&s);
    json!({"id": rec_id(r), "kind": rec_kind(r), "len": line.chars().count(),
           "rawbreaks": line.chars().filter(|c| *c == '\n' || *c == '\r').count() + if ok { 0 } else { 1 }})
}

/// One session: batches appended to one growing log, read back after every batch.
fn session(batches: &[Vec<Record>], via_file: Option<&std::path::Path>, out: &mut Out, tag: &str) {
    out.emit(&json!({"ev": "Reset", "src": tag}));
    let mut buf: Vec<u8> = Vec::new();
    if let Some(p) = via_file {
        let _ = std::fs::remove_file(p);
    }
    for b in batches {
        let stats = Stats { records: b.clone() };
        let wrote = catch(|| {
            if let Some(p) = via_file {
                // same open mode as harper-ls's save_stats
                let f = std::fs::OpenOptions::new().read(true).append(true).create(true).open(p).unwrap();
                let mut w = std::io::BufWriter::new(f);
                stats.write(&mut w).unwrap();
                w.flush().unwrap();
                std::fs::read(p).unwrap()
            } else {
                let mut nb = buf.clone();
                stats.write(&mut nb).unwrap();
                nb
            }
        });
        match wrote {
            Ok(nb) => buf = nb,
            Err(p) => {
                out.emit(&json!({"ev": "ReadError", "msg": format!("write panicked: {p}")}));
                return;
            }
        }
        let flen = String::from_utf8_lossy(&buf).chars().count();
        out.emit(&json!({"ev": "Wrote", "recs": b.iter().map(rec_meta).collect::<Vec<_>>(), "flen": flen}));
        match catch(|| Stats::read(&mut Cursor::new(buf.clone()))) {
            Ok(Ok(st)) => {
                out.emit(&json!({"ev": "ReadBack", "ids": st.records.iter().map(rec_id).collect::<Vec<_>>(),
                    "kinds": st.records.iter().map(rec_kind).collect::<Vec<_>>()}));
                let total = st.summarize().total_applied;
                out.emit(&json!({"ev": "Summary", "total": total}));
            }
            Ok(Err(e)) => {
                out.emit(&json!({"ev": "ReadError", "msg": e.to_string(),
                    "log": String::from_utf8_lossy(&buf).chars().take(600).collect::<String>()}));
                return;
            }
            Err(p) => {
                out.emit(&json!({"ev": "ReadError", "msg": format!("read panicked: {p}")}));
                return;
            }
        }
    }
}

fn lint_record(ctx: &str, kind: LintKind, tk: TokenKind) -> Record {
    Record::now(RecordKind::Lint { kind, context: vec![FatStringToken { content: ctx.to_string(), kind: tk }] })
}

fn cfg_record(key: &str) -> Record {
    let mut c = LintGroupConfig::default();
    c.set_rule_enabled(key, true);
    c.set_rule_enabled("SpellCheck", false);
    Record::now(RecordKind::LintConfigUpdate(c))
}

pub fn main(a: &Args) {
    let mut out = Out::create(a.req("out"));
    let mut rng = Rng::new(a.num("seed", 1));
    let tmp = std::env::temp_dir().join(format!("hv_c19_{}", std::process::id()));
    std::fs::create_dir_all(&tmp).unwrap();
    let file = tmp.join("stats.txt");
    // (R) TLC record lists, split into sessions in every possible way (<= 3 batches)
    if let Some(cases) = a.get("cases") {
        for (ci, c) in read_ndjson(cases).into_iter().enumerate() {
            let recs: Vec<Record> = c.as_array().unwrap().iter().map(|r| {
                let ctx = concretise(&r["ctx"]);
                if r["kind"] == "Lint" { lint_record(&ctx, LintKind::Spelling, TokenKind::Word(None)) } else { cfg_record(&ctx) }
            }).collect();
            let n = recs.len();
            // all compositions of n into <= 3 parts (cut points)
            for c1 in 0..=n {
                for c2 in c1..=n {
                    if (ci + c1 + c2) % 3 != 0 && n > 2 { continue; } // thin out
                    let batches = vec![recs[..c1].to_vec(), recs[c1..c2].to_vec(), recs[c2..].to_vec()];
                    let via = if (ci + c1) % 7 == 0 { Some(file.as_path()) } else { None };
                    session(&batches, via, &mut out, "tlc");
                }
            }
        }
    }
    // records taken from real lints on real documents
    if let Some(corpus) = a.get("corpus") {
        let corpus = read_corpus(corpus);
        let mut lg = front::all_rules_group(Dialect::American);
        let dict = FstDictionary::curated();
        let extra = ["It costs $1e999 today.", "She said \"teh\ncat\" twice.", "Tab\there teh.", "An 😀 apple teh.",
            "Line\u{2028}sep teh thing.", "Back\\slash teh.", "Ctrl\u{1}char teh.", "0x1F teh 1e308 and 1e-400.",
            "The 9007199254740993th teh.", "CR\r\nLF teh."];
        // number tokens travel inside the context of a record: whole numbers around 2^53, 2^63 and 2^64, the ends of the
        // f64 range, and fractions with 16-17 significant digits (the closest f64 is not what a careless parser returns)
        let mut extra: Vec<String> = extra.iter().map(|s| s.to_string()).collect();
        for n in ["9007199254740993", "9223372036854775807", "9223372036854775808", "10000000000000000000", "18446744073709551615", "18446744073709551616",
            "0xFFFFFFFFFFFFFFFF", "0x8000000000000800", "1.7976931348623157e308", "5e-324", "2.2250738585072014e-308", "0.30000000000000004",
            "31.245270191439438", "123456789.12345678", "0.1", "1e22", "1e23", "4.35", "2.675", "1234567890123456.7"] {
            extra.push(format!("The fund moved {n}$ in a single day."));
            extra.push(format!("It took {n} teh steps."));
        }
        for _ in 0..40 {
            let digits: String = (0..17).map(|i| if i == 0 { (b'1' + rng.below(9) as u8) as char } else { (b'0' + rng.below(10) as u8) as char }).collect();
            let at = rng.range(1, 16);
            extra.push(format!("The fund moved {}.{}$ in a single day.", &digits[..at], &digits[at..]));
        }
        for s in 0..a.num("sessions", 300) {
            let mut batches: Vec<Vec<Record>> = Vec::new();
            for _ in 0..rng.range(1, 3) {
                let mut b = Vec::new();
                for _ in 0..rng.range(0, 4) {
                    if rng.chance(1, 6) {
                        let mut cfg = lg.config.clone();
                        cfg.set_rule_enabled(rng.pick(&corpus[..]).as_str(), rng.chance(1, 2));
                        b.push(Record::now(RecordKind::LintConfigUpdate(cfg)));
                        continue;
                    }
                    let text = if rng.chance(1, 3) { extra[rng.below(extra.len())].to_string() } else { rng.pick(&corpus[..]).clone() };
                    let r = catch(|| {
                        let doc = Document::new(&text, &PlainEnglish, &dict);
                        let lints = lg.lint(&doc);
                        lints.iter().map(|l| Record::now(RecordKind::from_lint(l, &doc))).collect::<Vec<_>>()
                    });
                    if let Ok(rs) = r {
                        b.extend(rs.into_iter().take(3));
                    }
                }
                batches.push(b);
            }
            session(&batches, if s % 4 == 0 { Some(file.as_path()) } else { None }, &mut out, "lint");
        }
        // aligned logs: the line break that ends a batch falls exactly on (or next to) a multiple of the usual
        // buffer sizes; the first batch is padded to the byte with a record whose context is as long as needed
        let size_of = |recs: &[Record]| -> usize { let mut v = Vec::new(); Stats { records: recs.to_vec() }.write(&mut v).unwrap(); v.len() };
        for (k, target) in [4096usize, 8192, 16384, 32768, 65536, 8192 * 3].into_iter().enumerate() {
            for delta in [-1i64, 0, 1] {
                let want = (target as i64 + delta) as usize;
                let mut first: Vec<Record> = (0..(k % 3)).map(|j| lint_record(&format!("teh{j}"), LintKind::Spelling, TokenKind::Word(None))).collect();
                let base = size_of(&first);
                let pad0 = lint_record("", LintKind::Spelling, TokenKind::Word(None));
                let unit = size_of(&[pad0]);
                if base + unit > want { continue; }
                first.push(lint_record(&"a".repeat(want - base - unit), LintKind::Spelling, TokenKind::Word(None)));
                if size_of(&first) != want { continue; }
                let second = vec![lint_record("wich", LintKind::Spelling, TokenKind::Word(None)), cfg_record("SpelledNumbers")];
                let third = vec![lint_record("zzyzxq", LintKind::Spelling, TokenKind::Word(None))];
                session(&[first.clone(), second.clone(), third.clone()], if delta == 0 { Some(file.as_path()) } else { None }, &mut out, "aligned");
                session(&[first, second, third], if delta == 0 { None } else { Some(file.as_path()) }, &mut out, "aligned");
            }
        }
        // many records of varying length in one log (several buffers' worth)
        for s in 0..a.num("big-logs", 3) {
            let recs: Vec<Record> = (0..rng.range(300, 900)).map(|j| lint_record(&"x".repeat(rng.range(0, 120)), LintKind::Spelling, TokenKind::Word(None))).collect::<Vec<_>>();
            let cut = rng.range(1, recs.len() - 1);
            session(&[recs[..cut].to_vec(), recs[cut..].to_vec()], if s % 2 == 0 { Some(file.as_path()) } else { None }, &mut out, "big");
        }
        // harper-wasm: apply_suggestion logs a record; generate -> import into a fresh linter -> generate
        for _ in 0..a.num("wasm-sessions", 40) {
            let r = catch(|| {
                let mut l1 = harper_wasm::Linter::new(harper_wasm::Dialect::American);
                let mut n = 0;
                for _ in 0..rng.range(1, 3) {
                    let text = if rng.chance(1, 3) { extra[rng.below(extra.len())].to_string() } else { rng.pick(&corpus[..]).clone() };
                    let lints = l1.lint(text.clone(), harper_wasm::Language::Plain);
                    for lint in lints.iter().take(2) {
                        if let Some(s) = lint.suggestions().first() {
                            let _ = l1.apply_suggestion(text.clone(), lint, s);
                            n += 1;
                        }
                    }
                }
                let f1 = l1.generate_stats_file();
                let mut l2 = harper_wasm::Linter::new(harper_wasm::Dialect::American);
                let imp = l2.import_stats_file(f1.clone());
                let f2 = l2.generate_stats_file();
                (n, f1, imp, f2)
            });
            out.emit(&json!({"ev": "Reset", "src": "wasm"}));
            match r {
                Ok((n, f1, imp, f2)) => {
                    let parse = |f: &str| Stats::read(&mut Cursor::new(f.as_bytes().to_vec()));
                    match (parse(&f1), imp, parse(&f2)) {
                        (Ok(s1), Ok(()), Ok(s2)) => {
                            out.emit(&json!({"ev": "Wrote", "recs": s1.records.iter().map(rec_meta).collect::<Vec<_>>(),
                                "flen": f1.chars().count()}));
                            out.emit(&json!({"ev": "ReadBack", "ids": s2.records.iter().map(rec_id).collect::<Vec<_>>(),
                                "kinds": s2.records.iter().map(rec_kind).collect::<Vec<_>>()}));
                            out.emit(&json!({"ev": "Summary", "total": s2.summarize().total_applied}));
                            let _ = n;
                        }
                        (a1, b1, c1) => out.emit(&json!({"ev": "ReadError", "msg": format!("wasm round trip: {:?} {:?} {:?}",
                            a1.err().map(|e| e.to_string()), b1.err(), c1.err().map(|e| e.to_string())), "log": f1.chars().take(600).collect::<String>()})),
                    }
                }
                Err(p) => out.emit(&json!({"ev": "ReadError", "msg": format!("wasm panicked: {p}")})),
            }
        }
    }
    let _ = std::fs::remove_dir_all(&tmp);
    println!("{}", json!({"events": out.finish()}));
}
