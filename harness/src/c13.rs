//! C13: overlap removal. Replays TLC-generated lists and random / document-derived
//! lint lists into the real `harper_core::remove_overlaps`, recording `Case` events.
use harper_core::linting::{Lint, LintKind, Suggestion};
use harper_core::{Span, remove_overlaps};
use serde_json::{Value, json};

use crate::util::{Args, Out, Rng, digest, read_ndjson};

fn lint_json(l: &Lint) -> Value {
    // identity travels in the message ("<id>|...")
    let id: u64 = l.message.split('|').next().unwrap().parse().unwrap_or(0);
    json!({"id": id, "s": l.span.start, "e": l.span.end,
           "dig": digest(&serde_json::to_string(l).unwrap())})
}

pub fn mk_lint(id: usize, s: usize, e: usize, rng: &mut Rng) -> Lint {
    let kinds = [LintKind::Spelling, LintKind::Capitalization, LintKind::Miscellaneous,
                 LintKind::Repetition, LintKind::Style];
    let sugg = match rng.below(4) {
        0 => vec![],
        1 => vec![Suggestion::Remove],
        2 => vec![Suggestion::ReplaceWith(vec!['x', 'y'])],
        _ => vec![Suggestion::InsertAfter(vec![','])],
    };
    Lint {
        span: Span { start: s, end: e },
        lint_kind: *rng.pick(&kinds),
        suggestions: sugg,
        message: format!("{id}|m{}", rng.below(3)),
        priority: rng.below(256) as u8,
    }
}

pub fn run_case(lints: Vec<Lint>, out: &mut Out, tag: &str) {
    let input: Vec<Value> = lints.iter().map(lint_json).collect();
    let mut v = lints;
    match crate::util::catch(move || {
        remove_overlaps(&mut v);
        v
    }) {
        Ok(v) => {
            let outj: Vec<Value> = v.iter().map(lint_json).collect();
            out.emit(&json!({"ev": "Case", "src": tag, "in": input, "out": outj}));
        }
        Err(p) => out.emit(&json!({"ev": "Panic", "src": tag, "in": input, "loc": p})),
    }
}

pub fn main(a: &Args) {
    let mut out = Out::create(a.req("out"));
    let mut rng = Rng::new(a.num("seed", 1));
    if let Some(cases) = a.get("cases") {
        for c in read_ndjson(cases) {
            let lints: Vec<Lint> = c
                .as_array()
                .unwrap()
                .iter()
                .map(|l| {
                    mk_lint(l["id"].as_u64().unwrap() as usize, l["s"].as_u64().unwrap() as usize,
                            l["e"].as_u64().unwrap() as usize, &mut rng)
                })
                .collect();
            run_case(lints, &mut out, "tlc");
        }
    }
    // random lists: many spans over a small range so nesting/touching/equal/zero-width abound
    let nrand = a.num("random", 0);
    for k in 0..nrand {
        let n = rng.range(0, if k % 5 == 0 { 40 } else { 8 });
        let maxpos = rng.range(1, 30);
        let lints: Vec<Lint> = (0..n)
            .map(|i| {
                let s = rng.below(maxpos + 1);
                let len = if rng.chance(1, 4) { 0 } else { rng.below(maxpos - s + 1) };
                mk_lint(i + 1, s, s + len, &mut rng)
            })
            .collect();
        run_case(lints, &mut out, "random");
    }
    // document-derived lists: all rules on over corpus sentences
    if let Some(corpus) = a.get("corpus") {
        let texts = crate::util::read_corpus(corpus);
        let ndocs = a.num("docs", 200) as usize;
        let mut lg = crate::front::all_rules_group(harper_core::Dialect::American);
        for _ in 0..ndocs {
            // two or three sentences glued so that several rules fire on the same words
            let mut t = String::new();
            for _ in 0..rng.range(1, 3) {
                t.push_str(rng.pick(&texts[..]).as_str());
                t.push(' ');
            }
            let Ok(lints) = crate::util::catch(|| crate::front::lint_plain(&mut lg, &t)) else { continue };
            let lints: Vec<Lint> = lints
                .into_iter()
                .enumerate()
                .map(|(i, mut l)| {
                    l.message = format!("{}|{}", i + 1, l.message);
                    l
                })
                .collect();
            run_case(lints, &mut out, "doc");
        }
    }
    let n = out.finish();
    println!("{}", json!({"events": n}));
}
