//! C13: overlap removal. Replays TLC-generated lists and random / document-derived
//! lint lists into the real `harper_core::remove_overlaps`, recording `Case` events.
use harper_core::linting::{Lint, LintKind, Suggestion};
use harper_core::{Span, remove_overlaps};
use serde_json::{Value, json};

use crate::util::{Args, Out, Rng, digest, read_ndjson};

fn lint_json(l: &Lint) -> Value {
    // identity travels in the message ("<id>|...")
    let id: u64 = l.message.split('|').next().unwrap().parse().unwrap_or(0);
    json!({"id": id, "s": l.span.start, "e": l.span.end,
           "dig": digest(&serde_json::to_string(l).unwrap())})
}

pub fn mk_lint(id: usize, s: usize, e: usize, rng: &mut Rng) -> Lint {
    let kinds = [LintKind::Spelling, LintKind::Capitalization, LintKind::Miscellaneous,
                 LintKind::Repetition, LintKind::Style];
    let sugg = match rng.below(4) {
        0 => vec![],
        1 => vec![Suggestion::Remove],
        2 => vec![Suggestion::ReplaceWith(vec!['x', 'y'])],
        _ => vec![Suggestion::InsertAfter(vec![','])],
    };
    Lint {
        span: Span { start: s, end: e },
        lint_kind: *rng.pick(&kinds),
        suggestions: sugg,
        message: format!("{id}|m{}", rng.below(3)),
        priority: rng.below(256) as u8,
    }
}

pub fn run_case(lints: Vec<Lint>, out: &mut Out, tag: &str) {
    let input: Vec<Value> = lints.iter().map(lint_json).collect();
    let mut v = lints;
    match crate::util::catch(move || {
        remove_overlaps(&mut v);
        v
    }) {
        Ok(v) => {
            let outj: Vec<Value> = v.iter().map(lint_json).collect();
            out.emit(&json!({"ev": "Case", "src": tag, "in": input, "out": outj}));
        }
        Err(p) => out.emit(&json!({"ev": "Panic", "src": tag, "in": input, "loc": p})),
    }
}

pub fn main(a: &Args) {
    let mut out = Out::create(a.req("out"));
    let mut rng = Rng::new(a.num("seed", 1));
    if let Some(cases) = a.get("cases") {
        for c in read_ndjson(cases) {
            let lints: Vec<Lint> = c
                .as_array()
                .unwrap()
                .iter()
                .map(|l| {
                    mk_lint(l["id"].as_u64().unwrap() as usize, l["s"].as_u64().unwrap() as usize,
                            l["e"].as_u64().unwrap() as usize, &mut rng)
                })
                .collect();
            run_case(lints, &mut out, "tlc");
        }
    }
    // random lists: many spans over a small range so nesting/touching/equal/zero-width abound
    let nrand = a.num("random", 0);
    for k in 0..nrand {
        let n = rng.range(0, if k % 5 == 0 { 40 } else { 8 });
        let maxpos = rng.range(1, 30);
        let lints: Vec<Lint> = (0..n)
            .map(|i| {
                let s = rng.below(maxpos + 1);
                let len = if rng.chance(1, 4) { 0 } else { rng.below(maxpos - s + 1) };
                mk_lint(i + 1, s, s + len, &mut rng)
            })
            .collect();
        run_case(lints, &mut out, "random");
    }
    // document-derived lists: all rules on over corpus sentences
    if let Some(corpus) = a.get("corpus") {
        let texts = crate::util::read_corpus(corpus);
        let ndocs = a.num("docs", 200) as usize;
        let mut lg = crate::front::all_rules_group(harper_core::Dialect::American);
        for _ in 0..ndocs {
            // two or three sentences glued so that several rules fire on the same words
            let mut t = String::new();
            for _ in 0..rng.range(1, 3) {
                t.push_str(rng.pick(&texts[..]).as_str());
                t.push(' ');
            }
            let Ok(lints) = crate::util::catch(|| crate::front::lint_plain(&mut lg, &t)) else { continue };
            let lints: Vec<Lint> = lints
                .into_iter()
                .enumerate()
                .map(|(i, mut l)| {
                    l.message = format!("{}|{}", i + 1, l.message);
                    l
                })
                .collect();
            run_case(lints, &mut out, "doc");
        }
    }
    // the JS-facing linter: what it returns is overlap removal applied to what the rules produced
    if let Some(corpus) = a.get("corpus") {
        let texts = crate::util::read_corpus(corpus);
        let dialects = [harper_wasm::Dialect::American, harper_wasm::Dialect::British];
        let mut linters: Vec<harper_wasm::Linter> = dialects.iter().map(|d| harper_wasm::Linter::new(*d)).collect();
        for k in 0..a.num("wasm-docs", 0) as usize {
            let t = overlap_prone_text(&mut rng, &texts);
            let md = k % 3 == 0;
            let which = k % 2;
            let r = crate::util::catch(std::panic::AssertUnwindSafe(|| {
                let got = linters[which].lint(t.clone(), if md { harper_wasm::Language::Markdown } else { harper_wasm::Language::Plain });
                got.iter().map(|l| (l.span().start, l.span().end, l.message())).collect::<Vec<_>>()
            }));
            let Ok(got) = r else { out.emit(&json!({"ev": "Panic", "src": "wasm", "text": t})); linters[which] = harper_wasm::Linter::new(dialects[which]); continue };
            // the same rules' raw output (curated configuration, same dictionary shape and dialect)
            let raw = raw_lints(&t, md, None, if which == 0 { harper_core::Dialect::American } else { harper_core::Dialect::British });
            out.emit(&case_from(&raw, &got, "wasm", &t));
        }
    }
    let n = out.finish();
    println!("{}", json!({"events": n}));
}

/// one line of prose in which rules tend to collide: runs of a repeated word, misspelt repeats, doubled articles
pub fn overlap_prone_text(rng: &mut Rng, texts: &[String]) -> String {
    let runs = ["the the the", "in in in in", "teh teh teh", "is is is a an", "an an apple", "a a a", "very very very", "to to too", "its its it's",
                "there there their", "and and , and", "THE THE the", "that that that that"];
    let mut t = String::new();
    for i in 0..rng.range(1, 3) {
        if i > 0 { t.push(' '); }
        let s: String = rng.pick(texts).chars().filter(|c| *c != '\n' && *c != '\r').take(70).collect();
        let ws: Vec<&str> = s.split(' ').collect();
        let at = rng.below(ws.len() + 1);
        let mut parts: Vec<String> = ws[..at].iter().map(|x| x.to_string()).collect();
        if rng.chance(3, 4) { parts.push(rng.pick(&runs[..]).to_string()); }
        parts.extend(ws[at..].iter().map(|x| x.to_string()));
        t.push_str(&parts.join(" "));
    }
    t
}

/// What the rules produce before overlap removal, through the same steps as harper-cli / harper-wasm:
/// merged dictionary (curated + an empty user dictionary), Markdown or plain parser, curated group.
pub fn raw_lints(text: &str, md: bool, only: Option<&[String]>, dialect: harper_core::Dialect) -> Vec<(usize, usize, String)> {
    use harper_core::linting::{LintGroup, Linter};
    use harper_core::{Document, FstDictionary, MergedDictionary, MutableDictionary};
    let mut m = MergedDictionary::new();
    m.add_dictionary(FstDictionary::curated());
    m.add_dictionary(std::sync::Arc::new(MutableDictionary::new()));
    let m = std::sync::Arc::new(m);
    let doc = if md { Document::new(text, &harper_core::parsers::Markdown::default(), &m) } else { Document::new(text, &harper_core::parsers::PlainEnglish, &m) };
    let mut lg = LintGroup::new_curated(m.clone(), dialect);
    if let Some(rules) = only {
        lg.set_all_rules_to(Some(false));
        for r in rules { lg.config.set_rule_enabled(r.clone(), true); }
    }
    lg.lint(&doc).into_iter().map(|l| (l.span.start, l.span.end, l.message)).collect()
}

/// A Case event from raw lints and the reported (span, message) list: each reported lint is matched to the first
/// unused raw lint with the same span and message; one that matches nothing gets id 0 ("invented").
pub fn case_from(raw: &[(usize, usize, String)], got: &[(usize, usize, String)], tag: &str, text: &str) -> Value {
    let input: Vec<Value> = raw.iter().enumerate().map(|(i, l)| json!({"id": i + 1, "s": l.0, "e": l.1, "dig": digest(&l.2)})).collect();
    let mut used = vec![false; raw.len()];
    let outj: Vec<Value> = got.iter().map(|g| {
        let k = (0..raw.len()).find(|k| !used[*k] && raw[*k] == *g);
        if let Some(k) = k { used[k] = true; }
        json!({"id": k.map(|k| k + 1).unwrap_or(0), "s": g.0, "e": g.1, "dig": digest(&g.2)})
    }).collect();
    json!({"ev": "Case", "src": tag, "in": input, "out": outj, "text": text})
}

/// `hv c13cli --jobs F`: per job {text, rules|null, dialect} the raw lints harper-cli's pipeline produces (one JSON line each)
pub fn cli_main(a: &Args) {
    for j in read_ndjson(a.req("jobs")) {
        let rules: Option<Vec<String>> = j["rules"].as_array().map(|v| v.iter().map(|x| x.as_str().unwrap().to_string()).collect());
        let dialect = match j["dialect"].as_str().unwrap_or("American") { "British" => harper_core::Dialect::British, "Canadian" => harper_core::Dialect::Canadian,
            "Australian" => harper_core::Dialect::Australian, _ => harper_core::Dialect::American };
        let text = j["text"].as_str().unwrap().to_string();
        let r = crate::util::catch(|| raw_lints(&text, true, rules.as_deref(), dialect));
        match r {
            Ok(raw) => println!("{}", json!({"raw": raw.iter().map(|l| json!({"s": l.0, "e": l.1, "msg": l.2})).collect::<Vec<_>>()})),
            Err(p) => println!("{}", json!({"panic": p})),
        }
    }
}
