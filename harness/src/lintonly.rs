//! A process that only uses the library / JS-facing API (for C10's system-call trace): lints the
//! corpus through harper-core, the comment parsers and harper-wasm and prints a digest.
use harper_core::linting::Linter;
use harper_core::Dialect;

use crate::util::{Args, read_corpus};

pub fn main(a: &Args) {
    let corpus = read_corpus(a.req("corpus"));
    let mut lg = crate::front::all_rules_group(Dialect::American);
    let mut n = 0usize;
    for (i, t) in corpus.iter().enumerate().take(a.num("docs", 150) as usize) {
        let fr = crate::front::all_front_names();
        let f = &fr[i % fr.len()];
        if let Some(p) = crate::front::base_parser(f) {
            if let Ok(l) = crate::util::catch(|| lg.lint(&crate::front::doc_with(t, &p))) { n += l.len(); }
        }
    }
    let mut w = harper_wasm::Linter::new(harper_wasm::Dialect::American);
    for t in corpus.iter().take(40) {
        n += w.lint(t.clone(), harper_wasm::Language::Markdown).len();
        let _ = harper_wasm::to_title_case(t.clone());
    }
    w.import_words(vec!["zzyzxq".into()]);
    let _ = w.generate_stats_file();
    println!("{n}");
}
