//! Input generators shared by the drivers: corpus prefixes, composed documents
//! (multi-byte prefixes, paragraphs, markup and comment wrappers), adversarial texts.
use crate::util::Rng;

pub struct Input {
    pub text: String,
    pub front: String,
    pub tag: &'static str,
}

pub const MULTIBYTE_FILL: &[&str] = &[
    "é", "世界", "😀", "’", "naïve café", "Ünïcödé", "日本語", "👍🏽", "e\u{301}", "ß", "𝒳", "—",
];

/// line-comment leader for a comment language id
pub fn line_leader(lang: &str) -> &'static str {
    match lang {
        "python" | "nix" | "cmake" | "ruby" | "toml" | "shellscript" => "# ",
        "lua" | "haskell" => "-- ",
        _ => "// ",
    }
}

/// A source file of language `lang` whose only prose is `prose` in a line comment,
/// preceded by `pre` lines of code that contain `fill` inside a string literal.
pub fn wrap_comment(lang: &str, prose: &str, fill: &str) -> String {
    let lead = line_leader(lang);
    let code = match lang {
        "python" | "ruby" => format!("x = \"{fill}\"\n"),
        "nix" => format!("{{ x = \"{fill}\"; }}\n"),
        "cmake" => format!("set(X \"{fill}\")\n"),
        "toml" => format!("x = \"{fill}\"\n"),
        "shellscript" => format!("x=\"{fill}\"\n"),
        "lua" => format!("local x = \"{fill}\"\n"),
        "haskell" => format!("x = \"{fill}\"\n"),
        "php" => format!("<?php\n$x = \"{fill}\";\n"),
        "go" => format!("package main\nvar x = \"{fill}\"\n"),
        "rust" => format!("const X: &str = \"{fill}\";\n"),
        "java" | "csharp" => format!("class A {{ String x = \"{fill}\"; }}\n"),
        "scala" => format!("val x = \"{fill}\"\n"),
        "dart" => format!("var x = \"{fill}\";\n"),
        "swift" => format!("let x = \"{fill}\"\n"),
        "c" | "cpp" => format!("const char* x = \"{fill}\";\n"),
        _ => format!("const x = \"{fill}\";\n"),
    };
    let mut s = code;
    for line in prose.split('\n') {
        s.push_str(lead);
        s.push_str(line);
        s.push('\n');
    }
    s
}

pub fn wrap_front(front: &str, prose: &str, rng: &mut Rng) -> String {
    let fill = *rng.pick(MULTIBYTE_FILL);
    match front {
        "plain" => prose.to_string(),
        "markdown" | "markdown-nolinktitle" => markdown_doc(prose, rng),
        "html" => match rng.below(3) {
            0 => format!("<p>{prose}</p>"),
            1 => format!("<html><body><h1>{fill}</h1><p>{prose}</p></body></html>"),
            _ => prose.to_string(),
        },
        "typst" => match rng.below(4) {
            0 => format!("= {fill}\n\n{prose}\n"),
            1 => format!("#let x = \"{fill}\"\n{prose}"),
            2 => format!("*{prose}* $x^2$ {fill}"),
            _ => prose.to_string(),
        },
        "lhaskell" => match rng.below(3) {
            0 => format!("{prose}\n\n> main = putStrLn \"{fill}\"\n\n{prose}\n"),
            1 => format!("\\begin{{code}}\nx = 1\n\\end{{code}}\n{prose}\n"),
            _ => prose.to_string(),
        },
        "git-commit" => match rng.below(2) {
            0 => format!("{prose}\n\n{fill}\n# Please enter the commit message\n# {prose}\n"),
            _ => prose.to_string(),
        },
        lang => {
            if rng.chance(1, 4) {
                prose.to_string()
            } else {
                wrap_comment(lang, prose, fill)
            }
        }
    }
}

/// A Markdown document: a random sequence of block and inline constructs, each carrying
/// multi-byte characters in the places that are NOT prose (markup, code, raw HTML, URLs).
pub fn markdown_doc(prose: &str, rng: &mut Rng) -> String {
    let mut out = String::new();
    let nblocks = rng.range(1, 4);
    let prose_at = rng.below(nblocks);
    for b in 0..nblocks {
        let fill = *rng.pick(MULTIBYTE_FILL);
        let fill2 = *rng.pick(MULTIBYTE_FILL);
        let body: String = if b == prose_at { prose.to_string() } else { format!("Plain words {fill} here.") };
        let inline = match rng.below(17) {
            // math and code spans with nothing in them
            15 => format!("{body} Empty math $$$$ here and $$ there {fill}"),
            16 => format!("`` `` {body} $ $ and ``` ``` x"),
            // wikilinks: with a label, without, with an empty one (the words behind it repeat the word before it)
            12 => format!("[[Page{fill}|]] is what it is {body}"),
            13 => format!("{body} [[Page|{fill2}]] and [[Other]] then"),
            14 => format!("# [[{fill}|]] {body} {body}"),
            0 => format!("{body} <kbd title=\"{fill}\">Enter</kbd> after."),
            1 => format!("{body} <!-- {fill} --> after."),
            2 => format!("`{fill}` {body}"),
            3 => format!("{body} [{fill2}](http://example.com/{fill} \"{fill2} title\")"),
            4 => format!("![{fill}](img.png) {body}"),
            5 => format!("*{fill}* **{body}** ~~{fill2}~~"),
            6 => format!("{body} <{fill}@example.com> <http://example.com/{fill}>"),
            7 => format!("{body} &amp; &#233; {fill}  \nhard break {fill2}"),
            8 => format!("{body}[^1]\n\n[^1]: {fill} note."),
            9 => format!("{fill} <span>{fill2}</span> {body}"),
            _ => body,
        };
        let block = match rng.below(15) {
            // tabs after a container marker: pulldown-cmark pads a partially consumed tab with text
            // that is not in the source
            11 => format!("-\t\tcode {fill}\n\t\tmore {fill2}\n\n{inline}"),
            12 => format!(">\t\tquoted {fill}\n\n{inline}"),
            13 => format!("1.\t\t{fill} code\n\n- {inline}\n\n\t\tcode {fill2}"),
            0 => format!("# {fill} {inline}"),
            1 => format!("- {inline}\n- {fill}\n  - nested {fill2}"),
            2 => format!("> {inline}\n> {fill}"),
            3 => format!("| {fill} | b |\n|---|---|\n| {inline} | {fill2} |"),
            4 => format!("```{fill}\n{fill2}\n```\n\n{inline}"),
            5 => format!("<div class=\"{fill}\">\n{fill2}\n</div>\n\n{inline}"),
            6 => format!("1. {inline}\n2. {fill}"),
            7 => format!("- [ ] {inline}\n- [x] {fill}"),
            8 => format!("{fill}\n===\n\n{inline}"),
            9 => format!("    indented {fill}\n\n{inline}"),
            10 => format!("<!-- {fill}\n{fill2} -->\n\n{inline}"),
            _ => inline,
        };
        out.push_str(&block);
        out.push_str(if rng.chance(1, 6) { "\n" } else { "\n\n" });
    }
    if rng.chance(1, 3) {
        out.truncate(out.trim_end().len());
    }
    out
}

/// Lexically interesting atoms (things a condensing or lexing pass treats specially) strung together, so that
/// every pass meets every other pass's output; about half of the soups hold a matched pair of quotes
/// somewhere, whose twin indices must survive whatever the passes remove before or between them.
pub const ATOMS: [&str; 70] = ["İstanbul", "ǅungla", "ŉ", "ẞ", "ﬁnal", "İ", "@octocat", "@a", "@rust-lang", "\"quick\"", "“yes”", "'single'", "‘curly’", "e.g.", "i.e.", "et al.", "N.S.A.",
    "1st", "2nd", "22nd", "don't", "o'clock", "...", "well-known", "$5", "5%", "#tag", "a@b.com", "http://x.y/z", "x86", "3.14", "1,000",
    "0x1F", "(paren)", "[bracket]", "—", "-", "--", "/", "C++", "it's", "’s", "1980s", "U.S.", "Mr.", "a.m.", "…", "!?", "§", "\u{a0}",
    "\t", "  ", "the", "teh", "a", "I", "word", "Ünïcödé", "世界", "😀", ",", ";", ":", ".", "!", "?", "\n", "\n\n", "&", "10:30"];
/// A numeric literal in one of the shapes the lexer knows or nearly knows: hex and decimal of 1-40 digits
/// (beyond 2^53, 2^64 and 2^128), leading zeros, fractions, exponents, separators, ordinal suffixes.
pub fn number_atom(rng: &mut Rng) -> String {
    let digits = |rng: &mut Rng, n: usize, set: &str| -> String { let cs: Vec<char> = set.chars().collect(); (0..n).map(|_| *rng.pick(&cs[..])).collect() };
    let len = *rng.pick(&[1usize, 2, 3, 8, 15, 16, 17, 18, 19, 20, 21, 32, 33, 40]);
    let (a, b, c) = (rng.range(1, 20), rng.range(1, 17), rng.range(1, 6));
    let mut s = match rng.below(10) {
        0 => format!("0x{}", digits(rng, len, "0123456789abcdef")),
        1 => format!("0x{}", digits(rng, len, "0123456789ABCDEF")),
        2 => format!("0x{}{}", "0".repeat(a), digits(rng, b, "0123456789abcdef")),
        3 => format!("0x{}", "f".repeat(len)),
        4 => digits(rng, len, "0123456789"),
        5 => format!("{}{}", "0".repeat(c), digits(rng, c, "0123456789")),
        6 => format!("{}.{}", digits(rng, a, "0123456789"), digits(rng, b, "0123456789")),
        7 => format!("{}e{}{}", rng.range(1, 99), ["", "-", "+"][rng.below(3)], rng.range(0, 400)),
        8 => format!("{},{}", rng.range(1, 999), digits(rng, 3, "0123456789")),
        _ => format!("{}", rng.next() >> rng.below(60)),
    };
    if rng.chance(1, 4) { s.push_str(*rng.pick(&["st", "nd", "rd", "th", "TH", "s", "x", "%", ".", ".5", "px"])); }
    s
}

/// A URL-like literal assembled from optional parts: scheme, credentials, host, port, path, query, fragment.
pub fn url_atom(rng: &mut Rng) -> String {
    let mut s = String::new();
    if !rng.chance(1, 6) { s.push_str(*rng.pick(&["http", "https", "ftp", "ssh", "ws", "git", "file", "foo", "mailto"])); s.push_str(*rng.pick(&["://", "://", ":", ":/"])); }
    if rng.chance(1, 2) { s.push_str(*rng.pick(&["git", "admin", "u", "bob.smith", "ü"])); if rng.chance(1, 2) { s.push(':'); s.push_str(*rng.pick(&["secret", "p", "", "a:b"])); } s.push('@'); }
    s.push_str(*rng.pick(&["example.com", "localhost", "files.example.co.uk", "127.0.0.1", "[::1]", "h", "xn--bcher-kva.example", "a-b.c"]));
    if rng.chance(1, 2) { s.push(':'); s.push_str(*rng.pick(&["80", "2222", "8080", "0", "65536", "", "99999999999999999999"])); }
    if rng.chance(1, 2) { s.push_str(*rng.pick(&["/", "/pub", "/a/b.html", "/~u/x_y", "/%20"])); }
    if rng.chance(1, 4) { s.push_str(*rng.pick(&["?q=1", "?a=b&c=d", "?"])); }
    if rng.chance(1, 5) { s.push_str(*rng.pick(&["#frag", "#"])); }
    s
}

pub fn token_soup(rng: &mut Rng) -> String {
    let n = rng.range(2, 12);
    let mut out = String::new();
    let quote_at = if rng.chance(1, 2) { Some(rng.below(n)) } else { None };
    for i in 0..n {
        if i > 0 && !rng.chance(1, 3) { out.push(' '); }
        if Some(i) == quote_at {
            let (o, c) = *rng.pick(&[("\"", "\""), ("“", "”"), ("\"", "”")]);
            out.push_str(o); out.push_str(*rng.pick(&ATOMS[..])); out.push_str(c);
        } else if rng.chance(1, 5) {
            out.push_str(&number_atom(rng));
        } else if rng.chance(1, 6) {
            out.push_str(&url_atom(rng));
        } else {
            out.push_str(*rng.pick(&ATOMS[..]));
        }
    }
    out
}

/// A Markdown document that ENDS inside a nested block (loose list item, heading inside an item, quote inside an
/// item, nested list, table cell) with a sentence of more than forty words, with or without a final mark and a
/// final line feed: the structural break tokens at the end of such a document are zero-width and pile up.
pub fn long_tail_markdown(corpus: &[String], rng: &mut Rng) -> String {
    let mut words: Vec<String> = Vec::new();
    while words.len() < rng.range(41, 60) {
        for w in rng.pick(corpus).split_whitespace() { words.push(w.trim_matches(|c: char| !c.is_alphanumeric()).to_string()); }
        words.retain(|w| !w.is_empty());
    }
    let mut long = words.join(" ");
    match rng.below(4) { 0 => long.push('.'), 1 => long.push('?'), _ => {} }
    // the long sentence is not always the first thing of its block, nor of its run of text
    long = match rng.below(6) {
        0 => format!("Short one. {long}"),
        1 => format!("Short *one*. Then {long}"),
        2 => format!("See `this`. {long} And a short one."),
        3 => format!("{long} Short end."),
        _ => long,
    };
    let mut doc = match rng.below(9) {
        0 => format!("- A short item.\n\n- {long}"),
        1 => format!("- A short item.\n- {long}"),
        2 => format!("1. One.\n\n   # Heading {long}"),
        3 => format!("- outer\n  - inner {long}"),
        4 => format!("> quoted {long}"),
        5 => format!("- item\n\n  > {long}"),
        6 => format!("| a | b |\n|---|---|\n| c | {long} |"),
        7 => format!("Intro paragraph.\n\n{long}"),
        _ => format!("# {long}"),
    };
    match rng.below(3) { 0 => doc.push('\n'), 1 => doc.push_str("\n\n"), _ => {} }
    doc
}

/// Every ordered pair of condensing-relevant atoms glued together without a blank, inside a plain sentence: what one
/// pass makes of the first atom is what the next pass sees in front of the second.
pub fn glued_pairs() -> Vec<String> {
    let p = ["etc.", "etc", "vs.", "et al.", "e.g.", "i.e.", "...", "..", ".", "…", "'s", "'", "’", "-", "--", "—", "1st", "2", "3.5", "N.S.A.", "a.m.",
        "%", "$5", "@a", "#tag", "\"", "”", "“", ",", "!", "?", ":", ";", "(", ")", "/", "&", "x86", "don't", "well-known", "\n", " ", "I", "A", "b"];
    let mut v = Vec::new();
    for a in p { for b in p {
        v.push(format!("pears {a}{b} and more"));
        if a != b { v.push(format!("{a}{b}")); }
        // the pair as the very last thing of the document (passes that look ahead, or finish a run after their
        // loop, meet the end here), bare or behind one closing token
        v.push(format!("So do {a}{b}"));
    } }
    for a in p { for tail in ["\n", " ", ")", "\"", "\n\n", "”"] {
        v.push(format!("So do {a}.{tail}"));
        v.push(format!("{a}.{tail}"));
    } }
    v
}

/// Amounts of money in every layout: symbol before / after the number, with no, one or two blanks, at the start, in
/// the middle and at the end of a clause.
pub fn currency_texts() -> Vec<String> {
    let mut v = Vec::new();
    for sym in ["$", "€", "£", "¥", "¢", "₭", "₹", "₽"] {
        for num in ["25", "3.50", "1,000", "1e6", "0"] {
            for lay in [format!("{sym}{num}"), format!("{sym} {num}"), format!("{sym}  {num}"), format!("{num}{sym}"), format!("{num} {sym}"), format!("{num}   {sym}"), format!("{sym}{num}{sym}"), format!("{sym} {sym} {num}")] {
                v.push(format!("The ticket cost {lay} at the door."));
                if num == "25" { v.push(lay.clone()); v.push(format!("{lay} is the price, {lay}")); v.push(format!("It was {lay}")); }
            }
        }
    }
    v
}

pub fn adversarial() -> Vec<String> {
    let mut v: Vec<String> = vec![
        "".into(), " ".into(), "\n".into(), "\n\n".into(), "\t".into(), "\r\n".into(), ".".into(),
        "a".into(), "the how".into(), "better then ".into(), "See e.g.".into(), "a.b.".into(),
        "{@link".into(), "/** {@link */".into(), "/** {@link foo */".into(), ">".into(), "x\n>".into(),
        "> ".into(), ">\n".into(), "\\begin{code}".into(), "\\end{code}".into(), "#a.".into(), "\"".into(),
        "#".into(), "$".into(), "$1e999".into(), "1e999".into(), "0x".into(), "0xZ".into(), "1980st".into(),
        "[a-".into(), "[a-z".into(), "[".into(), "a@".into(), "http://".into(), "www.".into(), "a'".into(),
        "'s".into(), "1's".into(), "...".into(), "..".into(), "etc.".into(), "et al.".into(), "et al".into(),
        "i.e.".into(), "N.S.A.".into(), "e.g".into(), "A.".into(), "A.B".into(), "1st".into(), "1".into(),
        "1.".into(), "I have 4. You have 5.".into(), "an".into(), "a ".into(), "an ".into(), "“".into(),
        "He said \"an test\" today.".into(), "👍🏽".into(), "😀 teh 😀".into(), "e\u{301}".into(),
        "-\t\tT".into(), ">\t\tq".into(), "1.\t\tT\n".into(), "\u{2028}".into(), "\u{0}".into(), "\u{feff}teh".into(), "*".into(), "**".into(), "[]()".into(),
        "[a](".into(), "![".into(), "<".into(), "<p".into(), "<p>".into(), "</".into(), "&amp".into(),
        "```".into(), "~~~".into(), "|".into(), "| a |\n|--".into(), "- ".into(), "1. ".into(),
        "#!/bin/sh".into(), "//".into(), "/*".into(), "/**".into(), "*/".into(), "--".into(), "{-".into(),
        "$x".into(), "$$".into(), "#let".into(), "#[".into(), "= ".into(), "@".into(), "<!--".into(),
    ];
    v.push("a".repeat(300));
    v.push("é".repeat(257));
    v.push(format!("{}.", vec!["word"; 45].join(" ")));
    v.push(format!("Short one.\n\n{} ", vec!["word"; 45].join(" ")));
    v.push(format!("First sentence. {}", vec!["and so on"; 20].join(" ")));
    v.push("1".repeat(400));
    v.push("1.".repeat(100));
    v.push("[a-z]".repeat(50));
    v.push("a.".repeat(100));
    v.push("\"".repeat(101));
    v.push(" ".repeat(500));
    v.push("\n".repeat(300));
    v.push("> ".repeat(100));
    v.push("*".repeat(200));
    v.push("[".repeat(200));
    v.push("(".repeat(200));
    v.push("the the ".repeat(60));
    v
}

/// Every prefix of `text` (by char), each also with a trailing space and newline.
pub fn prefixes(text: &str, with_ws: bool) -> Vec<String> {
    let chars: Vec<char> = text.chars().collect();
    let mut out = Vec::new();
    for n in 0..=chars.len() {
        let p: String = chars[..n].iter().collect();
        if with_ws {
            out.push(format!("{p} "));
            out.push(format!("{p}\n"));
        }
        out.push(p);
    }
    out
}

/// The "editing family" of a sentence: the sentence itself; every suffix that starts at a
/// word boundary (text deleted from the front, so every word is seen at the very start of
/// the document), each also behind a blank, a newline and an indent; every prefix that ends
/// at a word boundary, each also with a trailing blank; and the sentence without its final
/// punctuation.  Together with the character-level prefixes this puts every trigger word at
/// both ends of a document, with and without adjacent white space.
pub fn family(text: &str) -> Vec<String> {
    let chars: Vec<char> = text.chars().collect();
    let mut out = vec![text.to_string()];
    let mut bounds: Vec<usize> = vec![0];
    for i in 1..chars.len() {
        if chars[i - 1].is_whitespace() && !chars[i].is_whitespace() {
            bounds.push(i);
        }
    }
    for &b in &bounds {
        let suf: String = chars[b..].iter().collect();
        if b > 0 {
            out.push(suf.clone());
        }
        out.push(format!(" {suf}"));
        out.push(format!("\n{suf}"));
        if b % 3 == 0 {
            out.push(format!("  {suf}"));
            out.push(format!("\t{suf}"));
            out.push(format!("\n\n{suf}"));
        }
        // lower-cased first letter: the word as it appears mid-sentence
        let mut lc: Vec<char> = chars[b..].to_vec();
        if let Some(c) = lc.first_mut() {
            if c.is_uppercase() {
                *c = c.to_ascii_lowercase();
                let l: String = lc.iter().collect();
                out.push(format!(" {l}"));
                out.push(l);
            }
        }
    }
    for &b in &bounds[1..] {
        let pre: String = chars[..b].iter().collect();
        out.push(pre.trim_end().to_string());
        out.push(pre);
    }
    let trimmed = text.trim_end_matches(['.', '!', '?']);
    if trimmed.len() != text.len() {
        out.push(trimmed.to_string());
        out.push(format!("{trimmed} "));
    }
    out
}

/// A pseudo-random document assembled from corpus sentences: optional multi-byte
/// lead-in, 1-3 paragraphs.
pub fn compose(corpus: &[String], rng: &mut Rng) -> String {
    let mut s = String::new();
    if rng.chance(1, 2) {
        s.push_str(*rng.pick(MULTIBYTE_FILL));
        s.push_str(if rng.chance(1, 2) { ". " } else { "\n\n" });
    }
    let paras = rng.range(1, 3);
    for p in 0..paras {
        for _ in 0..rng.range(1, 2) {
            s.push_str(rng.pick(corpus).as_str());
            if !s.ends_with(['.', '!', '?']) {
                s.push('.');
            }
            s.push(' ');
        }
        if p + 1 < paras {
            s.pop();
            s.push_str("\n\n");
        }
    }
    s
}


/// Typst markup with function calls: positional and named arguments in any order (strings, content blocks, labels,
/// lengths, nested calls), for the functions whose arguments the front-end treats specially and for ordinary ones.
pub fn typst_calls(rng: &mut Rng, prose: &str) -> String {
    let funcs = ["image", "cite", "bibliography", "raw", "rgb", "plugin", "regex", "figure", "link", "text", "table", "heading", "par", "emph", "strong",
        "lorem", "std.image", "color.rgb", "datetime.today().display", "footnote", "quote", "highlight", "box", "grid"];
    let mut arg = |rng: &mut Rng, depth: usize| -> String {
        let named = ["width", "height", "style", "lang", "title", "alt", "supplement", "theme", "fill", "caption", "columns", "block", "full"];
        let val = match rng.below(9) {
            0 => format!("\"{}\"", ["a.png", "works.bib", "ieee", "rust", "x", "References", "#ff0000", "[a-z]+", "An teh value"][rng.below(9)]),
            1 => format!("[{}]", ["p. 7", "Some teh content", "*bold* text", "", "#emph[nested]"][rng.below(5)]),
            2 => "<key>".to_string(),
            3 => ["80%", "2cm", "1fr", "12pt", "auto", "none", "true", "3", "1.5em"][rng.below(9)].to_string(),
            4 if depth < 2 => format!("{}(\"{}\")", ["rgb", "image", "text", "luma"][rng.below(4)], ["a", "b.png", "ünï"][rng.below(3)]),
            5 => "(1, 2)".to_string(),
            6 => format!("\"{}\"", prose.chars().take(30).filter(|c| *c != '"' && *c != '\\').collect::<String>()),
            _ => ["x", "it.body", "1 + 2"][rng.below(3)].to_string(),
        };
        match rng.below(5) { 0 | 1 => format!("{}: {val}", named[rng.below(named.len())]), 2 => named[rng.below(named.len())].to_string(), _ => val }
    };
    let mut out = String::new();
    // set and show rules (selector / transform, target / arguments / condition), lines ending in CRLF or in a blank
    let nl = *rng.pick(&["\n", "\r\n", " \n", "\t\n"]);
    match rng.below(6) {
        0 => out.push_str(&format!("#show \"{}\": [{} ]{nl}", ["the", "e.g.", "A. Smith", "st", "teh"][rng.below(5)], ["the", "i.e.", "Dr. A.", "2", "An teh"][rng.below(5)])),
        1 => out.push_str(&format!("#show heading: it => [Big #it.body]{nl}")),
        2 => out.push_str(&format!("#set par(justify: true) if mode == \"final draft\"{nl}")),
        3 => out.push_str(&format!("#show \"teh\": \"the\"{nl}#let (total) = 5{nl}")),
        _ => {}
    }
    for i in 0..rng.range(1, 3) {
        if i > 0 || rng.chance(1, 2) { out.push_str(prose); out.push_str(if rng.chance(1, 3) { nl } else { " " }); }
        let f = funcs[rng.below(funcs.len())];
        let n = rng.range(0, 4);
        let args: Vec<String> = (0..n).map(|_| arg(rng, 0)).collect();
        out.push_str(&format!("#{f}({})", args.join(", ")));
        if rng.chance(1, 3) { out.push_str(&format!("[{}]", prose.chars().take(20).collect::<String>())); }
        out.push_str(if rng.chance(1, 2) { "\n\n" } else { " " });
    }
    out
}
