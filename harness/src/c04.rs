//! C04: only prose is checked, and it is located at its true position in the file.
//! Source files are assembled from (code | comment | ignored comment | markup) segments per
//! language; the harness records the ground truth (segment kinds and character ranges, prose
//! words and their start offsets) while rendering, parses with the real front-end and emits
//! `Src` events.
use serde_json::{Value, json};

use crate::front;
use crate::util::{Args, Out, Rng, catch, par_map};

const PROSE: &[&str] = &["this", "comment", "explains", "the", "function", "below", "carefully", "prosezz", "words", "here", "are", "checked",
    "by", "tool", "naïve", "reader", "wrotezz", "some", "notes", "about", "parsing", "values"];
const FILL: &[&str] = &["é", "世界", "😀", "’", "naïve", "Ünï", "日本語", "👍🏽", "ß", "𝒳", "—", "ascii"];

struct B { text: String, nchars: usize, segs: Vec<Value>, prose: Vec<Value>, forbidden: Vec<String> }
impl B {
    fn new() -> Self { B { text: String::new(), nchars: 0, segs: vec![], prose: vec![], forbidden: vec![] } }
    fn raw(&mut self, s: &str) { self.text.push_str(s); self.nchars += s.chars().count(); }
    /// non-prose text; `marker` words inside it must never reach the rules
    fn nonprose(&mut self, kind: &str, s: &str) { let a = self.nchars; self.raw(s); self.segs.push(json!({"kind": kind, "s": a, "e": self.nchars})); }
    /// prose words separated by single blanks, recorded with their offsets
    fn prose_words(&mut self, rng: &mut Rng, n: usize) {
        let a = self.nchars;
        for i in 0..n {
            if i > 0 { self.raw(" "); }
            // now and then a character reference between the words (Markdown decodes it: the event's text is
            // shorter than its source range); whatever the front-end makes of it, the words keep their places
            if i > 0 && rng.chance(1, 7) { self.raw(["&amp; ", "&#38; ", "&copy; ", "&nbsp;", "&lt;3 ", "\\* "][rng.below(6)]); }
            let w = PROSE[rng.below(PROSE.len())];
            self.prose.push(json!({"w": w, "s": self.nchars}));
            self.raw(w);
        }
        self.segs.push(json!({"kind": "prose", "s": a, "e": self.nchars}));
    }
    fn forbid(&mut self, w: &str) -> String { if !self.forbidden.iter().any(|x| x == w) { self.forbidden.push(w.to_string()); } w.to_string() }
}

/// a code line with a trailing comment on the same line (multi-byte characters before it)
fn code_line_with_trailing_comment(lang: &str, fill: &str, b: &mut B, rng: &mut Rng) {
    let before = b.text.len();
    code_line(lang, fill, b);
    // take the final line feed back, append the comment, restore it
    if b.text.ends_with('\n') && b.text.len() > before {
        b.text.pop();
        b.nchars -= 1;
        if let Some(last) = b.segs.last_mut() { last["e"] = json!(b.nchars); }
        let lead = crate::inputs::line_leader(lang);
        b.nonprose("leader", &format!(" {lead}"));
        let k = rng.range(2, 4);
        b.prose_words(rng, k);
        b.nonprose("ws", "\n");
    }
}

fn code_line(lang: &str, fill: &str, b: &mut B) {
    let strz = b.forbid("strzzq");
    let codez = b.forbid("codezzq");
    let s = match lang {
        "python" | "ruby" => format!("{codez} = \"{fill} {strz}\"\n"),
        "nix" => format!("{{ {codez} = \"{fill} {strz}\"; }}\n"),
        "cmake" => format!("set({codez} \"{fill} {strz}\")\n"),
        "toml" => format!("{codez} = \"{fill} {strz}\"\n"),
        "shellscript" => format!("{codez}=\"{fill} {strz}\"\n"),
        "lua" => format!("local {codez} = \"{fill} {strz}\"\n"),
        "haskell" => format!("{codez} = \"{fill} {strz}\"\n"),
        "php" => format!("${codez} = \"{fill} {strz}\";\n"),
        "go" => format!("var {codez} = \"{fill} {strz}\"\n"),
        "rust" => format!("const CODEZZQ: &str = \"{fill} {strz}\";\n"),
        "java" | "csharp" => format!("  String {codez} = \"{fill} {strz}\";\n"),
        "scala" => format!("val {codez} = \"{fill} {strz}\"\n"),
        "dart" => format!("var {codez} = \"{fill} {strz}\";\n"),
        "swift" => format!("let {codez} = \"{fill} {strz}\"\n"),
        "c" | "cpp" => format!("const char* {codez} = \"{fill} {strz}\";\n"),
        _ => format!("const {codez} = \"{fill} {strz}\";\n"),
    };
    if lang == "rust" { b.forbid("CODEZZQ"); }
    b.nonprose("code", &s);
}

fn comment_file(lang: &str, rng: &mut Rng) -> B {
    let mut b = B::new();
    let lead = crate::inputs::line_leader(lang);
    let indent = ["", "  ", "\t"][rng.below(3)];
    match lang { "php" => b.nonprose("code", "<?php\n"), "go" => b.nonprose("code", "package main\n"), "java" | "csharp" => b.nonprose("code", "class A {\n"), _ => {} }
    let block = matches!(lang, "rust" | "c" | "cpp" | "java" | "csharp" | "javascript" | "typescript" | "javascriptreact" | "typescriptreact" | "go" | "scala" | "dart" | "swift" | "php");
    let nseg = rng.range(2, 6);
    let mut last_was_comment = false;
    // scripts begin with a shebang line (addressed to the system, never prose); a header comment usually follows,
    // directly or behind a blank line
    if matches!(lang, "shellscript" | "python" | "ruby") && rng.chance(1, 4) {
        b.nonprose("code", ["#!/bin/sh\n", "#! /usr/bin/env python3\n", "#!/usr/bin/ruby -w\n"][rng.below(3)]);
        if rng.chance(1, 2) { b.nonprose("ws", "\n"); }
        for _ in 0..rng.range(1, 2) {
            b.nonprose("leader", lead);
            { let k = rng.range(2, 5); b.prose_words(rng, k); }
            b.nonprose("ws", "\n");
        }
        code_line(lang, FILL[0], &mut b);
    }
    for _ in 0..nseg {
        let fill = FILL[rng.below(FILL.len())];
        match if lang == "go" && !last_was_comment && rng.chance(1, 5) { 100 } else { rng.below(8) } {
            // Go: a `//go:` directive line opens a comment block; it is addressed to the tool chain (never prose), the
            // comment lines behind it are prose
            100 => {
                let d = *rng.pick(&["go:build linux", "go:generate stringer -type=Pill", "go:build ignore", "go:noinline", "go:embed hello.txt"]);
                b.nonprose("code", &format!("{indent}//{d}\n"));
                for _ in 0..rng.range(0, 2) {
                    b.nonprose("leader", &format!("{indent}// "));
                    { let k = rng.range(2, 5); b.prose_words(rng, k); }
                    b.nonprose("ws", "\n");
                }
                last_was_comment = true;
            }
            // a line addressed to a tool, followed by prose in the same comment block (whatever the front-end makes of
            // the first line - words or nothing -, the second keeps its place)
            6 => {
                let d = ["eslint-disable-next-line no-console", "noqa: E501", "shellcheck disable=SC2086", "type: ignore", "NOLINT(readability-magic)",
                    "clang-format off", "@ts-ignore", "pylint: disable=line-too-long", "rubocop:disable Metrics", "TODO(bob): later", "SAFETY: fine", "cspell:ignore qq"][rng.below(12)];
                b.nonprose("leader", &format!("{indent}{lead}"));
                b.nonprose("prose", d);
                b.nonprose("ws", "\n");
                b.nonprose("leader", &format!("{indent}{lead}"));
                { let k = rng.range(2, 5); b.prose_words(rng, k); }
                b.nonprose("ws", "\n");
                last_was_comment = true;
            }
            // a fenced code block inside a comment (comment parsers that read Markdown line by line - the unit and the
            // JSDoc parser - skip it): backtick or tilde fences, an info string on the opening fence, lines of the other
            // kind of fence inside (content, closing nothing), a longer closing fence
            7 if matches!(lang, "rust" | "python" | "c" | "cpp" | "ruby" | "lua" | "shellscript" | "javascript" | "typescript" | "javascriptreact" | "typescriptreact"
                                | "csharp" | "swift" | "scala" | "dart" | "toml" | "nix" | "cmake") => {
                let codez = b.forbid("codezzq");
                let (fence, other) = if rng.chance(1, 2) { ("```", "~~~") } else { ("~~~", "```") };
                let info = *rng.pick(&["", "", "rust", "js", "text"]);
                b.nonprose("leader", &format!("{indent}{lead}"));
                { let k = rng.range(2, 4); b.prose_words(rng, k); }
                b.nonprose("ws", "\n");
                b.nonprose("code", &format!("{indent}{lead}{fence}{info}\n{indent}{lead}let {codez} = 1;\n"));
                if rng.chance(1, 2) { b.nonprose("code", &format!("{indent}{lead}{other}\n{indent}{lead}then {codez} again\n")); }
                if rng.chance(1, 4) { b.nonprose("code", &format!("{indent}{lead}{other}{other} {codez}\n{indent}{lead}{other}\n")); }
                b.nonprose("code", &format!("{indent}{lead}{fence}\n"));
                b.nonprose("leader", &format!("{indent}{lead}"));
                { let k = rng.range(2, 4); b.prose_words(rng, k); }
                b.nonprose("ws", "\n");
                last_was_comment = true;
            }
            7 => { code_line(lang, fill, &mut b); last_was_comment = false; }
            0 => { code_line(lang, fill, &mut b); last_was_comment = false; }
            1 => {
                if matches!(lang, "toml" | "cmake" | "java" | "csharp") { code_line(lang, fill, &mut b); last_was_comment = false; }
                else { code_line_with_trailing_comment(lang, fill, &mut b, rng); last_was_comment = true; }
            }
            2 | 3 => {
                // one or two comment lines (sometimes a doc-comment leader)
                let lead = if block && lead == "// " && rng.chance(1, 3) { if matches!(lang, "rust") && rng.chance(1, 2) { "//! " } else { "/// " } } else { lead };
                for _ in 0..rng.range(1, 2) {
                    b.nonprose("leader", &format!("{indent}{lead}"));
                    { let k = rng.range(2, 5); b.prose_words(rng, k); }
                    b.nonprose("ws", "\n");
                }
                last_was_comment = true;
            }
            4 if block => {
                if matches!(lang, "rust" | "scala" | "swift" | "dart") && rng.chance(1, 3) {
                    // block comments nest in these languages: one, two or three comments inside a comment (a grammar may
                    // report the inner ones as nodes of their own), all of it comment text
                    b.nonprose("leader", &format!("{indent}/* "));
                    { let k = rng.range(1, 3); b.prose_words(rng, k); }
                    for _ in 0..rng.range(1, 3) {
                        b.nonprose("leader", " /* ");
                        { let k = rng.range(1, 2); b.prose_words(rng, k); }
                        b.nonprose("leader", " */ ");
                        { let k = rng.range(1, 2); b.prose_words(rng, k); }
                    }
                    b.nonprose("leader", " */\n");
                } else if rng.chance(1, 2) {
                    b.nonprose("leader", &format!("{indent}/* "));
                    { let k = rng.range(2, 4); b.prose_words(rng, k); }
                    b.nonprose("leader", " */\n");
                } else {
                    // documentation block with ` * ` line leaders
                    b.nonprose("leader", &format!("{indent}/**\n{indent} * "));
                    { let k = rng.range(2, 4); b.prose_words(rng, k); }
                    b.nonprose("leader", &format!("\n{indent} * "));
                    { let k = rng.range(2, 3); b.prose_words(rng, k); }
                    b.nonprose("leader", &format!("\n{indent} */\n"));
                }
                last_was_comment = true;
            }
            _ => {
                // a comment carrying an ignore marker; kept apart from other comments by code lines
                if last_was_comment { code_line(lang, fill, &mut b); }
                let ign = b.forbid("ignoredzzq");
                let marker = ["spellchecker:ignore", "harper:ignore", "spell-checker: ignore", "spellcheck:ignore", "spellchecker: ignore", "spell-checker:ignore",
                    "spellcheck: ignore", "harper: ignore"][rng.below(8)];
                // the marker anywhere in the block: alone, behind words on its line, or on a later line of a block whose
                // earlier lines talk about ignoring, spell checkers and harper themselves - the whole block is dropped
                match rng.below(4) {
                    0 => b.nonprose("ignored", &format!("{indent}{lead}{marker} {ign} {fill}\n")),
                    1 => b.nonprose("ignored", &format!("{indent}{lead}we ignore the {ign} on purpose {marker} {ign}\n")),
                    2 => b.nonprose("ignored", &format!("{indent}{lead}The harper spellchecker is told to ignore {ign} here.\n{indent}{lead}{marker} {ign} {fill}\n")),
                    _ => b.nonprose("ignored", &format!("{indent}{lead}Ignored words: {ign}\n{indent}{lead}are ignored: {ign}\n{indent}{lead}{fill} {marker} {ign}\n{indent}{lead}and {ign} after it\n")),
                }
                code_line(lang, fill, &mut b);
                last_was_comment = false;
            }
        }
    }
    if matches!(lang, "java" | "csharp") { b.nonprose("code", "}\n"); }
    b
}

fn markdown_file(rng: &mut Rng, link_text_is_prose: bool) -> B {
    let mut b = B::new();
    for _ in 0..rng.range(2, 5) {
        let fill = FILL[rng.below(FILL.len())];
        let codez = b.forbid("codezzq");
        let urlz = b.forbid("urlzzq");
        match rng.below(9) {
            0 => { b.nonprose("markup", "# "); b.prose_words(rng, 3); b.nonprose("ws", "\n\n"); }
            1 => { b.nonprose("markup", "- "); b.prose_words(rng, 3); b.nonprose("ws", "\n"); b.nonprose("markup", "- "); b.prose_words(rng, 2); b.nonprose("ws", "\n\n"); }
            2 => { b.prose_words(rng, 2); b.nonprose("markup", &format!(" `{codez} {fill}` ")); b.prose_words(rng, 2); b.nonprose("ws", "\n\n"); }
            3 => { b.nonprose("markup", &format!("```\n{codez} {fill}\n```\n\n")); b.prose_words(rng, 3); b.nonprose("ws", "\n\n"); }
            4 => {
                b.nonprose("markup", "[");
                if link_text_is_prose { b.prose_words(rng, 2); } else { let lt = b.forbid("linktextzzq"); b.nonprose("markup", &format!("{lt} {lt}")); }
                b.nonprose("markup", &format!("](http://{urlz}.example/{fill}) ")); b.prose_words(rng, 2); b.nonprose("ws", "\n\n");
            }
            5 => { b.nonprose("markup", "| "); b.prose_words(rng, 2); b.nonprose("markup", " | "); b.prose_words(rng, 1); b.nonprose("markup", " |\n|---|---|\n| "); b.prose_words(rng, 2); b.nonprose("markup", &format!(" | `{codez}{fill}` |\n\n")); }
            6 => { b.prose_words(rng, 2); b.nonprose("markup", &format!(" <span title=\"{fill}\">")); b.prose_words(rng, 1); b.nonprose("markup", "</span> "); b.prose_words(rng, 2); b.nonprose("ws", "\n\n"); }
            7 => { b.nonprose("markup", &format!("<!-- {fill} -->\n\n")); b.prose_words(rng, 3); b.nonprose("ws", "\n\n"); }
            _ => { b.nonprose("prose", &format!("{fill} ")); b.prose_words(rng, 4); b.nonprose("prose", "."); b.nonprose("ws", "\n\n"); }
        }
    }
    b
}

fn html_file(rng: &mut Rng) -> B {
    let mut b = B::new();
    b.nonprose("markup", "<html><body>\n");
    for _ in 0..rng.range(1, 4) {
        let fill = FILL[rng.below(FILL.len())];
        let strz = b.forbid("strzzq");
        match rng.below(4) {
            0 => { b.nonprose("markup", &format!("<p title=\"{strz} {fill}\">")); b.prose_words(rng, 3); b.nonprose("markup", "</p>\n"); }
            1 => { b.nonprose("markup", &format!("<h1 class=\"{fill}\">")); b.prose_words(rng, 2); b.nonprose("markup", "</h1>\n"); }
            2 => { b.nonprose("markup", "<ul><li>"); b.prose_words(rng, 2); b.nonprose("markup", &format!("</li><li data-x=\"{strz}{fill}\">")); b.prose_words(rng, 2); b.nonprose("markup", "</li></ul>\n"); }
            _ => { b.nonprose("markup", "<p>"); b.nonprose("prose", &format!("{fill} ")); b.prose_words(rng, 3); b.nonprose("markup", "</p>\n"); }
        }
    }
    b.nonprose("markup", "</body></html>\n");
    b
}

fn typst_file(rng: &mut Rng) -> B {
    let mut b = B::new();
    for _ in 0..rng.range(1, 4) {
        let fill = FILL[rng.below(FILL.len())];
        let codez = b.forbid("codezzq");
        match rng.below(4) {
            0 => { b.nonprose("markup", "= "); b.prose_words(rng, 3); b.nonprose("ws", "\n\n"); }
            1 => { b.prose_words(rng, 2); b.nonprose("markup", &format!(" ${codez}^2$ ")); b.prose_words(rng, 2); b.nonprose("ws", "\n\n"); }
            2 => { b.nonprose("markup", &format!("`{codez} {fill}` ")); b.prose_words(rng, 3); b.nonprose("ws", "\n\n"); }
            _ => { b.nonprose("prose", &format!("{fill} ")); b.prose_words(rng, 4); b.nonprose("ws", "\n\n"); }
        }
    }
    b
}

fn lhs_file(rng: &mut Rng) -> B {
    let mut b = B::new();
    // a file may begin with code: a bird track on its very first line
    if rng.chance(1, 4) { let codez = b.forbid("codezzq"); b.nonprose("code", &format!("> {codez} = 0\n> main = {codez}\n\n")); }
    for _ in 0..rng.range(1, 4) {
        let fill = FILL[rng.below(FILL.len())];
        let codez = b.forbid("codezzq");
        match rng.below(4) {
            // Haskell with blank lines inside a code environment
            3 => { b.prose_words(rng, 3); b.nonprose("ws", "\n\n"); b.nonprose("code", &format!("\\begin{{code}}\n{codez} :: Int\n{codez} = 1\n\nother {codez} :: Int\n\n\n{codez} = 2\n\\end{{code}}\n\n")); }
            0 => { b.prose_words(rng, 4); b.nonprose("ws", "\n\n"); b.nonprose("code", &format!("> {codez} = \"{fill}\"\n> main = {codez}\n\n")); }
            1 => { b.prose_words(rng, 3); b.nonprose("ws", "\n"); b.nonprose("code", &format!("\\begin{{code}}\n{codez} = \"{fill}\"\n\\end{{code}}\n")); }
            _ => { b.prose_words(rng, 3); b.nonprose("ws", "\n\n"); }
        }
    }
    b.prose_words(rng, 3);
    b.nonprose("ws", "\n");
    b
}

fn commit_file(rng: &mut Rng) -> B {
    let mut b = B::new();
    b.prose_words(rng, 4);
    if rng.chance(1, 2) { b.nonprose("prose", " (#12)"); }
    b.nonprose("ws", "\n\n");
    b.prose_words(rng, 5);
    b.nonprose("ws", "\n");
    if rng.chance(1, 2) { b.prose_words(rng, 3); b.nonprose("ws", "\n"); }
    let ign = b.forbid("ignoredzzq");
    b.nonprose("ignored", &format!("# Please enter the commit message. {ign}\n# On branch {ign}\n"));
    b
}

/// A generated source file for `lang` (text only): used by the other drivers as rich input.
pub fn render(lang: &str, seed: u64) -> String {
    let mut rng = Rng::new(seed ^ (lang.len() as u64 * 7919));
    match lang {
        "markdown" => markdown_file(&mut rng, true).text,
        "markdown-nolinktitle" => markdown_file(&mut rng, false).text,
        "html" => html_file(&mut rng).text,
        "typst" => typst_file(&mut rng).text,
        "lhaskell" => lhs_file(&mut rng).text,
        "git-commit" => commit_file(&mut rng).text,
        "plain" => { let mut b = B::new(); b.prose_words(&mut rng, 6); b.text }
        l => comment_file(l, &mut rng).text,
    }
}

/// The same file with CRLF line ends: every offset moves by the number of line feeds before it.
fn to_crlf(b: &B) -> B {
    let chars: Vec<char> = b.text.chars().collect();
    let mut nl_before = vec![0usize; chars.len() + 1];
    for i in 0..chars.len() { nl_before[i + 1] = nl_before[i] + if chars[i] == '\n' { 1 } else { 0 }; }
    let sh = |p: u64| -> u64 { p + nl_before[p as usize] as u64 };
    let mut out = B::new();
    out.text = b.text.replace('\n', "\r\n");
    out.nchars = out.text.chars().count();
    out.segs = b.segs.iter().map(|s| json!({"kind": s["kind"], "s": sh(s["s"].as_u64().unwrap()), "e": sh(s["e"].as_u64().unwrap())})).collect();
    out.prose = b.prose.iter().map(|p| json!({"w": p["w"], "s": sh(p["s"].as_u64().unwrap())})).collect();
    out.forbidden = b.forbidden.clone();
    out
}

fn event(lang: &str, b: &B, crlf: bool) -> Value {
    let converted;
    let b = if crlf { converted = to_crlf(b); &converted } else { b };
    let text = b.text.clone();
    // the very same text may have been looked at as another language a moment ago (an editor correcting the
    // language mode; a tool trying parsers): what that left behind must not reach this parse
    if b.nchars % 2 == 0 {
        let others = front::COMMENT_LANGS;
        let other = others[(b.nchars / 2 + lang.len()) % others.len()];
        if other != lang { if let Some(p2) = front::base_parser(other) { let _ = catch(|| front::doc_with(&text, &p2)); } }
    }
    let parser = front::base_parser(lang).unwrap();
    match catch(|| front::doc_with(&text, &parser)) {
        Err(p) => json!({"ev": "SrcPanic", "lang": lang, "text": text, "loc": p}),
        Ok(doc) => {
            let src = doc.get_source();
            let toks: Vec<Value> = doc.get_tokens().iter().filter(|t| !matches!(t.kind, harper_core::TokenKind::Space(_) | harper_core::TokenKind::Newline(_) | harper_core::TokenKind::ParagraphBreak))
                .map(|t| json!({"k": crate::c02::kind_name(&t.kind), "s": t.span.start, "e": t.span.end,
                    "text": src[t.span.start.min(src.len())..t.span.end.min(src.len())].iter().collect::<String>()})).collect();
            json!({"ev": "Src", "lang": lang, "len": b.nchars, "segs": b.segs, "prose": b.prose, "forbidden": b.forbidden, "toks": toks, "text": text})
        }
    }
}

pub fn main(a: &Args) {
    let mut out = Out::create(a.req("out"));
    let seed = a.num("seed", 1);
    let per = a.num("per-lang", 20) as usize;
    let mut langs: Vec<String> = front::COMMENT_LANGS.iter().map(|s| s.to_string()).collect();
    langs.extend(["markdown", "markdown-nolinktitle", "html", "typst", "lhaskell", "git-commit"].iter().map(|s| s.to_string()));
    let jobs: Vec<(String, u64)> = langs.iter().flat_map(|l| (0..per).map(move |i| (l.clone(), seed * 1000 + i as u64))).collect();
    let evs = par_map(jobs.len(), a.num("threads", 12) as usize, |_| (), |_, i| {
        let (lang, s) = &jobs[i];
        let mut rng = Rng::new(*s ^ crate::util::digest(lang).len() as u64 ^ (lang.len() as u64 * 7919));
        let b = match lang.as_str() {
            "markdown" => markdown_file(&mut rng, true),
            "markdown-nolinktitle" => markdown_file(&mut rng, false),
            "html" => html_file(&mut rng),
            "typst" => typst_file(&mut rng),
            "lhaskell" => lhs_file(&mut rng),
            "git-commit" => commit_file(&mut rng),
            l => comment_file(l, &mut rng),
        };
        // CRLF line ends for a quarter of the files (not for formats whose line handling is LF-only by design)
        let crlf = *s % 4 == 3 && !matches!(lang.as_str(), "lhaskell" | "git-commit");
        event(lang, &b, crlf)
    });
    for e in evs { out.emit(&e); }
    println!("{}", json!({"events": out.finish()}));
}

/// `hv c04lines --cases F --out T`: every sequence of line kinds from MC_CommentLines, rendered as one comment block in
/// several languages / comment styles and parsed by the real comment parser (CommentLines.tla, Trace_CommentLines.tla).
pub fn lines_main(a: &Args) {
    let cases = crate::util::read_ndjson(a.req("cases"));
    let mut out = crate::util::Out::create(a.req("out"));
    // (language id, style): line leaders, or a block comment with starred lines
    let styles: [(&str, &str); 9] = [("rust", "// "), ("rust", "/// "), ("python", "# "), ("c", "//  "), ("javascript", "// "), ("typescript", "/// "),
        ("javascript", "block"), ("typescript", "block"), ("lua", "-- ")];
    let stride = a.num("stride", 1) as usize;
    let jobs: Vec<(usize, usize)> = (0..cases.len()).flat_map(|c| (0..styles.len()).map(move |s| (c, s))).filter(|(c, s)| (c + s) % stride == 0).collect();
    let evs = crate::util::par_map(jobs.len(), a.num("threads", 12) as usize, |_| (), |_, j| {
        let (c, s) = jobs[j];
        let kinds: Vec<&str> = cases[c]["kinds"].as_array().unwrap().iter().map(|k| k.as_str().unwrap()).collect();
        let (lang, style) = styles[s];
        let mut text = String::new();
        let mut want_at: Vec<(usize, String)> = Vec::new();      // (character offset, word) per line
        if style == "block" { text.push_str("/**\n"); }
        for (i, k) in kinds.iter().enumerate() {
            let lead = if style == "block" { " * " } else { style };
            // every line's word is one of a kind (all lower-case letters, no dictionary word)
            let word = format!("{}wq{}", match *k { "prose" => "pz", "dir" => "dz", _ => "fz" }, ["a", "b", "c", "d", "e", "f"][i % 6]);
            text.push_str(lead);
            match *k {
                "prose" | "dir" => { want_at.push((text.chars().count(), word.clone())); text.push_str(&word); }
                f => { want_at.push((usize::MAX, String::new()));
                       text.push_str(match f { "bt" => "```", "tl" => "~~~", "bt4" => "````", "tl4" => "~~~~", "bti" => "```rust", _ => "~~~text" }); }
            }
            text.push('\n');
        }
        if style == "block" { text.push_str(" */\n"); }
        text.push_str(match lang { "python" => "x = 1\n", "lua" => "local x = 1\n", "rust" => "fn main() {}\n", "c" => "int x;\n", _ => "let x = 1;\n" });
        let r = crate::util::catch(|| {
            let parser = crate::front::base_parser(lang).unwrap();
            let doc = crate::front::doc_with(&text, parser.as_ref());
            let src: Vec<char> = text.chars().collect();
            let words: Vec<(usize, String)> = doc.get_tokens().iter().filter(|t| t.kind.is_word())
                .map(|t| (t.span.start, src[t.span.start..t.span.end.min(src.len())].iter().collect::<String>())).collect();
            let offered: Vec<bool> = want_at.iter().map(|(at, w)| *at != usize::MAX && words.iter().any(|(s, x)| s == at && x == w)).collect();
            let stray = words.iter().filter(|(s, x)| x.contains("wq") && !want_at.iter().any(|(at, w)| at == s && w == x)).count();
            (offered, stray)
        });
        match r {
            Ok((offered, stray)) => json!({"ev": "CL", "kinds": kinds, "lang": lang, "style": style, "offered": offered, "stray": stray, "text": text}),
            Err(p) => json!({"ev": "Panic", "loc": p, "text": text}),
        }
    });
    for e in evs { out.emit(&e); }
    println!("{}", json!({"events": out.finish()}));
}
