//! C01: checking any text in any supported language never crashes or hangs.
//! `Pat` events replay TLC-enumerated pattern ASTs into the real pattern algebra and
//! run_on_chunk; `Run` events record Document::new + LintGroup::lint over many
//! (text, front-end, wrapper, rule configuration, dialect) combinations, each under
//! catch_unwind and a watchdog.
use std::collections::HashMap;
use std::sync::Arc;
use std::time::Instant;

use harper_core::linting::{Lint, LintGroup, Linter, PatternLinter};
use harper_core::patterns::{
    All, AnyPattern, ConsumesRemainingPattern, EitherPattern, Invert, Pattern, RepeatingPattern,
    SequencePattern, WhitespacePattern,
};
use harper_core::{Dialect, Punctuation, Span, Token, TokenKind, TokenStringExt};
use serde_json::{Value, json};

use crate::front;
use crate::inputs;
use crate::util::{Args, Out, Rng, catch, panic_loc, par_map_watchdog, read_corpus, read_ndjson};

fn build_pattern(v: &Value) -> Box<dyn Pattern> {
    match v["op"].as_str().unwrap() {
        "Pred" => {
            let k = v["k"].as_str().unwrap().to_string();
            Box::new(move |t: &Token, _s: &[char]| match k.as_str() {
                "w" => t.kind.is_word(),
                "p" => t.kind.is_period(),
                _ => t.kind.is_whitespace(),
            })
        }
        "Any" => Box::new(AnyPattern),
        "WS" => Box::new(WhitespacePattern),
        "Invert" => {
            struct B(Box<dyn Pattern>);
            impl Pattern for B {
                fn matches(&self, t: &[Token], s: &[char]) -> usize {
                    self.0.matches(t, s)
                }
            }
            Box::new(Invert::new(B(build_pattern(&v["a"]))))
        }
        "Consumes" => Box::new(ConsumesRemainingPattern::new(build_pattern(&v["a"]))),
        "Repeat" => Box::new(RepeatingPattern::new(build_pattern(&v["a"]), v["n"].as_u64().unwrap() as usize)),
        "Seq" => {
            let mut s = SequencePattern::default();
            for p in v["ps"].as_array().unwrap() {
                struct B(Box<dyn Pattern>);
                impl Pattern for B {
                    fn matches(&self, t: &[Token], s: &[char]) -> usize {
                        self.0.matches(t, s)
                    }
                }
                s = s.then(B(build_pattern(p)));
            }
            Box::new(s)
        }
        "Either" => Box::new(EitherPattern::new(vec![build_pattern(&v["a"]), build_pattern(&v["b"])])),
        "All" => Box::new(All::new(vec![build_pattern(&v["a"]), build_pattern(&v["b"])])),
        other => panic!("unknown op {other}"),
    }
}

struct PL(Box<dyn Pattern>);
impl PatternLinter for PL {
    fn pattern(&self) -> &dyn Pattern {
        self.0.as_ref()
    }
    fn match_to_lint(&self, matched: &[Token], _source: &[char]) -> Option<Lint> {
        Some(Lint { span: matched.span()?, ..Default::default() })
    }
    fn description(&self) -> &str {
        "harness"
    }
}

fn pat_event(c: &Value) -> Value {
    let kinds: Vec<&str> = c["toks"].as_array().unwrap().iter().map(|v| v.as_str().unwrap()).collect();
    let mut source: Vec<char> = Vec::new();
    let mut toks: Vec<Token> = Vec::new();
    for k in &kinds {
        let (ch, kind) = match *k {
            "w" => ('w', TokenKind::Word(None)),
            "p" => ('.', TokenKind::Punctuation(Punctuation::Period)),
            _ => (' ', TokenKind::Space(1)),
        };
        toks.push(Token::new(Span::new(source.len(), source.len() + 1), kind));
        source.push(ch);
    }
    let pat = build_pattern(&c["pat"]);
    let m = match catch(|| pat.matches(&toks, &source)) {
        Ok(m) => m as i64,
        Err(_) => -1,
    };
    // the real chunk loop, counting its turns through match_to_lint calls is not
    // possible; instead report the number of lints and whether it returned
    let pl = PL(build_pattern(&c["pat"]));
    let run = match catch(|| harper_core_run_on_chunk(&pl, &toks, &source)) {
        Ok(l) => l.len() as i64,
        Err(_) => -1,
    };
    json!({"ev": "Pat", "pat": c["pat"], "toks": kinds, "m": m, "lints": run,
           "model_m": c["m"], "model_lints": c["lints"]})
}

/// The real chunk loop (re-exported under cfg(harper_verif)).
fn harper_core_run_on_chunk(pl: &PL, toks: &[Token], source: &[char]) -> Vec<Lint> {
    harper_core::linting::run_on_chunk(pl, toks, source)
}

#[derive(Clone)]
pub struct RunInput {
    pub text: String,
    pub front: String,
    pub wrap: u8,
    pub cfg: String, // "curated" | "all" | "one:<Rule>" | "rand:<seed>"
    pub dialect: usize,
    pub src: &'static str,
}

pub struct Worker {
    groups: HashMap<(String, usize), LintGroup>,
    rule_names: Vec<String>,
}

impl Worker {
    pub fn new() -> Self {
        let lg = front::curated_group(Dialect::American);
        let rule_names: Vec<String> = lg.iter_keys().map(|s| s.to_string()).collect();
        Self { groups: HashMap::new(), rule_names }
    }
    fn group(&mut self, cfg: &str, dialect: usize) -> &mut LintGroup {
        let names = self.rule_names.clone();
        self.groups.entry((cfg.to_string(), dialect)).or_insert_with(|| {
            let d = front::dialects()[dialect % 4];
            let mut lg = if cfg == "user" { LintGroup::new_curated(front::user_merged(), d) } else { front::curated_group(d) };
            if cfg == "all" || cfg == "user" {
                lg.set_all_rules_to(Some(true));
            } else if let Some(r) = cfg.strip_prefix("one:") {
                lg.set_all_rules_to(Some(false));
                lg.config.set_rule_enabled(r, true);
            } else if let Some(s) = cfg.strip_prefix("rand:") {
                let mut rng = Rng::new(s.parse().unwrap_or(0));
                for n in &names {
                    lg.config.set_rule_enabled(n, rng.chance(1, 2));
                }
            }
            lg
        })
    }
}

pub fn run_one(w: &mut Worker, inp: &RunInput) -> Value {
    let t0 = Instant::now();
    let len = inp.text.chars().count();
    let Some(parser) = front::wrapped_parser(&inp.front, inp.wrap) else {
        return json!(null);
    };
    // drop cached groups now and then so memory stays bounded
    if w.groups.len() > 40 {
        w.groups.clear();
    }
    let lg = w.group(&inp.cfg, inp.dialect);
    let r = catch(|| {
        let doc = if inp.cfg == "user" { front::doc_with_dict(&inp.text, &parser, &front::user_merged()) } else { front::doc_with(&inp.text, &parser) };
        lg.lint(&doc).len()
    });
    let ms = t0.elapsed().as_millis() as u64;
    let mut e = json!({"ev": "Run", "src": inp.src, "len": len, "front": inp.front, "wrap": inp.wrap,
        "cfg": inp.cfg, "dialect": inp.dialect, "ms": ms,
        "text": if len <= 400 { inp.text.as_str() } else { "" }});
    match r {
        Ok(n) => {
            e["out"] = json!("ok");
            e["nlints"] = json!(n);
            e["loc"] = json!("");
        }
        Err(p) => {
            // a poisoned linter may misbehave afterwards: rebuild it
            w.groups.remove(&(inp.cfg.clone(), inp.dialect));
            e["out"] = json!("panic");
            e["nlints"] = json!(0);
            e["loc"] = json!(panic_loc(&p));
            e["msg"] = json!(p);
            e["text"] = json!(inp.text);
        }
    }
    e
}

pub fn build_inputs(a: &Args, rng: &mut Rng) -> Vec<RunInput> {
    let mut v: Vec<RunInput> = Vec::new();
    let fronts = front::all_front_names();
    let rules: Vec<String> = Worker::new().rule_names;
    let mut cfg_for = |rng: &mut Rng| -> String {
        match rng.below(10) {
            0..=3 => "all".to_string(),
            4..=5 => "curated".to_string(),
            6..=8 => format!("one:{}", rng.pick(&rules[..])),
            _ => format!("rand:{}", rng.below(16)),
        }
    };
    // typing buffers enumerated by TLC (class strings)
    if let Some(cases) = a.get("typing") {
        let alpha: HashMap<String, String> =
            serde_json::from_str(&std::fs::read_to_string(a.req("alphabet")).unwrap()).unwrap();
        for c in read_ndjson(cases) {
            let text: String =
                c["text"].as_array().unwrap().iter().map(|k| alpha[k.as_str().unwrap()].as_str()).collect();
            let fr = ["plain", "markdown", "typst", "html"][rng.below(4)];
            v.push(RunInput { text, front: fr.into(), wrap: 0, cfg: "all".into(), dialect: rng.below(4), src: "typing" });
        }
    }
    if let Some(corpus) = a.get("corpus") {
        let corpus = read_corpus(corpus);
        // every prefix of corpus sentences, with and without trailing white space
        let n = a.num("prefix-sentences", 100) as usize;
        let start = rng.below(corpus.len());
        for i in 0..n.min(corpus.len()) {
            let t = &corpus[(start + i) % corpus.len()];
            for p in inputs::prefixes(t, true) {
                let fr = if rng.chance(1, 2) { "plain" } else { "markdown" };
                v.push(RunInput { text: p, front: fr.into(), wrap: 0, cfg: "all".into(), dialect: i % 4, src: "prefix" });
            }
        }
        // Typst function calls with arguments in every order, whole and as typed so far
        for i in 0..a.num("typst-calls", 150) as usize {
            let t = inputs::typst_calls(rng, &corpus[(start + i) % corpus.len()]);
            v.push(RunInput { text: t.clone(), front: "typst".into(), wrap: (i % 4) as u8, cfg: "all".into(), dialect: i % 4, src: "typst-calls" });
            if i % 3 == 0 {
                for p in inputs::prefixes(&t, false) { v.push(RunInput { text: p, front: "typst".into(), wrap: 0, cfg: "curated".into(), dialect: i % 4, src: "typst-calls" }); }
            }
        }
        // editing families: every word of every sentence at the start of a document
        let nf = a.num("family-sentences", 200) as usize;
        let fstart = rng.below(corpus.len());
        for i in 0..nf.min(corpus.len()) {
            let t = &corpus[(fstart + i) % corpus.len()];
            for p in inputs::family(t) {
                let fr = match rng.below(6) { 0 => "markdown", 1 => "typst", 2 => "html", _ => "plain" };
                v.push(RunInput { text: p.clone(), front: fr.into(), wrap: 0, cfg: "all".into(), dialect: i % 4, src: "family" });
                if rng.chance(1, 8) {
                    // the same text as the body of a block comment with an empty first line
                    let lang = *rng.pick(&["c", "rust", "typescript", "python", "java", "go", "lua"][..]);
                    let body = match lang {
                        "python" => format!("#\n# {}\n", p.replace('\n', "\n# ")),
                        "lua" => format!("--\n-- {}\n", p.replace('\n', "\n-- ")),
                        _ => format!("/*\n * {}\n */\n", p.replace('\n', "\n * ")),
                    };
                    v.push(RunInput { text: body, front: lang.into(), wrap: 0, cfg: "all".into(), dialect: 0, src: "family" });
                }
            }
        }
        for _ in 0..a.num("docs", 2000) {
            let prose = inputs::compose(&corpus, rng);
            let fr = rng.pick(&fronts[..]).clone();
            let text = if rng.chance(1, 3) { crate::c04::render(&fr, rng.next()) } else { inputs::wrap_front(&fr, &prose, rng) };
            // a random cut simulates the document while it is being typed
            let text = if rng.chance(1, 2) {
                let cs: Vec<char> = text.chars().collect();
                let n = rng.range(0, cs.len());
                cs[..n].iter().collect()
            } else {
                text
            };
            let wrap = if rng.chance(1, 4) { rng.range(1, 3) as u8 } else { 0 };
            let cfg = cfg_for(rng);
            v.push(RunInput { text, front: fr, wrap, cfg, dialect: rng.below(4), src: "doc" });
        }
    }
    if let Some(corpus) = a.get("corpus") {
        let corpus = crate::util::read_corpus(corpus);
        for i in 0..a.num("long-tails", 200) as usize {
            let t = inputs::long_tail_markdown(&corpus, rng);
            v.push(RunInput { text: t, front: if i % 6 == 5 { "plain".into() } else { "markdown".into() }, wrap: 0, cfg: "all".into(), dialect: i % 4, src: "longtail" });
        }
    }
    // token soups: lexically special atoms strung together (every pass meets every other pass's output)
    for i in 0..a.num("soups", 1500) as usize {
        let t = inputs::token_soup(rng);
        let fr = if i % 3 == 0 { rng.pick(&fronts[..]).clone() } else { ["plain", "markdown"][i % 2].to_string() };
        let text = if fr == "plain" || fr == "markdown" { t } else { inputs::wrap_front(&fr, &t, rng) };
        v.push(RunInput { text, front: fr, wrap: if i % 9 == 0 { 3 } else { 0 }, cfg: if i % 4 == 1 { "user".into() } else { "all".into() }, dialect: i % 4, src: "soup" });
    }
    // ... and soups while they are being typed: every prefix, with and without a blank behind it
    for i in 0..a.num("soup-prefixes", 60) as usize {
        let t: Vec<char> = inputs::token_soup(rng).chars().collect();
        for n in 1..=t.len().min(120) {
            let p: String = t[..n].iter().collect();
            v.push(RunInput { text: p.clone(), front: ["plain", "markdown"][i % 2].into(), wrap: 0, cfg: "curated".into(), dialect: 0, src: "soup-prefix" });
            if n % 5 == 0 { v.push(RunInput { text: format!("{p} "), front: "plain".into(), wrap: 0, cfg: "curated".into(), dialect: 0, src: "soup-prefix" }); }
        }
    }
    for (i, t) in inputs::currency_texts().into_iter().enumerate() {
        if i % 3 == 0 { v.push(RunInput { text: t, front: "plain".into(), wrap: 0, cfg: "all".into(), dialect: i % 4, src: "currency" }); }
    }
    for (i, t) in inputs::glued_pairs().into_iter().enumerate() {
        v.push(RunInput { text: t, front: if i % 4 == 0 { "markdown".into() } else { "plain".into() }, wrap: 0, cfg: if i % 5 == 2 { "user".into() } else { "all".into() }, dialect: i % 4, src: "glued" });
    }
    for adv in inputs::adversarial() {
        for fr in &fronts {
            v.push(RunInput { text: adv.clone(), front: fr.clone(), wrap: 0, cfg: "all".into(), dialect: 0, src: "adversarial" });
        }
        for fr in ["plain", "markdown", "rust", "javascript"] {
            v.push(RunInput { text: adv.clone(), front: fr.into(), wrap: 3, cfg: "curated".into(), dialect: 1, src: "adversarial" });
        }
    }
    // fixture files of the repository's own language tests, cut at random points
    if let Some(dir) = a.get("fixtures") {
        let mut files: Vec<(String, String)> = Vec::new();
        collect_fixtures(std::path::Path::new(dir), &mut files);
        files.sort();
        let per = a.num("fixture-cuts", 6) as usize;
        for (path, content) in files {
            let Some(fr) = front_for_path(&path) else { continue };
            let cs: Vec<char> = content.chars().collect();
            if cs.len() > 6000 {
                continue;
            }
            v.push(RunInput { text: content.clone(), front: fr.clone(), wrap: 0, cfg: "all".into(), dialect: 0, src: "fixture" });
            for _ in 0..per {
                let n = rng.range(0, cs.len());
                let t: String = cs[..n].iter().collect();
                v.push(RunInput { text: t, front: fr.clone(), wrap: if rng.chance(1, 3) { 1 } else { 0 }, cfg: "all".into(), dialect: rng.below(4), src: "fixture" });
            }
        }
    }
    v
}

fn collect_fixtures(dir: &std::path::Path, out: &mut Vec<(String, String)>) {
    let Ok(rd) = std::fs::read_dir(dir) else { return };
    for e in rd.flatten() {
        let p = e.path();
        let name = p.file_name().unwrap().to_string_lossy().to_string();
        if p.is_dir() {
            if name == "target" || name == "node_modules" || name.starts_with('.') || name == "packages" {
                continue;
            }
            collect_fixtures(&p, out);
        } else if p.to_string_lossy().contains("/tests/") {
            if let Ok(s) = std::fs::read_to_string(&p) {
                out.push((p.to_string_lossy().to_string(), s));
            }
        }
    }
}

fn front_for_path(path: &str) -> Option<String> {
    let ext = path.rsplit('.').next()?;
    Some(
        match ext {
            "md" => "markdown",
            "typ" => "typst",
            "lhs" => "lhaskell",
            "html" => "html",
            "txt" => "plain",
            "py" => "python", "nix" => "nix", "rs" => "rust", "ts" => "typescript", "tsx" => "typescriptreact",
            "js" => "javascript", "jsx" => "javascriptreact", "go" => "go", "c" => "c", "cpp" | "h" => "cpp",
            "cmake" => "cmake", "rb" => "ruby", "swift" => "swift", "cs" => "csharp", "toml" => "toml",
            "lua" => "lua", "sh" | "bash" => "shellscript", "java" => "java", "hs" => "haskell",
            "php" => "php", "dart" => "dart", "scala" | "sbt" | "mill" => "scala",
            _ => return None,
        }
        .to_string(),
    )
}

pub fn main(a: &Args) {
    let mut out = Out::create(a.req("out"));
    let mut rng = Rng::new(a.num("seed", 1));
    if let Some(cases) = a.get("patterns") {
        for c in read_ndjson(cases) {
            out.emit(&pat_event(&c));
        }
    }
    let inputs_v = Arc::new(build_inputs(a, &mut rng));
    let timeout = a.num("timeout-ms", 20000);
    let res = par_map_watchdog(inputs_v.clone(), a.num("threads", 12) as usize, timeout, Worker::new,
        |w, inp: &RunInput| run_one(w, inp));
    for (i, r) in res.into_iter().enumerate() {
        match r {
            Some(e) if !e.is_null() => out.emit(&e),
            Some(_) => {}
            None => {
                let inp = &inputs_v[i];
                out.emit(&json!({"ev": "Run", "src": inp.src, "len": inp.text.chars().count(),
                    "front": inp.front, "wrap": inp.wrap, "cfg": inp.cfg, "dialect": inp.dialect,
                    "ms": timeout, "out": "timeout", "nlints": 0, "loc": "", "text": inp.text}));
            }
        }
    }
    // the filtering of ignored lints is part of every check request once the user has ignored something: texts
    // in both languages through a JS-facing linter that has one ignored lint (what is ignored does not matter)
    {
        let mut texts: Vec<(String, bool)> = Vec::new();
        let corpus = a.get("corpus").map(read_corpus).unwrap_or_default();
        for i in 0..a.num("ignoring", 400) as usize {
            let t = match i % 4 {
                0 => inputs::token_soup(&mut rng),
                1 if !corpus.is_empty() => inputs::long_tail_markdown(&corpus, &mut rng),
                2 if !corpus.is_empty() => { let p = rng.pick(&corpus[..]).clone(); format!("{}\n\n{}", rng.pick(&corpus[..]), inputs::markdown_doc(&p, &mut rng)) }
                _ => format!("Ths is bad.\n\n{}", inputs::token_soup(&mut rng)),
            };
            // every prefix of a few of them (a document while it is typed)
            if i % 40 == 3 { let cs: Vec<char> = t.chars().collect(); for n in 1..cs.len().min(70) { texts.push((cs[..n].iter().collect(), n % 2 == 0)); } }
            texts.push((t, i % 3 != 0));
        }
        let evs = crate::util::par_map(texts.len(), a.num("threads", 12) as usize, |_| {
            let mut l = harper_wasm::Linter::new(harper_wasm::Dialect::American);
            let t0 = "I saw teh cat.".to_string();
            if let Some(x) = l.lint(t0.clone(), harper_wasm::Language::Plain).into_iter().next() { l.ignore_lint(t0, x); }
            l
        }, |l, i| {
            let (t, md) = &texts[i];
            let lang = if *md { harper_wasm::Language::Markdown } else { harper_wasm::Language::Plain };
            let t0 = Instant::now();
            let r = catch(|| l.lint(t.clone(), lang).len());
            let mut e = json!({"ev": "Run", "src": "ignoring", "len": t.chars().count(), "front": if *md { "markdown" } else { "plain" }, "wrap": 0, "cfg": "js-linter-with-an-ignored-lint",
                "dialect": 0, "ms": t0.elapsed().as_millis() as u64, "text": t});
            match r {
                Ok(n) => { e["out"] = json!("ok"); e["nlints"] = json!(n); e["loc"] = json!(""); }
                Err(p) => {
                    e["out"] = json!("panic"); e["nlints"] = json!(0); e["loc"] = json!(panic_loc(&p)); e["msg"] = json!(p);
                    // the linter may be poisoned: a new one, with an ignored lint again
                    *l = harper_wasm::Linter::new(harper_wasm::Dialect::American);
                    let t0 = "I saw teh cat.".to_string();
                    if let Some(x) = l.lint(t0.clone(), harper_wasm::Language::Plain).into_iter().next() { l.ignore_lint(t0, x); }
                }
            }
            e
        });
        for e in evs { out.emit(&e); }
    }
    // fresh threads: whatever a thread keeps between calls (thread-local scratch buffers, automata, memos) is
    // sized by the first text it sees; each of these texts is the FIRST thing a new thread checks, with the
    // merged dictionary (user words of many lengths) and letters whose case mapping changes their length
    let firsts = ["İstanbul", "We visited İstanbul today.", "ǅungla", "STRAßE", "ŉ", "ﬁnal ﬂight", "İİİİİİİİ", "a", "zq",
        "abcdefghijklmnopq", "shipParcle", "Zzyzxqq here", "ǅ", "İzmir'e", "O'Zzyzxx", "İ"];
    for (k, t) in firsts.iter().enumerate() {
        for (fr, cfg) in [("plain", "user"), ("markdown", "user"), ("plain", "all")] {
            let inp = RunInput { text: t.to_string(), front: fr.into(), wrap: 0, cfg: cfg.into(), dialect: k % 4, src: "fresh-thread" };
            let inp2 = inp.clone();
            let h = std::thread::Builder::new().stack_size(16 << 20).spawn(move || { let mut w = Worker::new(); run_one(&mut w, &inp2) }).unwrap();
            match h.join() { Ok(e) if !e.is_null() => out.emit(&e), _ => {} }
        }
    }
    println!("{}", json!({"events": out.finish()}));
    std::process::exit(0);
}
