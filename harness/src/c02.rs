//! C02: tokens are in bounds, ordered, disjoint, tiling (plain mode) and well-shaped.
//! Emits `Case` events (TLC-generated class strings: real tokens vs the model's) and
//! `Tokens` events (documents from the drivers in every front-end).
use std::collections::HashMap;

use harper_core::{Document, NumberSuffix, Token, TokenKind};
use serde_json::{Value, json};

use crate::front;
use crate::inputs;
use crate::util::{Args, Out, Rng, catch, panic_loc, par_map, read_corpus, read_ndjson};

/// Independent character classification (not Harper's lexer): names of punctuation
/// classes equal the token-kind names the property expects for that character.
pub fn class_of(c: char) -> &'static str {
    match c {
        ' ' => "sp",
        '\t' => "tab",
        '\n' => "nl",
        '@' => "At", '~' => "Tilde", '=' => "Equal", '<' => "LessThan", '>' => "GreaterThan",
        '/' => "ForwardSlash", '\\' => "Backslash", '%' => "Percent", '’' | '\'' => "Apostrophe",
        '.' => "Period", '!' => "Bang", '?' => "Question", ':' => "Colon", ';' => "Semicolon",
        ',' | '、' | '，' => "Comma", '-' => "Hyphen", '[' => "OpenSquare", ']' => "CloseSquare",
        '{' => "OpenCurly", '}' => "CloseCurly", '(' => "OpenRound", ')' => "CloseRound",
        '#' => "Hash", '*' => "Star", '&' => "Ampersand", '–' => "EnDash", '—' => "EmDash",
        '…' => "Ellipsis", '^' => "Caret", '+' => "Plus", '|' => "Pipe", '_' => "Underscore",
        '$' | '¢' | '€' | '₽' | '₺' | '£' | '¥' | '฿' | '₩' | '₭' => "Currency",
        '"' | '“' | '”' => "Quote",
        c if c.is_whitespace() => "ws",
        c if c.is_ascii_digit() => "dig",
        c if c.is_alphabetic() => "let",
        _ => "oth",
    }
}

pub fn kind_name(k: &TokenKind) -> String {
    match k {
        TokenKind::Word(_) => "Word".into(),
        TokenKind::Punctuation(p) => {
            let d = format!("{p:?}");
            d.split(|c: char| !c.is_alphanumeric()).next().unwrap().to_string()
        }
        TokenKind::Decade => "Decade".into(),
        TokenKind::Number(_) => "Number".into(),
        TokenKind::Space(_) => "Space".into(),
        TokenKind::Newline(_) => "Newline".into(),
        TokenKind::EmailAddress => "EmailAddress".into(),
        TokenKind::Url => "Url".into(),
        TokenKind::Hostname => "Hostname".into(),
        TokenKind::Unlintable => "Unlintable".into(),
        TokenKind::ParagraphBreak => "ParagraphBreak".into(),
        TokenKind::Regexish => "Regexish".into(),
    }
}

/// Does the token's text denote the number's value and ordinal suffix?
fn num_denotes(text: &[char], n: &harper_core::Number) -> bool {
    let mut body: &[char] = text;
    if let Some(sfx) = n.suffix {
        if text.len() < 3 {
            return false;
        }
        let (b, s) = text.split_at(text.len() - 2);
        let want: [char; 2] = match sfx {
            NumberSuffix::Th => ['t', 'h'],
            NumberSuffix::St => ['s', 't'],
            NumberSuffix::Nd => ['n', 'd'],
            NumberSuffix::Rd => ['r', 'd'],
        };
        if s[0].to_ascii_lowercase() != want[0] || s[1].to_ascii_lowercase() != want[1] {
            return false;
        }
        body = b;
    }
    let s: String = body.iter().collect();
    if n.radix == 16 {
        let Some(h) = s.strip_prefix("0x") else { return false };
        return u64::from_str_radix(h, 16).map(|v| v as f64 == n.value.0).unwrap_or(false);
    }
    if !s.chars().next().map(|c| c.is_ascii_digit()).unwrap_or(false) {
        return false;
    }
    match s.parse::<f64>() {
        Ok(v) => v == n.value.0 || (v.is_nan() && n.value.0.is_nan()),
        Err(_) => false,
    }
}

pub fn tok_json(t: &Token, source: &[char]) -> Value {
    let k = kind_name(&t.kind);
    let mut n: u64 = 0;
    let mut sfx = false;
    let mut numok = true;
    match &t.kind {
        TokenKind::Space(c) | TokenKind::Newline(c) => n = *c as u64,
        TokenKind::Number(num) => {
            n = num.radix as u64;
            sfx = num.suffix.is_some();
            numok = t.span.start <= t.span.end
                && t.span.end <= source.len()
                && num_denotes(&source[t.span.start..t.span.end], num);
        }
        TokenKind::Punctuation(harper_core::Punctuation::Quote(q)) => {
            n = q.twin_loc.map(|v| v as u64 + 1).unwrap_or(0)
        }
        _ => {}
    }
    json!({"k": k, "s": t.span.start, "e": t.span.end, "n": n, "sfx": sfx, "numok": numok})
}

pub fn tokens_event(text: &str, fr: &str, wrapper: u8, doc: &Document) -> Value {
    let src = doc.get_source();
    let classes: Vec<&str> = src.iter().map(|c| class_of(*c)).collect();
    let toks: Vec<Value> = doc.get_tokens().iter().map(|t| tok_json(t, src)).collect();
    json!({"ev": "Tokens", "front": fr, "wrap": wrapper, "plain": fr == "plain" && wrapper == 0,
        "classes": classes, "toks": toks,
        "text": text})
}

pub fn main(a: &Args) {
    let mut out = Out::create(a.req("out"));
    let seed = a.num("seed", 1);
    let mut rng = Rng::new(seed);
    // (R) model comparison on TLC-enumerated class strings
    if let Some(cases) = a.get("cases") {
        let alpha: HashMap<String, String> =
            serde_json::from_str(&std::fs::read_to_string(a.req("alphabet")).unwrap()).unwrap();
        let cases = read_ndjson(cases);
        let evs = par_map(cases.len(), a.num("threads", 12) as usize, |_| (), |_, i| {
            let c = &cases[i];
            let classes: Vec<String> =
                c["text"].as_array().unwrap().iter().map(|v| v.as_str().unwrap().to_string()).collect();
            let text: String = classes.iter().map(|k| alpha[k].as_str()).collect();
            match catch(|| Document::new_plain_english_curated(&text)) {
                Ok(doc) => {
                    let src = doc.get_source();
                    let toks: Vec<Value> = doc.get_tokens().iter().map(|t| tok_json(t, src)).collect();
                    json!({"ev": "Case", "classes": classes, "model": c["toks"], "toks": toks, "text": text})
                }
                Err(p) => json!({"ev": "Panic", "front": "plain", "text": text, "loc": panic_loc(&p)}),
            }
        });
        for e in evs {
            out.emit(&e);
        }
    }
    if let Some(corpus) = a.get("corpus") {
        let corpus = read_corpus(corpus);
        let fronts = front::all_front_names();
        let mut inputs_v: Vec<(String, String, u8)> = Vec::new();
        let nprefix = a.num("prefix-sentences", 40) as usize;
        for i in 0..nprefix {
            let t = &corpus[(rng.below(corpus.len()) + i) % corpus.len()];
            for p in inputs::prefixes(t, i % 4 == 0) {
                inputs_v.push((p.clone(), "plain".into(), 0));
                if i % 2 == 0 {
                    inputs_v.push((p, "markdown".into(), 0));
                }
            }
        }
        for _ in 0..a.num("docs", 1000) {
            let prose = inputs::compose(&corpus, &mut rng);
            let fr = rng.pick(&fronts[..]).clone();
            let text = if rng.chance(1, 3) { crate::c04::render(&fr, rng.next()) } else { inputs::wrap_front(&fr, &prose, &mut rng) };
            let wrapper = if rng.chance(1, 4) { rng.range(1, 3) as u8 } else { 0 };
            inputs_v.push((text, fr, wrapper));
            inputs_v.push((prose, "plain".into(), 0));
        }
        for i in 0..a.num("soups", 3000) {
            let t = inputs::token_soup(&mut rng);
            inputs_v.push((t.clone(), "plain".into(), 0));
            if i % 3 == 0 { inputs_v.push((t.clone(), "markdown".into(), 0)); }
            if i % 7 == 0 { let fr = rng.pick(&fronts[..]).clone(); inputs_v.push((inputs::wrap_front(&fr, &t, &mut rng), fr, 0)); }
        }
        // Typst: function calls, set / show rules, lines ending in CRLF or a blank
        for i in 0..a.num("typst-calls", 300) as usize {
            let t = inputs::typst_calls(&mut rng, &corpus[i % corpus.len()]);
            inputs_v.push((t, "typst".into(), 0));
        }
        for t in inputs::glued_pairs() {
            inputs_v.push((t.clone(), "plain".into(), 0));
            if t.len() % 3 == 0 { inputs_v.push((t, "markdown".into(), 0)); }
        }
        for adv in inputs::adversarial() {
            for fr in ["plain", "markdown", "typst", "html", "lhaskell", "git-commit", "rust", "javascript", "java", "go"] {
                inputs_v.push((adv.clone(), fr.to_string(), 0));
            }
        }
        let evs = crate::util::par_map_watchdog(std::sync::Arc::new(inputs_v), a.num("threads", 12) as usize,
            a.num("timeout-ms", 10000), || (), |_, inp: &(String, String, u8)| {
            let (text, fr, wrapper) = inp;
            let Some(parser) = front::wrapped_parser(fr, *wrapper) else { return json!(null) };
            match catch(|| front::doc_with(text, &parser)) {
                Ok(doc) => tokens_event(text, fr, *wrapper, &doc),
                Err(_) => json!(null), // panics are C01's business
            }
        });
        for e in evs.into_iter().flatten() {
            if !e.is_null() {
                out.emit(&e);
            }
        }
    }
    println!("{}", json!({"events": out.finish()}));
    std::process::exit(0);
}
