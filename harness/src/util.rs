//! Shared helpers: NDJSON output, seeded RNG, argument parsing, panic capture,
//! corpus loading.
use std::cell::RefCell;
use std::collections::HashMap;
use std::fs::File;
use std::io::{BufRead, BufReader, BufWriter, Write};
use std::panic::{self, AssertUnwindSafe};

use serde_json::Value;

pub struct Args {
    pub map: HashMap<String, String>,
}

impl Args {
    pub fn parse(args: &[String]) -> Self {
        let mut map = HashMap::new();
        let mut i = 0;
        while i < args.len() {
            if let Some(k) = args[i].strip_prefix("--") {
                if i + 1 < args.len() && !args[i + 1].starts_with("--") {
                    map.insert(k.to_string(), args[i + 1].clone());
                    i += 2;
                } else {
                    map.insert(k.to_string(), "1".to_string());
                    i += 1;
                }
            } else {
                i += 1;
            }
        }
        Self { map }
    }
    pub fn get(&self, k: &str) -> Option<&str> {
        self.map.get(k).map(|s| s.as_str())
    }
    pub fn req(&self, k: &str) -> &str {
        self.get(k).unwrap_or_else(|| {
            eprintln!("missing --{k}");
            std::process::exit(2)
        })
    }
    pub fn num(&self, k: &str, default: u64) -> u64 {
        self.get(k).map(|v| v.parse().expect("number")).unwrap_or(default)
    }
}

pub struct Out {
    w: BufWriter<File>,
    pub n: u64,
}

impl Out {
    pub fn create(path: &str) -> Self {
        Self { w: BufWriter::with_capacity(1 << 20, File::create(path).expect("create out")), n: 0 }
    }
    pub fn emit(&mut self, v: &Value) {
        serde_json::to_writer(&mut self.w, v).unwrap();
        self.w.write_all(b"\n").unwrap();
        self.n += 1;
    }
    pub fn finish(mut self) -> u64 {
        self.w.flush().unwrap();
        self.n
    }
}

/// SplitMix64: tiny deterministic generator (no external crate).
#[derive(Clone)]
pub struct Rng(pub u64);

impl Rng {
    pub fn new(seed: u64) -> Self {
        Rng(seed.wrapping_mul(0x9E3779B97F4A7C15).wrapping_add(0x1234_5678_9ABC_DEF1))
    }
    pub fn next(&mut self) -> u64 {
        self.0 = self.0.wrapping_add(0x9E3779B97F4A7C15);
        let mut z = self.0;
        z = (z ^ (z >> 30)).wrapping_mul(0xBF58476D1CE4E5B9);
        z = (z ^ (z >> 27)).wrapping_mul(0x94D049BB133111EB);
        z ^ (z >> 31)
    }
    pub fn below(&mut self, n: usize) -> usize {
        if n == 0 { 0 } else { (self.next() % n as u64) as usize }
    }
    pub fn range(&mut self, lo: usize, hi: usize) -> usize {
        lo + self.below(hi - lo + 1)
    }
    pub fn chance(&mut self, num: u64, den: u64) -> bool {
        self.next() % den < num
    }
    pub fn pick<'a, T>(&mut self, xs: &'a [T]) -> &'a T {
        &xs[self.below(xs.len())]
    }
}

pub fn read_ndjson(path: &str) -> Vec<Value> {
    let f = BufReader::new(File::open(path).unwrap_or_else(|e| {
        eprintln!("cannot open {path}: {e}");
        std::process::exit(2)
    }));
    f.lines()
        .map(|l| l.unwrap())
        .filter(|l| !l.trim().is_empty())
        .map(|l| serde_json::from_str(&l).expect("json line"))
        .collect()
}

/// Corpus: one JSON string per line.
pub fn read_corpus(path: &str) -> Vec<String> {
    read_ndjson(path).into_iter().filter_map(|v| v.as_str().map(|s| s.to_string())).collect()
}

thread_local! {
    static LAST_PANIC: RefCell<Option<String>> = const { RefCell::new(None) };
}

/// Install a quiet panic hook that records `file:line: message` per thread.
pub fn install_panic_hook() {
    panic::set_hook(Box::new(|info| {
        let loc = info
            .location()
            .map(|l| {
                let f = l.file();
                let f = f.rsplit("/repo/").next().unwrap_or(f);
                format!("{}:{}", f, l.line())
            })
            .unwrap_or_else(|| "?".into());
        let msg = if let Some(s) = info.payload().downcast_ref::<&str>() {
            s.to_string()
        } else if let Some(s) = info.payload().downcast_ref::<String>() {
            s.clone()
        } else {
            String::new()
        };
        let short: String = msg.chars().take(120).collect();
        LAST_PANIC.with(|p| *p.borrow_mut() = Some(format!("{loc}: {short}")));
    }));
}

/// Run `f`, converting a panic into Err("file:line: msg").
pub fn catch<T>(f: impl FnOnce() -> T) -> Result<T, String> {
    match panic::catch_unwind(AssertUnwindSafe(f)) {
        Ok(v) => Ok(v),
        Err(_) => Err(LAST_PANIC.with(|p| p.borrow_mut().take()).unwrap_or_else(|| "?".into())),
    }
}

/// Only the `file:line` part of a panic description.
pub fn panic_loc(desc: &str) -> String {
    let mut it = desc.splitn(3, ':');
    let f = it.next().unwrap_or("?");
    let l = it.next().unwrap_or("?");
    format!("{f}:{l}")
}

pub fn cps(s: &[char]) -> Vec<u32> {
    s.iter().map(|c| *c as u32).collect()
}

pub fn cps_str(s: &str) -> Vec<u32> {
    s.chars().map(|c| c as u32).collect()
}

/// FNV-1a digest as hex, for carrying "the whole value" through a trace cheaply.
pub fn digest(s: &str) -> String {
    let mut h: u64 = 0xcbf29ce484222325;
    for b in s.as_bytes() {
        h ^= *b as u64;
        h = h.wrapping_mul(0x100000001b3);
    }
    format!("{h:016x}")
}

/// Run jobs over `n` items on `threads` worker threads; each worker gets its own
/// state from `mk` and returns collected values.
pub fn par_map<S, T: Send>(
    n: usize,
    threads: usize,
    mk: impl Fn(usize) -> S + Sync,
    f: impl Fn(&mut S, usize) -> T + Sync,
) -> Vec<T> {
    use std::sync::atomic::{AtomicUsize, Ordering};
    let next = AtomicUsize::new(0);
    let mut slots: Vec<Option<T>> = (0..n).map(|_| None).collect();
    let slots_ptr = std::sync::Mutex::new(&mut slots);
    std::thread::scope(|s| {
        for t in 0..threads.max(1) {
            let next = &next;
            let mk = &mk;
            let f = &f;
            let slots_ptr = &slots_ptr;
            std::thread::Builder::new()
                .stack_size(64 << 20)
                .spawn_scoped(s, move || {
                    let mut st = mk(t);
                    let mut local: Vec<(usize, T)> = Vec::new();
                    loop {
                        let i = next.fetch_add(1, Ordering::Relaxed);
                        if i >= n {
                            break;
                        }
                        local.push((i, f(&mut st, i)));
                        if local.len() >= 256 {
                            let mut g = slots_ptr.lock().unwrap();
                            for (i, v) in local.drain(..) {
                                g[i] = Some(v);
                            }
                        }
                    }
                    let mut g = slots_ptr.lock().unwrap();
                    for (i, v) in local.drain(..) {
                        g[i] = Some(v);
                    }
                })
                .unwrap();
        }
    });
    slots.into_iter().map(|v| v.expect("slot filled")).collect()
}

/// Like `par_map`, but every item runs under a watchdog: an item that does not finish
/// within `timeout_ms` yields `None` (its thread is abandoned and replaced; abandoned
/// threads die when the process exits — callers must leave via `std::process::exit`).
pub fn par_map_watchdog<I, S, T>(
    items: std::sync::Arc<Vec<I>>,
    threads: usize,
    timeout_ms: u64,
    mk: impl Fn() -> S + Send + Sync + 'static,
    f: impl Fn(&mut S, &I) -> T + Send + Sync + 'static,
) -> Vec<Option<T>>
where
    I: Send + Sync + 'static,
    T: Send + 'static,
    S: 'static,
{
    use std::sync::atomic::{AtomicBool, AtomicUsize, Ordering};
    use std::sync::{Arc, Mutex, mpsc};
    use std::time::{Duration, Instant};

    struct Slot {
        current: Mutex<Option<(Instant, usize)>>,
        abandoned: AtomicBool,
    }
    let n = items.len();
    let next = Arc::new(AtomicUsize::new(0));
    let (tx, rx) = mpsc::channel::<(usize, T)>();
    let mk = Arc::new(mk);
    let f = Arc::new(f);
    let slots: Arc<Mutex<Vec<Arc<Slot>>>> = Arc::new(Mutex::new(Vec::new()));

    let spawn_worker = {
        let items = items.clone();
        let next = next.clone();
        let mk = mk.clone();
        let f = f.clone();
        let slots = slots.clone();
        move |tx: mpsc::Sender<(usize, T)>| {
            let slot = Arc::new(Slot { current: Mutex::new(None), abandoned: AtomicBool::new(false) });
            slots.lock().unwrap().push(slot.clone());
            let items = items.clone();
            let next = next.clone();
            let mk = mk.clone();
            let f = f.clone();
            std::thread::Builder::new()
                .stack_size(64 << 20)
                .spawn(move || {
                    let mut st = mk();
                    loop {
                        let i = next.fetch_add(1, Ordering::Relaxed);
                        if i >= items.len() {
                            break;
                        }
                        *slot.current.lock().unwrap() = Some((Instant::now(), i));
                        let r = f(&mut st, &items[i]);
                        let mut cur = slot.current.lock().unwrap();
                        if slot.abandoned.load(Ordering::SeqCst) {
                            return;
                        }
                        *cur = None;
                        let _ = tx.send((i, r));
                    }
                })
                .unwrap();
        }
    };
    for _ in 0..threads.max(1) {
        spawn_worker(tx.clone());
    }
    let mut out: Vec<Option<T>> = (0..n).map(|_| None).collect();
    let mut done = vec![false; n];
    let mut ndone = 0;
    while ndone < n {
        if let Ok((i, r)) = rx.recv_timeout(Duration::from_millis(50)) {
            if !done[i] {
                done[i] = true;
                ndone += 1;
                out[i] = Some(r);
            }
            // drain whatever else is ready before scanning
            while let Ok((i, r)) = rx.try_recv() {
                if !done[i] {
                    done[i] = true;
                    ndone += 1;
                    out[i] = Some(r);
                }
            }
        }
        let snapshot: Vec<Arc<Slot>> = slots.lock().unwrap().clone();
        for s in snapshot {
            if s.abandoned.load(Ordering::SeqCst) {
                continue;
            }
            let cur = s.current.lock().unwrap();
            if let Some((t0, i)) = *cur {
                if t0.elapsed() > Duration::from_millis(timeout_ms) {
                    s.abandoned.store(true, Ordering::SeqCst);
                    drop(cur);
                    if !done[i] {
                        done[i] = true;
                        ndone += 1;
                    }
                    spawn_worker(tx.clone());
                }
            }
        }
    }
    out
}
