//! C07: words the user adds to a dictionary are accepted from then on and never lost.
//! Histories of add-word commands, restarts and crashes during a save, replayed on the real
//! harper-ls Backend (in process) over a real directory.
use std::path::{Path, PathBuf};
use std::time::Duration;

use serde_json::{Value, json};

use crate::ls::{Ls, flagged_words, with_runtime};
use crate::util::{Args, Out, Rng};

const W: [&str; 5] = ["zzyzxq", "Zzyzxq", "qwertzuv", "naïvetéx", "ZZYZXQ"];
// `github`, `markdown`: other capitalisations of curated entries (GitHub, Markdown), reported until the user adds them
// `Zorblaxq’s`, `o’zorbq`: words with a typographic apostrophe, added as they stand in the text
const CURATED_VARIANTS: [&str; 4] = ["github", "markdown", "Zorblaxq’s", "o’zorbq"];
const DOC: &str = "We saw zzyzxq and Zzyzxq then qwertzuv with naïvetéx or ZZYZXQ but teh end of github and markdown by Zorblaxq’s o’zorbq";

fn read_words(p: &Path) -> Option<Vec<String>> {
    std::fs::read_to_string(p).ok().map(|s| s.lines().map(|l| l.to_string()).collect())
}

fn file_dict_path(dir: &Path, doc: &Path) -> PathBuf {
    // same convention as dictionary_io::file_dict_name
    let mut name = String::new();
    for seg in doc.components() {
        if !matches!(seg, std::path::Component::RootDir) {
            name.push_str(&seg.as_os_str().to_string_lossy());
            name.push('%');
        }
    }
    // names longer than a file name may be: a digest of the whole name and its tail (same convention)
    if name.len() > 255 {
        let mut h: u64 = 0xcbf2_9ce4_8422_2325;
        for b in name.as_bytes() { h ^= *b as u64; h = h.wrapping_mul(0x0000_0100_0000_01b3); }
        let mut cut = name.len() - (255 - 17);
        while !name.is_char_boundary(cut) { cut += 1; }
        name = format!("{h:016x}%{}", &name[cut..]);
    }
    dir.join("filedicts").join(name)
}

struct Sess {
    /// where the user dictionary is configured to be right now
    user_path: PathBuf,
    dir: PathBuf,
    ls: Ls,
    docs: Vec<(String, PathBuf)>,
    evs: Vec<Value>,
}

impl Sess {
    fn new(dir: PathBuf) -> Self { Self::new_with(dir, None) }
    /// the two documents live at the same deep relative path in two checkouts: their flattened paths are
    /// longer than a file name may be and share a long tail
    fn new_deep(dir: PathBuf, seg: usize, depth: usize) -> Self {
        std::fs::create_dir_all(&dir).unwrap();
        let chain: PathBuf = (0..depth).map(|k| format!("{}{k}", "d".repeat(seg))).collect();
        let mut docs = Vec::new();
        // depth 0: two short paths of which one has the flattening's separator stand-in inside a segment
        // (`p/a%b.txt` and `p/a/b.txt`)
        for co in if depth == 0 { ["p/a%b.txt", "p/a/b.txt"] } else { ["checkout-a", "checkout-b"] } {
            let d = if depth == 0 { dir.join(co).parent().unwrap().to_path_buf() } else { dir.join(co).join(&chain) };
            std::fs::create_dir_all(&d).unwrap();
            let p = if depth == 0 { dir.join(co) } else { d.join("README.txt") };
            std::fs::write(&p, DOC).unwrap();
            docs.push((format!("file://{}", p.to_string_lossy()), p));
        }
        let plen = docs[0].1.to_string_lossy().len();
        // the real naming function on both documents: each name must fit a file name, and they must differ
        let names: Vec<String> = docs.iter().map(|(u, _)| {
            let url = tower_lsp::lsp_types::Url::parse(u).unwrap();
            crate::dictionary_io::file_dict_name(&url).map(|p| p.to_string_lossy().to_string()).unwrap_or_default()
        }).collect();
        let mut s = Self { user_path: dir.join("user/dictionary.txt"), ls: Ls::new(&dir), dir, docs, evs: vec![json!({"ev": "Reset"}),
            json!({"ev": "Deep", "path_bytes": plen, "name_bytes": names.iter().map(|n| n.len()).max().unwrap_or(0), "same_name": names[0] == names[1], "percent_in_segment": depth == 0})] };
        s.boot();
        s
    }
    /// `pre`: a dictionary file that exists before the server starts (hand-edited or written by another
    /// tool): (scope, raw contents, the words it holds)
    fn new_with(dir: PathBuf, pre: Option<(&str, String, Vec<&str>)>) -> Self {
        std::fs::create_dir_all(&dir).unwrap();
        let mut docs = Vec::new();
        for i in 1..=2 {
            let p = dir.join(format!("doc{i}.txt"));
            std::fs::write(&p, DOC).unwrap();
            docs.push((format!("file://{}", p.to_string_lossy()), p));
        }
        let mut evs = vec![json!({"ev": "Reset"})];
        if let Some((scope, raw, words)) = pre {
            let path = if scope == "user" { dir.join("user/dictionary.txt") } else { file_dict_path(&dir, &docs[0].1) };
            std::fs::create_dir_all(path.parent().unwrap()).unwrap();
            std::fs::write(&path, raw.as_bytes()).unwrap();
            evs.push(json!({"ev": "Preexisting", "scope": scope, "doc": 1, "words": words, "raw": raw, "lines": []}));
        }
        let mut s = Self { user_path: dir.join("user/dictionary.txt"), ls: Ls::new(&dir), dir, docs, evs };
        s.boot();
        s
    }
    fn boot(&mut self) {
        self.ls.initialize();
        for (uri, _) in self.docs.clone() {
            let h = self.ls.did_open(&uri, "plaintext", DOC);
            self.ls.run_to_completion(h, Duration::from_secs(20));
        }
    }
    fn restart(&mut self) {
        let settings = self.ls.settings.clone();
        self.ls = Ls::new(&self.dir);
        self.ls.settings = settings;
        self.boot();
        self.evs.push(json!({"ev": "Restart"}));
    }
    /// what is on disk and what each document's latest diagnostics flag
    fn observe(&mut self) {
        let user = read_words(&self.user_path);
        self.evs.push(json!({"ev": "Reloaded", "scope": "user", "doc": 0, "present": user.is_some(), "words": user.unwrap_or_default()}));
        for (i, (_, p)) in self.docs.clone().iter().enumerate() {
            let w = read_words(&file_dict_path(&self.dir, p));
            self.evs.push(json!({"ev": "Reloaded", "scope": "file", "doc": i + 1, "present": w.is_some(), "words": w.unwrap_or_default()}));
        }
        // strays: anything else created under the directory
        for (i, (uri, _)) in self.docs.clone().iter().enumerate() {
            // a fresh change notification so that the publish reflects the current dictionaries
            let h = self.ls.did_change(uri, 2, DOC);
            self.ls.run_to_completion(h, Duration::from_secs(20));
            let d = self.ls.last_publish(uri).cloned().unwrap_or(json!([]));
            let flagged = flagged_words(&d, DOC);
            let other = d.as_array().map(|a| a.iter().filter(|x| !x["message"].as_str().unwrap_or("").starts_with("Did you mean")).count()).unwrap_or(0);
            self.evs.push(json!({"ev": "Published", "doc": i + 1, "flagged": flagged, "other": other}));
        }
    }
    /// The client's settings now name another user dictionary; the server learns of it only by asking
    /// (workspace/configuration during the next document update), no didChangeConfiguration is sent.
    /// The old location is removed, so that anything written there afterwards shows.
    fn move_user_dict_silently(&mut self) {
        let old = self.user_path.clone();
        let new = self.dir.join("user2/words.txt");
        if let Some(parent) = new.parent() { std::fs::create_dir_all(parent).unwrap(); }
        if old.exists() { std::fs::copy(&old, &new).unwrap(); }
        self.ls.settings["harper-ls"]["userDictPath"] = json!(new.to_string_lossy());
        self.user_path = new;
        for (uri, _) in self.docs.clone() {
            let h = self.ls.did_change(&uri, 3, DOC);
            self.ls.run_to_completion(h, Duration::from_secs(20));
        }
        let _ = std::fs::remove_dir_all(old.parent().unwrap());
        self.evs.push(json!({"ev": "Moved"}));
    }
    /// has anything appeared at the location that is no longer configured?
    fn stray(&mut self) {
        let old = self.dir.join("user");
        self.evs.push(json!({"ev": "Stray", "exists": old.exists()}));
    }
    fn add(&mut self, scope: &str, w: &str, doc: usize) {
        let uri = self.docs[doc - 1].0.clone();
        let cmd = if scope == "user" { "HarperAddToUserDict" } else { "HarperAddToFileDict" };
        let h = self.ls.exec(cmd, json!([w, uri]));
        let ok = self.ls.run_to_completion(h, Duration::from_secs(20));
        self.evs.push(json!({"ev": "Added", "scope": scope, "w": w, "doc": doc, "completed": ok}));
    }
    /// start an add-word command and kill the "process" after k polls of its handler
    fn crash_during_add(&mut self, scope: &str, w: &str, doc: usize, k: usize) -> bool {
        let uri = self.docs[doc - 1].0.clone();
        let cmd = if scope == "user" { "HarperAddToUserDict" } else { "HarperAddToFileDict" };
        let h = self.ls.exec(cmd, json!([w, uri]));
        let mut finished = false;
        for _ in 0..k {
            // one poll, then let the blocking pool finish the file-system operation it started
            let st = self.ls.run_until_blocked_polls(h, 1);
            std::thread::sleep(Duration::from_millis(3));
            if st == "done" { finished = true; break; }
            if st == "cfg" { self.ls.answer_config(h); }
        }
        // process death: the handler future and the whole server are dropped
        self.ls = Ls::new(&self.dir);
        self.evs.push(json!({"ev": "Crashed", "scope": scope, "w": w, "doc": doc, "at": k, "finished": finished}));
        self.boot();
        finished
    }
}

pub fn main(a: &Args) {
    let mut out = Out::create(a.req("out"));
    let mut rng = Rng::new(a.num("seed", 1));
    let base = std::env::temp_dir().join(format!("hv_c07_{}", std::process::id()));
    let _ = std::fs::remove_dir_all(&base);
    let nhist = a.num("histories", 60) as usize;
    let max_k = a.num("max-polls", 40) as usize;
    with_runtime(|| {
        let mut n = 0usize;
        // (1) every crash point of a save that follows one completed add
        for scope in ["user", "file"] {
            let mut k = 1;
            loop {
                let mut s = Sess::new(base.join(format!("s{n}"))); n += 1;
                s.add(scope, W[0], 1);
                s.observe();
                let finished = s.crash_during_add(scope, W[2], 1, k);
                s.observe();
                // life goes on after the crash: whatever the interrupted save left behind must not be in the way
                s.add(scope, W[3], 1);
                s.observe();
                s.restart();
                s.observe();
                for e in s.evs.drain(..) { out.emit(&e); }
                let _ = std::fs::remove_dir_all(&s.dir);
                if finished || k >= max_k { break; }
                k += 1;
            }
        }
        // (1b) the dictionary file exists before the server ever ran: terminated or not, LF or CRLF
        for scope in ["user", "file"] {
            for words in [vec![W[2]], vec![W[2], W[3]]] {
                for (sep, closed) in [("\n", true), ("\n", false), ("\r\n", true), ("\r\n", false)] {
                    let mut raw = words.join(sep);
                    if closed { raw.push_str(sep); }
                    let mut s = Sess::new_with(base.join(format!("s{n}")), Some((scope, raw, words.clone()))); n += 1;
                    s.observe();
                    s.add(scope, W[0], 1);
                    s.observe();
                    s.add(if scope == "user" { "file" } else { "user" }, W[4], 1);
                    s.restart();
                    s.observe();
                    for e in s.evs.drain(..) { out.emit(&e); }
                    let _ = std::fs::remove_dir_all(&s.dir);
                }
            }
        }
        // (1c) a hand-edited dictionary file: besides its words it holds lines that are not words at all (a phrase, a
        // remark, blanks, a tab-separated pair).  Whatever the loader makes of those lines, the words around them are
        // stored words: accepted, and still there after the next add and a restart.
        for scope in ["user", "file"] {
            for (ji, junk) in ["New York", "# my words", "very good indeed", "two  words\there", "ünï cödé", "et al. (1999)"].iter().enumerate() {
                let words = vec![W[2], W[3]];
                let raw = match ji % 3 { 0 => format!("{junk}\n{}\n{}\n", W[2], W[3]), 1 => format!("{}\n{junk}\n{}\n", W[2], W[3]), _ => format!("{}\n{}\n{junk}", W[2], W[3]) };
                let mut s = Sess::new_with(base.join(format!("s{n}")), Some((scope, raw, words.clone()))); n += 1;
                // (the odd line may stay in the file; nothing is claimed about what it matches)
                if let Some(e) = s.evs.iter_mut().find(|e| e["ev"] == "Preexisting") { e["lines"] = json!([junk]); }
                s.observe();
                s.add(scope, W[0], 1);
                s.observe();
                s.restart();
                s.observe();
                for e in s.evs.drain(..) { out.emit(&e); }
                let _ = std::fs::remove_dir_all(&s.dir);
            }
        }
        // (1d) words that are other capitalisations of curated entries
        for scope in ["user", "file"] {
            for w in CURATED_VARIANTS {
                let mut s = Sess::new(base.join(format!("s{n}"))); n += 1;
                s.observe();
                s.add(scope, w, 1);
                s.observe();
                s.add(if scope == "user" { "file" } else { "user" }, W[0], 2);
                s.restart();
                s.observe();
                for e in s.evs.drain(..) { out.emit(&e); }
                let _ = std::fs::remove_dir_all(&s.dir);
            }
        }
        // (1e) the user dictionary is moved in the client's settings without an announcement
        for first in [true, false] {
            let mut s = Sess::new(base.join(format!("s{n}"))); n += 1;
            if first { s.add("user", W[2], 1); s.observe(); }
            s.move_user_dict_silently();
            s.add("user", W[0], 1);
            s.observe();
            s.stray();
            s.restart();
            s.observe();
            for e in s.evs.drain(..) { out.emit(&e); }
            let _ = std::fs::remove_dir_all(&s.dir);
        }
        // (1c) documents with long paths (the file dictionary's name is the whole path flattened)
        for (seg, depth) in [(20usize, 4usize), (30, 9), (40, 12)] {
            for first in [1usize, 2] {
                let mut s = Sess::new_deep(base.join(format!("s{n}")), seg, depth); n += 1;
                s.observe();
                s.add("file", W[0], first);
                s.observe();
                s.add("file", W[2], 3 - first);
                s.observe();
                s.restart();
                s.observe();
                for e in s.evs.drain(..) { out.emit(&e); }
                let _ = std::fs::remove_dir_all(&s.dir);
            }
        }
        // (1c') two documents whose flattened paths coincide: `p/a%b.txt` and `p/a/b.txt`
        for first in [1usize, 2] {
            let mut s = Sess::new_deep(base.join(format!("s{n}")), 0, 0); n += 1;
            s.observe();
            s.add("file", W[0], first);
            s.observe();
            for e in s.evs.drain(..) { out.emit(&e); }
            let _ = std::fs::remove_dir_all(&s.dir);
        }
        // (2) histories: adds (user / file, case variants, non-ASCII), restarts, a crash
        for _ in 0..nhist {
            let mut s = Sess::new(base.join(format!("s{n}"))); n += 1;
            s.observe();
            for _ in 0..rng.range(1, 4) {
                match rng.below(8) {
                    0 => s.restart(),
                    1 => { let k = rng.range(1, max_k); let sc = if rng.chance(1, 2) { "user" } else { "file" }; s.crash_during_add(sc, W[rng.below(W.len())], rng.range(1, 2), k); }
                    2 | 3 | 4 => s.add("user", W[rng.below(W.len())], rng.range(1, 2)),
                    _ => s.add("file", W[rng.below(W.len())], rng.range(1, 2)),
                }
                s.observe();
            }
            s.restart();
            s.observe();
            for e in s.evs.drain(..) { out.emit(&e); }
            let _ = std::fs::remove_dir_all(&s.dir);
        }
    });
    let _ = std::fs::remove_dir_all(&base);
    println!("{}", json!({"events": out.finish()}));
    std::process::exit(0);
}
