//! C16: the JavaScript-facing linter API is self-consistent (harper_wasm::Linter, native build).
use harper_wasm::{Dialect, Language, Linter};
use serde_json::{Value, json};

use crate::util::{Args, Out, Rng, catch, cps_str, par_map, read_corpus, read_ndjson};

const FOO: &str = "zzyzxq";
const FOOCAP: &str = "Zzyzxq";
const BAR: &str = "qwertzuv";

fn word_of(v: &Value) -> &'static str {
    let s: String = v.as_array().unwrap().iter().map(|c| c.as_str().unwrap()).collect();
    match s.as_str() { "ab" => FOO, "Ab" => FOOCAP, _ => BAR }
}
fn text_of(v: &Value) -> String {
    let ws: Vec<&str> = v.as_array().unwrap().iter().map(word_of).collect();
    format!("{}.", ws.join(" "))
}

fn lang_name(l: Language) -> &'static str { match l { Language::Plain => "plain", Language::Markdown => "md" } }

/// identity of a lint for ignoring purposes (see C14): message, kind, suggestions, flagged text and the
/// tokens within two characters on either side
fn ident(doc: &harper_core::Document, s: usize, e: usize, msg: &str, kind: &str, sugg: &str) -> String {
    let src = doc.get_source();
    let (s, e) = (s.min(src.len()), e.min(src.len()));
    let tok_texts = |a: usize, b: usize| -> Vec<String> {
        if a >= b { return vec![]; }
        doc.get_tokens().iter().filter(|t| t.span.start < b && a < t.span.end && t.span.end > t.span.start)
            .map(|t| src[t.span.start..t.span.end.min(src.len())].iter().collect::<String>()).collect()
    };
    crate::util::digest(&format!("{msg}|{kind}|{sugg}|{}|{:?}|{:?}", src[s..e.max(s)].iter().collect::<String>(),
        tok_texts(s.saturating_sub(2), s), tok_texts(e, (e + 2).min(src.len()))))
}

fn lint_keys(l: &mut Linter, text: &str, lang: Language) -> Vec<Value> {
    let chars: Vec<char> = text.chars().collect();
    let dict = harper_core::FstDictionary::curated();
    let doc = match lang {
        Language::Plain => harper_core::Document::new(text, &harper_core::parsers::PlainEnglish, &dict),
        Language::Markdown => harper_core::Document::new(text, &harper_core::parsers::Markdown::default(), &dict),
    };
    l.lint(text.to_string(), lang).iter().map(|x| {
        let sp = x.span();
        let slice: String = if sp.start <= sp.end && sp.end <= chars.len() { chars[sp.start..sp.end].iter().collect() } else { "\u{0}OUT-OF-RANGE".into() };
        json!({"s": sp.start, "e": sp.end, "problem": x.get_problem_text(), "slice": slice, "msg": x.message(), "kind": x.lint_kind(), "nsugg": x.suggestion_count(),
            "ident": ident(&doc, sp.start, sp.end, &x.message(), &x.lint_kind(),
                &x.suggestions().iter().map(|g| format!("{}:{}", match g.kind() { harper_wasm::SuggestionKind::Replace => "R", harper_wasm::SuggestionKind::Remove => "D", harper_wasm::SuggestionKind::InsertAfter => "I" }, g.get_replacement_text())).collect::<Vec<_>>().join(","))})
    }).collect()
}

fn lint_event(l: &mut Linter, text: &str, lang: Language) -> Value {
    json!({"ev": "Lint", "text": text, "lang": lang_name(lang), "len": text.chars().count(), "lints": lint_keys(l, text, lang)})
}

/// export -> fresh linter -> import (words and ignore list): must behave the same on the probes
fn clone_event(l: &mut Linter, dialect: Dialect, probes: &[(String, Language)]) -> Value {
    let words = l.export_words();
    let ign = l.export_ignored_lints();
    let cfg = l.get_lint_config_as_json();
    let mut c = Linter::new(dialect);
    c.import_words(words.clone());
    let _ = c.import_ignored_lints(ign);
    let _ = c.set_lint_config_from_json(cfg);
    let pr: Vec<Value> = probes.iter().map(|(t, lang)| json!({"text": t, "lang": lang_name(*lang), "orig": lint_keys(l, t, *lang), "clone": lint_keys(&mut c, t, *lang)})).collect();
    json!({"ev": "Clone", "words": words, "probes": pr})
}

fn session(ops: &[Value], dialect: Dialect, extra_texts: &[String], rng: &mut Rng) -> Vec<Value> {
    let mut evs = vec![json!({"ev": "Reset"})];
    let r = catch(|| {
        let mut out = Vec::new();
        let mut l = Linter::new(dialect);
        let mut saved: Option<String> = None;
        let mut probes: Vec<(String, Language)> = vec![(format!("{FOO}."), Language::Plain), (format!("{FOOCAP} {FOO}."), Language::Plain),
            (format!("{BAR} {FOO}."), Language::Markdown), (format!("A {FOOCAP} and *{BAR}*."), Language::Markdown)];
        for t in extra_texts { probes.push((t.clone(), if rng.chance(1, 2) { Language::Plain } else { Language::Markdown })); }
        for op in ops {
            match op["op"].as_str().unwrap() {
                "import" => {
                    let ws: Vec<String> = op["words"].as_array().unwrap().iter().map(|w| match w { Value::String(s) => s.clone(), v => word_of(v).to_string() }).collect();
                    l.import_words(ws.clone());
                    // every imported word becomes a probe: the clone built from the exported list must treat it alike
                    for w in ws.iter().take(3) { if probes.len() < 14 { probes.push((format!("We use {w} here and {w} there."), Language::Plain)); } }
                    out.push(json!({"ev": "Import", "words": ws, "exported": l.export_words()}));
                }
                "ignore" => {
                    let text = match &op["text"] { Value::String(s) => s.clone(), v => text_of(v) };
                    let lang = if op["lang"] == "md" { Language::Markdown } else { Language::Plain };
                    out.push(lint_event(&mut l, &text, lang));
                    let lints = l.lint(text.clone(), lang);
                    let at = op["at"].as_u64().unwrap_or(1) as usize;
                    // the model's position is a word index; pick the spelling lint on that word, else any
                    let pick = lints.iter().position(|x| x.lint_kind() == "Spelling" && text.chars().take(x.span().start).filter(|c| *c == ' ').count() + 1 == at).or(if lints.is_empty() { None } else { Some(at % lints.len()) });
                    if let Some(k) = pick {
                        let x = lints.into_iter().nth(k).unwrap();
                        let sp = x.span();
                        let key = json!({"s": sp.start, "e": sp.end, "msg": x.message()});
                        let ident_v = lint_keys(&mut l, &text, lang).into_iter().find(|k| k["s"] == sp.start && k["e"] == sp.end && k["msg"] == x.message()).map(|k| k["ident"].clone()).unwrap_or(json!(""));
                        // the same text may be looked at in the other language between getting the lint and ignoring it
                        // (this must be the last call before ignore_lint)
                        if op["mix"] == true { let _ = l.lint(text.clone(), if matches!(lang, Language::Plain) { Language::Markdown } else { Language::Plain }); }
                        l.ignore_lint(text.clone(), x);
                        out.push(json!({"ev": "Ignore", "text": text, "lang": lang_name(lang), "key": key, "ident": ident_v}));
                        out.push(lint_event(&mut l, &text, lang));
                    }
                }
                "export_ignored" => {
                    saved = Some(l.export_ignored_lints());
                    out.push(json!({"ev": "ExportIgnored"}));
                }
                "clear_ignored" => {
                    l.clear_ignored_lints();
                    out.push(json!({"ev": "ClearIgnored"}));
                }
                "import_ignored" => {
                    // import appends to what is there; nothing exported yet: an empty list
                    let j = saved.clone().unwrap_or_else(|| Linter::new(dialect).export_ignored_lints());
                    let ok = l.import_ignored_lints(j).is_ok();
                    out.push(json!({"ev": "ImportIgnored", "ok": ok}));
                }
                "ignored_roundtrip" => {
                    let j = l.export_ignored_lints();
                    l.clear_ignored_lints();
                    let ok = l.import_ignored_lints(j).is_ok();
                    out.push(json!({"ev": "IgnoredRoundTrip", "ok": ok}));
                }
                "lint" | "lint_md" => {
                    let text = match &op["text"] { Value::String(s) => s.clone(), v => text_of(v) };
                    let lang = if op["lang"] == "md" || op["op"] == "lint_md" { Language::Markdown } else { Language::Plain };
                    out.push(lint_event(&mut l, &text, lang));
                    // apply every suggestion of the first few lints through the API; JSON round trips
                    let lints = l.lint(text.clone(), lang);
                    for x in lints.iter().take(3) {
                        let back = harper_wasm::Lint::from_json(x.to_json());
                        let same = back.as_ref().map(|b| b.span().start == x.span().start && b.span().end == x.span().end && b.message() == x.message()
                            && b.get_problem_text() == x.get_problem_text() && b.suggestion_count() == x.suggestion_count() && b.lint_kind() == x.lint_kind()
                            && b.suggestions().iter().zip(x.suggestions().iter()).all(|(p, q)| p.get_replacement_text() == q.get_replacement_text())).unwrap_or(false);
                        let sp_back = harper_wasm::Span::from_json(x.span().to_json()).map(|s| s.start == x.span().start && s.end == x.span().end).unwrap_or(false);
                        out.push(json!({"ev": "Json", "ok": same && sp_back}));
                        for s in x.suggestions() {
                            let after = l.apply_suggestion(text.clone(), x, &s);
                            let kind = match s.kind() { harper_wasm::SuggestionKind::Replace => "ReplaceWith", harper_wasm::SuggestionKind::Remove => "Remove", harper_wasm::SuggestionKind::InsertAfter => "InsertAfter" };
                            match after {
                                Ok(a2) => out.push(json!({"ev": "Applied", "kind": kind, "repl": cps_str(&s.get_replacement_text()), "s": x.span().start, "e": x.span().end,
                                    "before": cps_str(&text), "after": cps_str(&a2)})),
                                Err(e) => out.push(json!({"ev": "ApplyError", "msg": e})),
                            }
                        }
                    }
                }
                "config" => {
                    let j = op["json"].as_str().unwrap().to_string();
                    let ok = l.set_lint_config_from_json(j).is_ok();
                    out.push(json!({"ev": "Config", "ok": ok}));
                }
                _ => {}
            }
        }
        out.push(clone_event(&mut l, dialect, &probes));
        out
    });
    match r {
        Ok(v) => evs.extend(v),
        Err(p) => evs.push(json!({"ev": "Panic", "loc": p})),
    }
    evs
}

pub fn main(a: &Args) {
    let mut out = Out::create(a.req("out"));
    let mut rng = Rng::new(a.num("seed", 1));
    let corpus = read_corpus(a.req("corpus"));
    let dialects = [Dialect::American, Dialect::British, Dialect::Australian, Dialect::Canadian];
    let mut sessions: Vec<(Vec<Value>, usize, Vec<String>, u64)> = Vec::new();
    if let Some(cases) = a.get("cases") {
        for (i, c) in read_ndjson(cases).into_iter().enumerate() {
            sessions.push((c.as_array().unwrap().clone(), i % 4, vec![], i as u64));
        }
    }
    // random sessions over real texts in both languages
    for i in 0..a.num("sessions", 100) as usize {
        let mut ops: Vec<Value> = Vec::new();
        let mut texts: Vec<String> = (0..3).map(|k| if k == 0 { crate::inputs::compose(&corpus, &mut rng) } else { rng.pick(&corpus[..]).clone() }).collect();
        // markup right next to flagged words: the two languages tokenise the neighbourhood differently
        if i % 2 == 0 { texts.push(format!("A *teh* and _errorz_ here with `wich` and **an apple**. {}", rng.pick(&corpus[..]))); }
        for _ in 0..rng.range(3, 8) {
            let t = rng.pick(&texts[..]).clone();
            let lang = if rng.chance(1, 2) { "md" } else { "plain" };
            match rng.below(9) {
                8 => { let o = ["export_ignored", "clear_ignored", "import_ignored"][rng.below(3)]; ops.push(json!({"op": o})) }
                0 | 1 | 2 => ops.push(json!({"op": "lint", "text": t, "lang": lang})),
                3 | 4 => ops.push(json!({"op": "ignore", "text": t, "lang": lang, "at": rng.below(5), "mix": rng.chance(1, 2)})),
                5 => {
                    // import a word taken from the text (possibly a flagged one) and a re-cased variant
                    let ws: Vec<&str> = t.split(|c: char| !c.is_alphanumeric()).filter(|w| w.len() > 3).collect();
                    if !ws.is_empty() {
                        let w = ws[rng.below(ws.len())].to_string();
                        let mut v = if rng.chance(1, 3) { vec![w.clone(), w.to_uppercase()] } else { vec![w] };
                        // other capitalisations of curated entries (GitHub, Markdown, Linux, February): they change what is reported
                        if rng.chance(1, 3) { v.push(["github", "markdown", "linux", "february", "JAVASCRIPT"][rng.below(5)].to_string()); }
                        ops.push(json!({"op": "import", "words": v}));
                    }
                }
                6 => { let o = ["ignored_roundtrip", "export_ignored", "clear_ignored", "import_ignored"][rng.below(4)]; ops.push(json!({"op": o})) }
                _ => ops.push(json!({"op": "config", "json": format!("{{\"SpellCheck\": {}, \"SentenceCapitalization\": {}}}", rng.chance(3, 4), rng.chance(1, 2))})),
            }
        }
        sessions.push((ops, i % 4, texts.clone(), rng.next()));
        // the ignore list taken apart: ignore, export, clear, look, import, look again (and variations)
        if i % 5 == 0 {
            let t = texts[0].clone();
            let lang = if i % 2 == 0 { "md" } else { "plain" };
            let look = json!({"op": "lint", "text": t, "lang": lang});
            let ign = |k: usize| json!({"op": "ignore", "text": t, "lang": lang, "at": k});
            let o = |s: &str| json!({"op": s});
            let seqs = [
                vec![ign(1), o("export_ignored"), o("clear_ignored"), look.clone(), o("import_ignored"), look.clone()],
                vec![ign(1), ign(2), o("export_ignored"), look.clone(), o("clear_ignored"), look.clone(), o("import_ignored"), look.clone(), o("import_ignored"), look.clone()],
                vec![ign(2), o("export_ignored"), o("clear_ignored"), ign(1), look.clone(), o("import_ignored"), look.clone()],
            ];
            sessions.push((seqs[(i / 5) % 3].clone(), i % 4, texts.clone(), rng.next()));
        }
    }
    let evs = par_map(sessions.len(), a.num("threads", 8) as usize, |_| (), |_, i| {
        let (ops, d, extra, s) = &sessions[i];
        let mut r = Rng::new(*s);
        session(ops, dialects[*d], extra, &mut r)
    });
    for v in evs { for e in v { out.emit(&e); } }
    println!("{}", json!({"events": out.finish()}));
}
