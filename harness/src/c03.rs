//! C03: every lint points into the text; every suggestion is an exact local edit.
//! Replays TLC-generated (text, span, suggestion) triples into `Suggestion::apply`
//! and records `Doc` / `Applied` events for lints produced by the real rules.
use harper_core::linting::{Lint, Linter, Suggestion};
use harper_core::{Dialect, Span};
use serde_json::{Value, json};

use crate::front;
use crate::inputs;
use crate::util::{Args, Out, Rng, catch, cps, panic_loc, par_map, read_corpus, read_ndjson};

fn sugg_parts(s: &Suggestion) -> (&'static str, Vec<char>) {
    match s {
        Suggestion::ReplaceWith(c) => ("ReplaceWith", c.clone()),
        Suggestion::InsertAfter(c) => ("InsertAfter", c.clone()),
        Suggestion::Remove => ("Remove", vec![]),
    }
}

pub fn applied_event(sugg: &Suggestion, span: Span, before: &[char], tag: &str) -> Value {
    let (kind, repl) = sugg_parts(sugg);
    let mut after = before.to_vec();
    let sg = sugg.clone();
    match catch(move || {
        sg.apply(span, &mut after);
        after
    }) {
        Ok(after) => json!({"ev": "Applied", "src": tag, "kind": kind, "repl": cps(&repl),
            "s": span.start, "e": span.end, "before": cps(before), "after": cps(&after)}),
        Err(p) => json!({"ev": "ApplyPanic", "src": tag, "kind": kind, "repl": cps(&repl),
            "s": span.start, "e": span.end, "before": cps(before), "loc": panic_loc(&p)}),
    }
}

fn lint_id(l: &Lint) -> String {
    let m: String = l.message.chars().take(40).collect();
    format!("{:?}:{}", l.lint_kind, m)
}

pub fn main(a: &Args) {
    let mut out = Out::create(a.req("out"));
    let seed = a.num("seed", 1);
    let mut rng = Rng::new(seed);
    // (R) TLC cases: text = n distinct letters, replacement = r distinct digits
    if let Some(cases) = a.get("cases") {
        for c in read_ndjson(cases) {
            let n = c["n"].as_u64().unwrap() as usize;
            let r = c["r"].as_u64().unwrap() as usize;
            let before: Vec<char> = (0..n).map(|i| (b'a' + i as u8) as char).collect();
            let repl: Vec<char> = (0..r).map(|i| (b'0' + i as u8) as char).collect();
            let sugg = match c["kind"].as_str().unwrap() {
                "ReplaceWith" => Suggestion::ReplaceWith(repl),
                "InsertAfter" => Suggestion::InsertAfter(repl),
                _ => Suggestion::Remove,
            };
            let span = Span { start: c["s"].as_u64().unwrap() as usize, end: c["e"].as_u64().unwrap() as usize };
            out.emit(&applied_event(&sugg, span, &before, "tlc"));
        }
    }
    // random triples on longer texts with multi-byte characters
    for _ in 0..a.num("random", 0) {
        let n = rng.range(0, 40);
        let pool: Vec<char> = "abc é世😀’\n\t.".chars().collect();
        let before: Vec<char> = (0..n).map(|_| *rng.pick(&pool)).collect();
        let s = rng.below(n + 1);
        let e = s + rng.below(n - s + 1);
        let r = rng.below(6);
        let repl: Vec<char> = (0..r).map(|_| *rng.pick(&pool)).collect();
        let sugg = match rng.below(3) {
            0 => Suggestion::ReplaceWith(repl),
            1 => Suggestion::InsertAfter(repl),
            _ => Suggestion::Remove,
        };
        out.emit(&applied_event(&sugg, Span { start: s, end: e }, &before, "random"));
    }
    // lints produced by the real rules over composed documents in every front-end
    if let Some(corpus) = a.get("corpus") {
        let corpus = read_corpus(corpus);
        let ndocs = a.num("docs", 500) as usize;
        let fronts = front::all_front_names();
        let mut inputs: Vec<(String, String)> = Vec::new();
        for i in 0..ndocs {
            let prose = if i % 3 == 0 {
                // a prefix of a corpus sentence: lints at the very end of the text
                let t = rng.pick(&corpus[..]).clone();
                let cs: Vec<char> = t.chars().collect();
                let n = rng.range(0, cs.len());
                let mut p: String = cs[..n].iter().collect();
                if rng.chance(1, 3) { p.push(' '); }
                p
            } else {
                inputs::compose(&corpus, &mut rng)
            };
            let fr = if i % 2 == 0 { ["plain", "markdown"][i / 2 % 2].to_string() } else { rng.pick(&fronts[..]).clone() };
            let text = if rng.chance(1, 4) { crate::c04::render(&fr, rng.next()) } else { inputs::wrap_front(&fr, &prose, &mut rng) };
            inputs.push((text, fr));
        }
        for i in 0..a.num("long-tails", 300) {
            let t = inputs::long_tail_markdown(&corpus, &mut rng);
            inputs.push((t, if i % 6 == 5 { "plain".to_string() } else { "markdown".to_string() }));
        }
        for (i, t) in inputs::currency_texts().into_iter().enumerate() {
            inputs.push((t, if i % 5 == 0 { "markdown".to_string() } else { "plain".to_string() }));
        }
        for i in 0..a.num("soups", 1500) {
            let t = inputs::token_soup(&mut rng);
            inputs.push((t, ["plain", "markdown", "plain"][i as usize % 3].to_string()));
        }
        for adv in inputs::adversarial() {
            for fr in ["plain", "markdown", "typst", "html"] {
                inputs.push((adv.clone(), fr.to_string()));
            }
        }
        // editing families: the members of one family are linted one after the other by the
        // same long-lived linters, so clauses recur at different offsets and indentation
        let nf = a.num("family-sentences", 150) as usize;
        let fstart = rng.below(corpus.len());
        let mut jobs: Vec<Vec<(String, String)>> = inputs.into_iter().map(|x| vec![x]).collect();
        for i in 0..nf.min(corpus.len()) {
            let t = &corpus[(fstart + i) % corpus.len()];
            let fr = if i % 3 == 0 { "markdown" } else { "plain" };
            jobs.push(inputs::family(t).into_iter().map(|p| (p, fr.to_string())).collect());
        }
        let inputs = jobs;
        let max_apply = a.num("max-apply-len", 300) as usize;
        let results = par_map(inputs.len(), a.num("threads", 12) as usize,
            |_| (front::all_rules_group(Dialect::American), front::curated_group(Dialect::British)),
            |st, i| {
                let mut evs: Vec<Value> = Vec::new();
                for (text, fr) in &inputs[i] {
                    let Some(parser) = front::base_parser(fr) else { continue };
                    let chars: Vec<char> = text.chars().collect();
                    for (cfg, lg) in [("all", &mut st.0), ("curated", &mut st.1)] {
                        let r = catch(|| {
                            let doc = front::doc_with(text, &parser);
                            lg.lint(&doc)
                        });
                        let Ok(lints) = r else { continue }; // panics are C01's business
                        let lj: Vec<Value> = lints.iter().map(|l| json!({"s": l.span.start, "e": l.span.end})).collect();
                        evs.push(json!({"ev": "Doc", "front": fr, "cfg": cfg, "len": chars.len(),
                            "lints": lj, "text": if chars.len() <= 120 { json!(text) } else { json!("") },
                            "ids": lints.iter().map(lint_id).collect::<Vec<_>>()}));
                        if chars.len() <= max_apply && cfg == "all" {
                            for l in &lints {
                                if l.span.start <= l.span.end && l.span.end <= chars.len() {
                                    for s in &l.suggestions {
                                        let mut e = applied_event(s, l.span, &chars, "rule");
                                        e["id"] = json!(lint_id(l));
                                        evs.push(e);
                                    }
                                }
                            }
                        }
                    }
                }
                evs
            });
        for evs in results {
            for e in evs {
                out.emit(&e);
            }
        }
    }
    println!("{}", json!({"events": out.finish()}));
}
