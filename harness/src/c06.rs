//! C06: a word is reported misspelt exactly when the dictionary does not contain it.
use std::collections::HashSet;

use harper_core::linting::{Linter, SpellCheck, Suggestion};
use harper_core::parsers::PlainEnglish;
use harper_core::{Dialect, Dictionary, Document, FstDictionary};
use serde_json::{Value, json};

use crate::util::{Args, Out, Rng, catch, par_map};

// the last six put the word into a run of hyphenated words, next to compounds the dictionary lists with their hyphens
// ... and the last two put it right before a full stop
const TEMPLATES: [&str; 14] = ["{}", "We saw {} today.", "{} is here.", "It was, {} !", "Ünïcödé 😀 then {} again.", "One line.\n\nThen {} there.",
    "a built-in-{} call", "It ran back-to-back-{} twice.", "{}-built-in code", "The add-on-{} part.", "well-{}-known", "A blue-collar-{}.",
    "So am {}.", "We will go with {}. Then we rest."];

fn dname(d: Option<Dialect>) -> &'static str {
    match d { None => "none", Some(Dialect::American) => "American", Some(Dialect::British) => "British",
        Some(Dialect::Australian) => "Australian", Some(Dialect::Canadian) => "Canadian" }
}

fn job(word: &[char], form: &str, dialect: Dialect, tpl: usize, set: &HashSet<Vec<char>>, dict: &FstDictionary, sc: &mut SpellCheck<std::sync::Arc<FstDictionary>>) -> Value {
    let shown: Vec<char> = match form {
        "cap" => { let mut v = word.to_vec(); if let Some(c) = v.first_mut() { *c = c.to_uppercase().next().unwrap(); } v }
        "upper" => word.iter().flat_map(|c| c.to_uppercase()).collect(),
        _ => word.to_vec(),
    };
    let ws: String = shown.iter().collect();
    let t: Vec<char> = TEMPLATES[tpl].chars().collect();
    let start = t.iter().position(|c| *c == '{').unwrap();
    let text = TEMPLATES[tpl].replace("{}", &ws);
    let end = start + shown.len();
    let r = catch(|| {
        let doc = Document::new(&text, &PlainEnglish, dict);
        let ntok = doc.get_tokens().iter().filter(|t| t.span.start < end && start < t.span.end).count();
        (sc.lint(&doc), ntok)
    });
    let meta = dict.get_word_metadata(word);
    let lower: Vec<char> = shown.iter().flat_map(|c| c.to_lowercase()).collect();
    let mut e = json!({"ev": "Spell", "word": ws, "form": form, "tpl": tpl, "active": dname(Some(dialect)),
        "before_full_stop": text.chars().nth(end) == Some('.'),
        "entry_dialect": dname(meta.and_then(|m| m.dialect)), "listed_exact": set.contains(&shown),
        "lower_listed_exact": set.contains(&lower), "entry_is_lower": word.iter().all(|c| !c.is_uppercase()),
        "known_any_case": dict.contains_word(&shown)});
    match r {
        Err(p) => { e["ev"] = json!("SpellPanic"); e["loc"] = json!(p); }
        Ok((lints, ntok)) => {
            let mine: Vec<_> = lints.iter().filter(|l| l.span.start < end && start < l.span.end).collect();
            e["ntok"] = json!(ntok);
            e["flagged"] = json!(!mine.is_empty());
            e["span_exact"] = json!(mine.len() == 1 && mine[0].span.start == start && mine[0].span.end == end);
            e["others"] = json!(lints.len() - mine.len());
            // every suggestion must be a dictionary word of the active dialect (up to its first letter's case)
            let mut bad: Vec<String> = Vec::new();
            for l in &mine {
                for s in &l.suggestions {
                    if let Suggestion::ReplaceWith(w) = s {
                        let mut lw = w.clone();
                        if let Some(c) = lw.first_mut() { *c = c.to_lowercase().next().unwrap(); }
                        let hit = if set.contains(w) { Some(w.clone()) } else if set.contains(&lw) { Some(lw) } else { None };
                        match hit {
                            None => bad.push(w.iter().collect()),
                            Some(h) => {
                                let d = dict.get_word_metadata(&h).and_then(|m| m.dialect);
                                if !(d.is_none() || d == Some(dialect)) { bad.push(format!("{}(dialect)", w.iter().collect::<String>())); }
                            }
                        }
                    }
                }
            }
            e["bad_suggestions"] = json!(bad);
        }
    }
    e
}

pub fn main(a: &Args) {
    let mut out = Out::create(a.req("out"));
    let mut rng = Rng::new(a.num("seed", 1));
    let dict = FstDictionary::curated();
    let mut words: Vec<Vec<char>> = dict.words_iter().map(|w| w.to_vec()).collect();
    words.sort();
    let set: HashSet<Vec<char>> = words.iter().cloned().collect();
    let dialects = crate::front::dialects();
    let sample = a.num("sample", 0) as usize;
    let chosen: Vec<usize> = if sample == 0 || sample >= words.len() { (0..words.len()).collect() } else {
        // stratified: evenly spaced through the sorted list plus a random offset
        let step = words.len() / sample;
        let off = rng.below(step.max(1));
        (0..sample).map(|i| (i * step + off).min(words.len() - 1)).collect()
    };
    let mut jobs: Vec<(Vec<char>, &'static str, usize, usize)> = Vec::new();
    // every one-letter entry right before a full stop (where a letter and a period look like an initialism)
    for w in words.iter().filter(|w| w.len() == 1) {
        jobs.push((w.clone(), "listed", 0, 12));
        jobs.push((w.clone(), "listed", 1, 13));
        if w[0].is_lowercase() { jobs.push((w.clone(), "upper", 0, 12)); }
    }
    for (k, &wi) in chosen.iter().enumerate() {
        let w = &words[wi];
        for d in 0..4 {
            jobs.push((w.clone(), "listed", d, if (k + d) % 3 == 0 { 0 } else { 1 + (k + d) % 5 }));
        }
        let lower = w.iter().all(|c| !c.is_uppercase());
        if lower {
            jobs.push((w.clone(), "cap", k % 4, (k % 5) + 1));
            jobs.push((w.clone(), "upper", (k + 1) % 4, k % TEMPLATES.len()));
        }
    }
    // non-words: edits of real words and random letter strings that the dictionary lacks under any capitalisation
    let letters: Vec<char> = "abcdefghijklmnopqrstuvwxyz".chars().collect();
    let mut nonwords = 0;
    let want_non = a.num("nonwords", 1000) as usize;
    let mut guard = 0;
    while nonwords < want_non && guard < want_non * 20 {
        guard += 1;
        let mut w: Vec<char> = if rng.chance(1, 3) { (0..rng.range(3, 10)).map(|_| *rng.pick(&letters[..])).collect() } else {
            let mut b = words[rng.below(words.len())].clone();
            if b.len() < 3 || !b.iter().all(|c| c.is_ascii_lowercase()) { continue; }
            let p = rng.below(b.len());
            match rng.below(3) { 0 => b.insert(p, *rng.pick(&letters[..])), 1 => { b.remove(p); } _ => b[p] = *rng.pick(&letters[..]) }
            b
        };
        if rng.chance(1, 4) { if let Some(c) = w.first_mut() { *c = c.to_ascii_uppercase(); } }
        if w.len() < 2 || dict.contains_word(&w) { continue; }
        // single-letter / plural-digit lexing quirks aside, it must be one word token: letters only
        jobs.push((w, "nonword", nonwords % 4, nonwords % TEMPLATES.len()));
        nonwords += 1;
    }
    // misspellings of dialect-tagged entries, each under all four dialects one after the other on one thread
    // (in a random order): whatever one dialect's checker learnt about the token must not reach the next
    let tagged: Vec<&Vec<char>> = words.iter().filter(|w| w.len() >= 5 && w.iter().all(|c| c.is_ascii_lowercase())
        && dict.get_word_metadata(w).and_then(|m| m.dialect).is_some()).collect();
    let mut all4 = 0;
    let want4 = a.num("dialect-words", 150) as usize;
    guard = 0;
    while all4 < want4 && guard < want4 * 20 && !tagged.is_empty() {
        guard += 1;
        let mut b = (*rng.pick(&tagged[..])).clone();
        let p = rng.range(1, b.len() - 1);
        match rng.below(3) { 0 => b.insert(p, *rng.pick(&letters[..])), 1 => { b.remove(p); } _ => b[p] = *rng.pick(&letters[..]) }
        if dict.contains_word(&b) { continue; }
        jobs.push((b, "nonword-all", rng.below(24), all4 % TEMPLATES.len()));
        all4 += 1;
    }
    // dialect-tagged entries themselves (flagged under the other dialects, with suggestions)
    for k in 0..(want4 / 2).min(tagged.len()) {
        let w = tagged[rng.below(tagged.len())].clone();
        jobs.push((w, "listed-all", rng.below(24), k % TEMPLATES.len()));
    }
    // the dictionary the applications really use: curated first, the user's words second. A user word that is
    // another capitalisation of a curated entry, or new, is listed as the user wrote it
    {
        use harper_core::{MergedDictionary, MutableDictionary, WordMetadata};
        let caps: Vec<&Vec<char>> = words.iter().filter(|w| w.len() >= 4 && w[0].is_ascii_uppercase() && w[1..].iter().all(|c| c.is_ascii_lowercase())).collect();
        let lows: Vec<&Vec<char>> = words.iter().filter(|w| w.len() >= 4 && w.iter().all(|c| c.is_ascii_lowercase())).collect();
        let mut user_words: Vec<Vec<char>> = Vec::new();
        for _ in 0..a.num("user-words", 40) {
            let c = rng.pick(&caps[..]);
            let lower: Vec<char> = c.iter().map(|x| x.to_ascii_lowercase()).collect();
            if !set.contains(&lower) { user_words.push(lower); }
            let l = rng.pick(&lows[..]);
            let mut cap = (*l).clone(); cap[0] = cap[0].to_ascii_uppercase();
            let upper: Vec<char> = l.iter().map(|x| x.to_ascii_uppercase()).collect();
            if !set.contains(&upper) && rng.chance(1, 3) { user_words.push(upper); }
            if !set.contains(&cap) && rng.chance(1, 3) { user_words.push(cap); }
        }
        for w in ["zzyzxq", "Qwertzuv", "naïvetéx", "harperish", "O'Zzyzx", "colour", "fibreglass"] { user_words.push(w.chars().collect()); }
        user_words.sort(); user_words.dedup();
        let mut user = MutableDictionary::new();
        user.extend_words(user_words.iter().map(|w| (w.clone(), WordMetadata::default())));
        for order in [0usize, 1] {
            let mut merged = MergedDictionary::new();
            if order == 0 { merged.add_dictionary(FstDictionary::curated()); merged.add_dictionary(std::sync::Arc::new(user.clone())); }
            else { merged.add_dictionary(std::sync::Arc::new(user.clone())); merged.add_dictionary(FstDictionary::curated()); }
            let merged = std::sync::Arc::new(merged);
            let mut sc = SpellCheck::new(merged.clone(), Dialect::American);
            for (k, w) in user_words.iter().enumerate() {
                let ws: String = w.iter().collect();
                let tpl = k % TEMPLATES.len();
                let text = TEMPLATES[tpl].replace("{}", &ws);
                let start = TEMPLATES[tpl].chars().position(|c| c == '{').unwrap();
                let end = start + w.len();
                let r = catch(|| { let doc = Document::new(&text, &PlainEnglish, &merged); sc.lint(&doc) });
                let mut e = json!({"ev": "Spell", "word": ws, "form": "listed", "tpl": tpl, "active": "American", "entry_dialect": "none",
                    "listed_exact": true, "lower_listed_exact": false, "entry_is_lower": w.iter().all(|c| !c.is_uppercase()), "known_any_case": true,
                    "dictionary": if order == 0 { "curated+user" } else { "user+curated" },
                    // what the curated part (case-insensitively) says about the word's dialect
                    "curated_other_dialect": dict.get_word_metadata(w).and_then(|m| m.dialect).map(|d| d != Dialect::American).unwrap_or(false)});
                match r {
                    Err(p) => { e["ev"] = json!("SpellPanic"); e["loc"] = json!(p); }
                    Ok(lints) => {
                        let mine: Vec<_> = lints.iter().filter(|l| l.span.start < end && start < l.span.end).collect();
                        e["ntok"] = json!(1); e["flagged"] = json!(!mine.is_empty()); e["span_exact"] = json!(true); e["others"] = json!(lints.len() - mine.len());
                        e["bad_suggestions"] = json!([]);
                    }
                }
                out.emit(&e);
            }
        }
    }
    let set2 = set.clone();
    let dict2 = dict.clone();
    let evs = par_map(jobs.len(), a.num("threads", 12) as usize,
        |_| dialects.map(|d| SpellCheck::new(FstDictionary::curated(), d)),
        |scs, i| {
            let (w, form, d, tpl) = &jobs[i];
            if let Some(f) = form.strip_suffix("-all") {
                // d encodes one of the 24 orders of the four dialects
                let mut order = vec![0usize, 1, 2, 3];
                let mut k = *d;
                let mut perm = Vec::new();
                for n in (1..=4).rev() { perm.push(order.remove(k % n)); k /= n; }
                return perm.into_iter().map(|di| job(w, if f == "nonword" { "nonword" } else { "listed" }, dialects[di], *tpl, &set2, &dict2, &mut scs[di])).collect::<Vec<_>>();
            }
            vec![job(w, form, dialects[*d], *tpl, &set2, &dict2, &mut scs[*d])]
        });
    for v in evs { for e in v { out.emit(&e); } }
    println!("{}", json!({"events": out.finish(), "words": words.len()}));
}
