//! C17: ordinal suffixes judged correctly for every number.
use harper_core::linting::{CorrectNumberSuffix, Linter, Suggestion};
use harper_core::{Document, FstDictionary};
use harper_core::parsers::{Markdown, PlainEnglish};
use serde_json::{Value, json};

use crate::util::{Args, Out, Rng, catch, par_map};

const SUFFIXES: [&str; 4] = ["st", "nd", "rd", "th"];

fn case_variant(sfx: &str, v: usize) -> String {
    let c: Vec<char> = sfx.chars().collect();
    let a = if v & 1 != 0 { c[0].to_ascii_uppercase() } else { c[0] };
    let b = if v & 2 != 0 { c[1].to_ascii_uppercase() } else { c[1] };
    format!("{a}{b}")
}

/// Sentence templates; `{}` is where "<n><sfx>" goes.
// the last eight put other number-like things before the ordinal (what one condensing pass does to them must not
// disturb the next one): a spaced ordinal, a correct ordinal, a decimal, a number ending a sentence, a decade ...
// ... and the last eight put things BEHIND it: a bare number, a unit, another ordinal, a number after a line break
// ... and the last two make it a possessive
const TEMPLATES: [&str; 26] = [
    "The {} item.", "{}", "{} place went to her.", "She came in {}.", "On the {}, we left.",
    "Is it the {}?", "(the {} time)", "Ünïcödé 😀 prefix, then the {} one.",
    "The 2 nd entry and then the {} item.", "Pick the 4 th column, the 1st row and the {}", "First the 3rd, then the {} one.",
    "It costs 3.50 on the {} day.", "I have 4. The {} is mine.", "In the 1980s the {} one won.", "No. 5 and 1,000 more: the {}!",
    "The 1 st, 2 nd and 3 rd came before the {} did.",
    "The {} 5 items.", "She came {} 2 times.", "Row {} 13", "He weighed {} 7lb then.", "The {} 1st attempt.", "On the {}\n12 came.", "From the {} 100 were left.",
    "The {} 3.5 per cent.",
    "On the {}'s agenda we find it.", "It was the {}’s turn.",
];

fn one(digits: &str, sfx: &str, variant: usize, tpl: usize, markdown: bool) -> Value {
    let word = format!("{digits}{}", case_variant(sfx, variant));
    let text = TEMPLATES[tpl].replace("{}", &word);
    let chars: Vec<char> = text.chars().collect();
    let tchars: Vec<char> = TEMPLATES[tpl].chars().collect();
    let num_start = tchars.iter().position(|c| *c == '{').unwrap();
    let dict = FstDictionary::curated();
    let r = catch(|| {
        let doc = if markdown {
            Document::new(&text, &Markdown::default(), &dict)
        } else {
            Document::new(&text, &PlainEnglish, &dict)
        };
        CorrectNumberSuffix.lint(&doc)
    });
    let dvec: Vec<u64> = digits.bytes().map(|b| (b - b'0') as u64).collect();
    let lower = variant & 1 == 0;
    let base = json!({"ev": "Ord", "digits": dvec, "sfx": sfx, "lower": lower, "variant": variant,
        "tpl": tpl, "md": markdown, "text": text});
    let mut e = base;
    match r {
        Err(p) => {
            e["flagged"] = json!(false);
            e["panic"] = json!(p);
            e["rs"] = json!(0); e["re"] = json!(0); e["sugg"] = json!(""); e["after"] = json!(0);
        }
        Ok(lints) => {
            // only lints that touch the number word count
            let mine: Vec<_> = lints.iter().filter(|l| l.span.end > num_start && l.span.start < num_start + word.chars().count()).collect();
            if mine.is_empty() {
                e["flagged"] = json!(false);
                e["rs"] = json!(0); e["re"] = json!(0); e["sugg"] = json!(""); e["after"] = json!(0);
            } else {
                let l = mine[0];
                e["flagged"] = json!(true);
                e["rs"] = json!(l.span.start as i64 - num_start as i64);
                e["re"] = json!(l.span.end as i64 - num_start as i64);
                let sugg = match l.suggestions.first() {
                    Some(Suggestion::ReplaceWith(c)) => c.iter().collect::<String>(),
                    _ => "?".into(),
                };
                e["sugg"] = json!(sugg);
                let mut fixed = chars.clone();
                if let Some(s) = l.suggestions.first() {
                    s.apply(l.span, &mut fixed);
                }
                let ftext: String = fixed.iter().collect();
                let after = catch(|| {
                    let doc = Document::new(&ftext, &PlainEnglish, &dict);
                    CorrectNumberSuffix.lint(&doc).len()
                }).unwrap_or(99);
                e["after"] = json!(after + mine.len() - 1);
            }
        }
    }
    e
}

pub fn main(a: &Args) {
    let mut out = Out::create(a.req("out"));
    let mut rng = Rng::new(a.num("seed", 1));
    let upto = a.num("upto", 2000);
    let mut jobs: Vec<(String, usize, usize, usize, bool)> = Vec::new();
    for n in 0..upto {
        for (si, _) in SUFFIXES.iter().enumerate() {
            // lower-case always; one more case variant in rotation
            jobs.push((n.to_string(), si, 0, (n as usize + si) % TEMPLATES.len(), false));
            let v = 1 + ((n as usize + si) % 3);
            jobs.push((n.to_string(), si, v, rng.below(TEMPLATES.len()), rng.chance(1, 4)));
        }
    }
    // leading zeros, and random integers below 2^53
    for _ in 0..a.num("random", 2000) {
        let n = match rng.below(4) {
            0 => rng.next() % (1u64 << 53),
            1 => rng.next() % 1_000_000_000,
            2 => rng.next() % 100_000,
            _ => (rng.next() % 1000) * 100 + [11u64, 12, 13, 1, 2, 3, 21, 22, 23, 0][rng.below(10)],
        };
        let mut s = n.to_string();
        if rng.chance(1, 10) {
            s = format!("00{s}");
        }
        jobs.push((s, rng.below(4), rng.below(4), rng.below(TEMPLATES.len()), rng.chance(1, 4)));
    }
    let evs = par_map(jobs.len(), a.num("threads", 12) as usize, |_| (), |_, i| {
        let (d, si, v, t, md) = &jobs[i];
        one(d, SUFFIXES[*si], *v, *t, *md)
    });
    for e in evs {
        out.emit(&e);
    }
    println!("{}", json!({"events": out.finish()}));
}
