//! In-process driver for the real harper-ls Backend (modules included via #[path]):
//! a tower-lsp LspService whose handler futures the harness owns and polls itself, and a
//! mock client that answers workspace/configuration when the schedule says so.
use std::collections::VecDeque;
use std::future::Future;
use std::path::{Path, PathBuf};
use std::pin::Pin;
use std::task::{Context, Poll};
use std::time::{Duration, Instant};

use futures::{Sink, StreamExt};
use serde_json::{Value, json};
use tower::Service;
use tower_lsp::jsonrpc::{Request, Response};
use tower_lsp::{ClientSocket, LspService};

use crate::backend::Backend;
use crate::config::Config;

type HFut = Pin<Box<dyn Future<Output = Option<Response>> + Send>>;

pub struct Handler {
    pub fut: Option<HFut>,
    pub label: String,
    pub done: bool,
    pub result: Option<Value>,
    /// id of a workspace/configuration request this handler is waiting on
    pub pending_cfg: VecDeque<tower_lsp::jsonrpc::Id>,
}

pub struct Ls {
    service: LspService<Backend>,
    socket: ClientSocket,
    pub settings: Value,
    next_id: i64,
    pub handlers: Vec<Handler>,
    /// every publishDiagnostics in arrival order: (uri, diagnostics json, handler index that was being polled)
    pub publishes: Vec<(String, Value, usize)>,
    pub dir: PathBuf,
    pub log: Vec<Value>,
    /// a handler panicked (its future was dropped; it never completes)
    pub panicked: bool,
    /// did the server advertise incremental text synchronisation?
    pub incremental: bool,
    /// what the server was last sent for each document
    sent_text: std::collections::HashMap<String, String>,
}

pub fn settings_for(dir: &Path, linters: Value, dialect: &str) -> Value {
    json!({"harper-ls": {
        "userDictPath": dir.join("user/dictionary.txt").to_string_lossy(),
        "fileDictPath": dir.join("filedicts").to_string_lossy(),
        "statsPath": dir.join("stats/stats.txt").to_string_lossy(),
        "linters": linters,
        "dialect": dialect,
    }})
}

impl Ls {
    /// A fresh server over the given directory (dictionaries and statistics live inside it).
    pub fn new(dir: &Path) -> Self {
        let mut config = Config::default();
        config.user_dict_path = dir.join("user/dictionary.txt");
        config.file_dict_path = dir.join("filedicts");
        config.stats_path = dir.join("stats/stats.txt");
        let (service, socket) = LspService::new(|client| Backend::new(client, config));
        Self { service, socket, settings: settings_for(dir, json!({}), "American"), next_id: 1, handlers: Vec::new(),
            publishes: Vec::new(), dir: dir.to_path_buf(), log: Vec::new(), panicked: false, incremental: false, sent_text: Default::default() }
    }

    /// Create the handler future for a message without polling it.
    pub fn submit(&mut self, method: &str, params: Value, is_request: bool) -> usize {
        let mut b = Request::build(method.to_string());
        if !params.is_null() { b = b.params(params); }
        if is_request { b = b.id(self.next_id); self.next_id += 1; }
        let req = b.finish();
        let fut = self.service.call(req);
        let fut: HFut = Box::pin(async move { fut.await.ok().flatten() });
        self.handlers.push(Handler { fut: Some(fut), label: method.to_string(), done: false, result: None, pending_cfg: VecDeque::new() });
        self.handlers.len() - 1
    }

    /// Poll handler h once; collect what the server sent meanwhile. Returns true if something observable happened.
    fn poll_once(&mut self, h: usize) -> bool {
        let waker = futures::task::noop_waker();
        let mut cx = Context::from_waker(&waker);
        let mut progressed = false;
        if let Some(f) = self.handlers[h].fut.as_mut() {
            // a panic inside a handler is data: the handler never finishes (the real server would die or stop answering)
            match std::panic::catch_unwind(std::panic::AssertUnwindSafe(|| f.as_mut().poll(&mut cx))) {
                Ok(Poll::Ready(r)) => {
                    self.handlers[h].done = true;
                    self.handlers[h].fut = None;
                    self.handlers[h].result = r.map(|resp| { let (_, body) = resp.into_parts(); body.unwrap_or(Value::Null) });
                    progressed = true;
                }
                Ok(Poll::Pending) => {}
                Err(_) => {
                    self.handlers[h].fut = None;
                    self.panicked = true;
                    self.log.push(json!({"panic_in_handler": self.handlers[h].label}));
                }
            }
        }
        // drain server -> client traffic
        loop {
            match self.socket.poll_next_unpin(&mut cx) {
                Poll::Ready(Some(req)) => {
                    progressed = true;
                    let (method, id, params) = req.into_parts();
                    match method.as_ref() {
                        "workspace/configuration" => { if let Some(id) = id { self.handlers[h].pending_cfg.push_back(id); } }
                        "textDocument/publishDiagnostics" => {
                            let p = params.unwrap_or(Value::Null);
                            self.publishes.push((p["uri"].as_str().unwrap_or("").to_string(), p["diagnostics"].clone(), h));
                        }
                        "client/registerCapability" => { if let Some(id) = id { self.respond(id, Value::Null); } }
                        _ => { if let Some(id) = id { self.respond(id, Value::Null); } }
                    }
                }
                _ => break,
            }
        }
        progressed
    }

    fn respond(&mut self, id: tower_lsp::jsonrpc::Id, v: Value) {
        let waker = futures::task::noop_waker();
        let mut cx = Context::from_waker(&waker);
        let resp = Response::from_ok(id, v);
        // the sink is unbounded for our purposes
        let _ = Pin::new(&mut self.socket).poll_ready(&mut cx);
        let _ = Pin::new(&mut self.socket).start_send(resp);
        let _ = Pin::new(&mut self.socket).poll_flush(&mut cx);
    }

    /// Answer the oldest configuration request of handler h with the current client settings.
    pub fn answer_config(&mut self, h: usize) -> bool {
        if let Some(id) = self.handlers[h].pending_cfg.pop_front() {
            let s = json!([self.settings.clone()]);
            self.respond(id, s);
            true
        } else { false }
    }

    /// Poll h until it is done, or until it is waiting for a configuration answer (returns "cfg"), or time runs out.
    pub fn run_until_blocked(&mut self, h: usize, timeout: Duration) -> &'static str {
        let t0 = Instant::now();
        loop {
            self.poll_once(h);
            if self.handlers[h].done { return "done"; }
            if self.handlers[h].fut.is_none() { return "panic"; }
            if !self.handlers[h].pending_cfg.is_empty() { return "cfg"; }
            if t0.elapsed() > timeout { return "timeout"; }
            std::thread::sleep(Duration::from_micros(300));
        }
    }

    /// Poll h at most `polls` times (waiting briefly between polls); same verdicts as run_until_blocked.
    pub fn run_until_blocked_polls(&mut self, h: usize, polls: usize) -> &'static str {
        for _ in 0..polls {
            self.poll_once(h);
            if self.handlers[h].done { return "done"; }
            if self.handlers[h].fut.is_none() { return "panic"; }
            if !self.handlers[h].pending_cfg.is_empty() { return "cfg"; }
            std::thread::sleep(Duration::from_micros(500));
        }
        "pending"
    }

    /// Run handler h to completion, answering its configuration requests at once.
    pub fn run_to_completion(&mut self, h: usize, timeout: Duration) -> bool {
        let t0 = Instant::now();
        loop {
            match self.run_until_blocked(h, timeout) {
                "done" => return true,
                "cfg" => { self.answer_config(h); }
                _ => return false,
            }
            if t0.elapsed() > timeout { return false; }
        }
    }

    /// Sequential convenience: submit and run to completion.
    pub fn call(&mut self, method: &str, params: Value, is_request: bool) -> Option<Value> {
        let h = self.submit(method, params, is_request);
        let ok = self.run_to_completion(h, Duration::from_secs(30));
        if !ok { self.log.push(json!({"timeout": method})); }
        self.handlers[h].result.clone()
    }

    pub fn initialize(&mut self) {
        let caps = self.call("initialize", json!({"capabilities": {}}), true);
        // 1 = full documents, 2 = incremental (either a number or {change: n})
        let sync = caps.as_ref().map(|c| &c["capabilities"]["textDocumentSync"]).cloned().unwrap_or(Value::Null);
        self.incremental = sync == json!(2) || sync["change"] == json!(2);
        self.call("initialized", json!({}), false);
    }
    /// position (line, UTF-16 column) of a char offset
    fn pos_of(text: &str, off: usize) -> Value {
        let (mut line, mut col) = (0u64, 0u64);
        for (i, c) in text.chars().enumerate() {
            if i == off { break; }
            if c == '\n' { line += 1; col = 0; } else { col += c.len_utf16() as u64; }
        }
        json!({"line": line, "character": col})
    }

    pub fn last_publish(&self, uri: &str) -> Option<&Value> {
        self.publishes.iter().rev().find(|(u, _, _)| u == uri).map(|(_, d, _)| d)
    }

    pub fn did_open(&mut self, uri: &str, lang: &str, text: &str) -> usize {
        self.sent_text.insert(uri.to_string(), text.to_string());
        self.submit("textDocument/didOpen", json!({"textDocument": {"uri": uri, "languageId": lang, "version": 1, "text": text}}), false)
    }
    /// A conforming client: whole documents unless the server advertised incremental sync; then the change from
    /// what the server last got for this document is sent as TWO ranged edits in one notification, in document
    /// order (the first character is deleted, then the rest - in the coordinates the first edit left - is replaced).
    pub fn did_change(&mut self, uri: &str, version: i64, text: &str) -> usize {
        let old = self.sent_text.get(uri).cloned();
        self.sent_text.insert(uri.to_string(), text.to_string());
        match old {
            Some(old) if self.incremental && old.chars().count() >= 2 => {
                let rest: String = old.chars().skip(1).collect();
                let end = Self::pos_of(&rest, rest.chars().count());
                let changes = json!([
                    {"range": {"start": {"line": 0, "character": 0}, "end": Self::pos_of(&old, 1)}, "text": ""},
                    {"range": {"start": {"line": 0, "character": 0}, "end": end}, "text": text}]);
                self.submit("textDocument/didChange", json!({"textDocument": {"uri": uri, "version": version}, "contentChanges": changes}), false)
            }
            // every third full-text change travels as a batch: an editor that coalesces edits sends several whole
            // texts in one notification, and the last one is the document
            Some(old) if version % 3 == 0 => {
                let changes = json!([{"text": format!("{old} teh batchq")}, {"text": "An interim text with an mistake."}, {"text": text}]);
                self.submit("textDocument/didChange", json!({"textDocument": {"uri": uri, "version": version}, "contentChanges": changes}), false)
            }
            _ => self.submit("textDocument/didChange", json!({"textDocument": {"uri": uri, "version": version}, "contentChanges": [{"text": text}]}), false),
        }
    }
    pub fn did_save(&mut self, uri: &str) -> usize {
        self.submit("textDocument/didSave", json!({"textDocument": {"uri": uri}}), false)
    }
    pub fn did_close(&mut self, uri: &str) -> usize {
        self.submit("textDocument/didClose", json!({"textDocument": {"uri": uri}}), false)
    }
    pub fn exec(&mut self, command: &str, args: Value) -> usize {
        self.submit("workspace/executeCommand", json!({"command": command, "arguments": args}), true)
    }
    pub fn did_change_configuration(&mut self) -> usize {
        let s = self.settings.clone();
        self.submit("workspace/didChangeConfiguration", json!({"settings": s}), false)
    }
}

/// A tokio runtime context is needed for tokio::fs inside the handlers.
pub fn with_runtime<T>(f: impl FnOnce() -> T) -> T {
    let rt = tokio::runtime::Builder::new_multi_thread().worker_threads(2).enable_all().build().unwrap();
    let _g = rt.enter();
    f()
}

pub fn flagged_words(diags: &Value, text: &str) -> Vec<String> {
    // words under Spelling diagnostics ("Did you mean ...") on single-line texts
    let chars: Vec<char> = text.chars().collect();
    let mut v = Vec::new();
    if let Some(a) = diags.as_array() {
        for d in a {
            let msg = d["message"].as_str().unwrap_or("");
            if !msg.starts_with("Did you mean") { continue; }
            let (l0, c0, l1, c1) = (d["range"]["start"]["line"].as_u64().unwrap_or(0), d["range"]["start"]["character"].as_u64().unwrap_or(0) as usize,
                d["range"]["end"]["line"].as_u64().unwrap_or(0), d["range"]["end"]["character"].as_u64().unwrap_or(0) as usize);
            if l0 != 0 || l1 != 0 { continue; }
            // utf-16 columns; the drivers use BMP-only single-line texts for this helper
            if c0 <= c1 && c1 <= chars.len() { v.push(chars[c0..c1].iter().collect()); }
        }
    }
    v
}

pub fn demo(_a: &crate::util::Args) {
    with_runtime(|| {
        let dir = std::env::temp_dir().join(format!("hv_ls_demo_{}", std::process::id()));
        std::fs::create_dir_all(&dir).unwrap();
        let mut ls = Ls::new(&dir);
        ls.initialize();
        let uri = "file:///tmp/hv_demo.txt";
        let h = ls.did_open(uri, "plaintext", "This is zzyzxq and teh end.");
        ls.run_to_completion(h, Duration::from_secs(10));
        println!("{:?}", ls.last_publish(uri).map(|d| flagged_words(d, "This is zzyzxq and teh end.")));
        let _ = std::fs::remove_dir_all(&dir);
    });
}
