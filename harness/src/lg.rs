//! C05 / C11: the lint group, its chunk cache and the rule switches.
use std::collections::BTreeSet;

use harper_core::linting::{Lint, LintGroup, LintGroupConfig, Linter};
use harper_core::parsers::{Markdown, PlainEnglish};
use harper_core::{Dialect, Document, FstDictionary, TokenStringExt};
use serde_json::{Value, json};

use crate::front;
use crate::util::{Args, Out, Rng, catch, digest, par_map, read_corpus, read_ndjson};

pub fn lint_digest(l: &Lint) -> String {
    digest(&serde_json::to_string(l).unwrap())
}

fn make_doc(text: &str, lang: &str) -> Document {
    let dict = FstDictionary::curated();
    match lang {
        "md" => Document::new(text, &Markdown::default(), &dict),
        _ => Document::new(text, &PlainEnglish, &dict),
    }
}

/// curated + user words of many lengths that share prefixes (technical vocabulary)
// (the kubect* words are all at the same distance from `kubectz`: ties)
pub const USER_WORDS: [&str; 20] = ["autograd", "autodiff", "reparameterization", "reparam", "hyperparameterisations", "hyperopt", "backprop",
    "backpropagating", "tokenizer", "tokenizations", "embeddingbag", "embed", "qwertzuiopasdfgh", "zx", "kubectl", "kubectx", "kubecta", "kubectb", "kubectc", "kubectd"];
fn user_dict() -> std::sync::Arc<harper_core::MergedDictionary> {
    use harper_core::{MergedDictionary, MutableDictionary, WordMetadata};
    static D: std::sync::OnceLock<std::sync::Arc<MergedDictionary>> = std::sync::OnceLock::new();
    D.get_or_init(|| {
        let mut user = MutableDictionary::new();
        user.extend_words(USER_WORDS.iter().map(|w| (w.chars().collect::<Vec<char>>(), WordMetadata::default())));
        let mut m = MergedDictionary::new();
        m.add_dictionary(FstDictionary::curated());
        m.add_dictionary(std::sync::Arc::new(user));
        std::sync::Arc::new(m)
    }).clone()
}
/// the same words in a dictionary object of its own (whatever is particular to an instance - hash seeds - is new)
fn user_dict_fresh() -> std::sync::Arc<harper_core::MergedDictionary> {
    use harper_core::{MergedDictionary, MutableDictionary, WordMetadata};
    let mut user = MutableDictionary::new();
    user.extend_words(USER_WORDS.iter().map(|w| (w.chars().collect::<Vec<char>>(), WordMetadata::default())));
    let mut m = MergedDictionary::new();
    m.add_dictionary(FstDictionary::curated());
    m.add_dictionary(std::sync::Arc::new(user));
    std::sync::Arc::new(m)
}
fn make_doc_user(text: &str, lang: &str) -> Document {
    let dict = user_dict();
    match lang {
        "md" => Document::new(text, &Markdown::default(), &dict),
        _ => Document::new(text, &PlainEnglish, &dict),
    }
}

/// (digest of the chunk's characters, digest of its tokens relative to the chunk start)
fn chunk_keys(doc: &Document) -> Vec<Value> {
    let mut v = Vec::new();
    for chunk in doc.get_tokens().iter_chunks() {
        let Some(sp) = chunk.span() else { continue };
        let chars: String = doc.get_span_content(&sp).iter().collect();
        let toks: String = chunk.iter().map(|t| format!("{:?}@{}-{};", t.kind, t.span.start - sp.start, t.span.end - sp.start)).collect();
        v.push(json!({"chars": digest(&chars), "toks": digest(&toks)}));
    }
    v
}

/// rule configurations used by the drivers
pub fn config_by_id(id: usize, names: &[String]) -> LintGroupConfig {
    let mut c = LintGroupConfig::default();
    match id {
        0 => return LintGroupConfig::new_curated(),
        1 => { for n in names { c.set_rule_enabled(n, true); } }
        2 => { for (i, n) in names.iter().enumerate() { c.set_rule_enabled(n, i % 2 == 0); } }
        3 => { for (i, n) in names.iter().enumerate() { c.set_rule_enabled(n, i % 2 == 1); } }
        4 => { c = LintGroupConfig::new_curated(); c.set_rule_enabled("SpellCheck", false); c.set_rule_enabled("SentenceCapitalization", false); }
        5 => { for n in names { c.set_rule_enabled(n, false); } c.set_rule_enabled("SpellCheck", true); }
        6 => { for n in names { c.set_rule_enabled(n, false); } }
        _ => { let mut r = Rng::new(id as u64); for n in names { c.set_rule_enabled(n, r.chance(1, 2)); } }
    }
    c
}

/// The reference: a linter that has never linted anything, on a thread that has never linted anything
/// (thread-local caches are part of "what the instance checked before").
fn fresh_lints(text: &str, lang: &str, cfg: &LintGroupConfig, dialect: Dialect) -> Vec<Lint> { fresh_lints_d(text, lang, cfg, dialect, false) }
fn fresh_lints_d(text: &str, lang: &str, cfg: &LintGroupConfig, dialect: Dialect, user: bool) -> Vec<Lint> {
    let (text, lang, cfg) = (text.to_string(), lang.to_string(), cfg.clone());
    let h = std::thread::Builder::new().stack_size(16 << 20).spawn(move || {
        if user {
            let d = user_dict_fresh();
            let mut lg = LintGroup::new_curated(d.clone(), dialect).with_lint_config(cfg);
            let doc = match lang.as_str() { "md" => Document::new(&text, &Markdown::default(), &d), _ => Document::new(&text, &PlainEnglish, &d) };
            return lg.lint(&doc);
        }
        let mut lg = LintGroup::new_curated(FstDictionary::curated(), dialect).with_lint_config(cfg);
        lg.lint(&make_doc(&text, &lang))
    }).unwrap();
    match h.join() { Ok(v) => v, Err(p) => std::panic::resume_unwind(p) }
}

/// One session on one long-lived LintGroup: ops are ("cfg", id) | ("lint", text, lang)
pub fn session(ops: &[(String, usize, String, String)], names: &[String], dialect: Dialect, tag: &str) -> Vec<Value> {
    let mut evs = vec![json!({"ev": "Reset", "src": tag})];
    // sessions tagged "user" run with the merged dictionary (curated + user words)
    let user = tag == "user";
    let mut lg = if user { LintGroup::new_curated(user_dict(), dialect) } else { LintGroup::new_curated(FstDictionary::curated(), dialect) };
    let mut cfg_id = 0usize;
    for (kind, id, text, lang) in ops {
        if kind == "cfg" {
            cfg_id = *id;
            lg.config = config_by_id(cfg_id, names);
            evs.push(json!({"ev": "SetCfg", "cfg": cfg_id}));
            continue;
        }
        let before = harper_core::linting::lint_group_verif::counters();
        let r = catch(|| {
            let doc = if user { make_doc_user(text, lang) } else { make_doc(text, lang) };
            let keys = chunk_keys(&doc);
            (lg.lint(&doc), keys)
        });
        let after = harper_core::linting::lint_group_verif::counters();
        let cfg = lg.config.clone();
        let f = catch(|| fresh_lints_d(text, lang, &cfg, dialect, user));
        match (r, f) {
            (Ok((reused, keys)), Ok(fresh)) => {
                evs.push(json!({"ev": "Lint", "text": text, "lang": lang, "cfg": cfg_id, "chunks": keys,
                    "hits": after.0 - before.0, "misses": after.1 - before.1,
                    "reused": reused.iter().map(lint_digest).collect::<Vec<_>>(),
                    "fresh": fresh.iter().map(lint_digest).collect::<Vec<_>>(),
                    "n": fresh.len()}));
            }
            (a, b) => {
                // a panic on either side is C01's business; but a panic on one side only is a difference
                let pa = a.is_err();
                let pb = b.is_err();
                evs.push(json!({"ev": "LintPanic", "text": text, "lang": lang, "cfg": cfg_id, "reused_panicked": pa, "fresh_panicked": pb}));
                if pa {
                    lg = if user { LintGroup::new_curated(user_dict(), dialect) } else { LintGroup::new_curated(FstDictionary::curated(), dialect) };
                    lg.config = config_by_id(cfg_id, names);
                    evs.push(json!({"ev": "Reset", "src": tag}));
                    evs.push(json!({"ev": "SetCfg", "cfg": cfg_id}));
                }
            }
        }
    }
    evs
}

/// Concrete document pools realising the model's four documents: d1/d2 = the same characters
/// tokenised differently by plain English and Markdown, d3 = another clause followed by d1's
/// clause at an offset, d4 = the same clause twice.
pub const POOLS: &[[(&str, &str); 4]] = &[
    [("he *she* said so.", "plain"), ("he *she* said so.", "md"), ("We was there, he *she* said so.", "plain"), ("an test, an test", "plain")],
    [("an `test` it is.", "plain"), ("an `test` it is.", "md"), ("Wait, an `test` it is.", "plain"), ("the the, the the", "plain")],
    [("I saw an _apple today.", "plain"), ("I saw an _apple today.", "md"), ("So, I saw an _apple today.", "plain"), ("teh cat. teh cat.", "plain")],
    [("see [an link](http://a.b) here.", "plain"), ("see [an link](http://a.b) here.", "md"), ("Ok, see [an link](http://a.b) here.", "md"), ("There is an problem! There is an problem!", "md")],
    [("# an heading", "plain"), ("# an heading", "md"), ("well, # an heading", "plain"), ("could of, could of", "md")],
];

pub fn c05(a: &Args) {
    let mut out = Out::create(a.req("out"));
    let mut rng = Rng::new(a.num("seed", 1));
    let names: Vec<String> = front::curated_group(Dialect::American).iter_keys().map(|s| s.to_string()).collect();
    let mut sessions: Vec<(Vec<(String, usize, String, String)>, usize, &'static str)> = Vec::new();
    // (R) histories enumerated by TLC over the four model documents / configurations
    if let Some(cases) = a.get("cases") {
        for (i, c) in read_ndjson(cases).into_iter().enumerate() {
            let pool = &POOLS[i % POOLS.len()];
            let ops: Vec<(String, usize, String, String)> = c.as_array().unwrap().iter().map(|op| {
                if op["op"] == "cfg" {
                    // model configs are subsets of {w1,p1,p2}; map the 8 subsets to 8 real configs
                    ("cfg".to_string(), op["id"].as_u64().unwrap() as usize, String::new(), String::new())
                } else {
                    let d = op["id"].as_u64().unwrap() as usize;
                    ("lint".to_string(), 0, pool[d].0.to_string(), pool[d].1.to_string())
                }
            }).collect();
            sessions.push((ops, i % 4, "tlc"));
        }
    }
    // random histories over corpus sentences in both languages, clauses recurring at offsets
    if let Some(corpus) = a.get("corpus") {
        let corpus = read_corpus(corpus);
        for s in 0..a.num("sessions", 100) as usize {
            let base: Vec<&String> = (0..4).map(|_| rng.pick(&corpus[..])).collect();
            let mut ops = Vec::new();
            for _ in 0..rng.range(4, 14) {
                if rng.chance(1, 4) {
                    ops.push(("cfg".to_string(), rng.below(10), String::new(), String::new()));
                    continue;
                }
                let t = base[rng.below(4)];
                let text = match rng.below(6) {
                    0 => t.to_string(),
                    1 => format!("{} {}", base[rng.below(4)], t),
                    2 => format!("Well, {t}"),
                    3 => format!("{t}\n\n{t}"),
                    4 => format!("*{t}* and `{}`", base[rng.below(4)]),
                    _ => { let cs: Vec<char> = t.chars().collect(); cs[..rng.range(0, cs.len())].iter().collect() }
                };
                ops.push(("lint".to_string(), 0, text, if rng.chance(1, 2) { "md".into() } else { "plain".into() }));
            }
            sessions.push((ops, s % 4, "random"));
        }
    }
    // editing families: one long-lived linter sees every word of a sentence at the start of a
    // document, capitalised and not, behind white space, cut at word boundaries ...
    if let Some(corpus) = a.get("corpus") {
        let corpus = read_corpus(corpus);
        let nf = a.num("family-sentences", 60) as usize;
        let start = rng.below(corpus.len());
        for i in 0..nf.min(corpus.len()) {
            let t = &corpus[(start + i) % corpus.len()];
            let mut ops: Vec<(String, usize, String, String)> = Vec::new();
            for (k, member) in crate::inputs::family(t).into_iter().enumerate() {
                if k % 9 == 4 { ops.push(("cfg".to_string(), (i + k) % 8, String::new(), String::new())); }
                ops.push(("lint".to_string(), 0, member.clone(), if (i + k) % 3 == 0 { "md".into() } else { "plain".into() }));
                // case variants of the same text: the same (mis)spellings in another capitalisation
                if k % 4 == 0 {
                    ops.push(("lint".to_string(), 0, member.to_lowercase(), "plain".into()));
                    ops.push(("lint".to_string(), 0, member.to_uppercase(), "plain".into()));
                    // Every Word Capitalised (behind a short prefix, so that the words sit at other offsets)
                    let titled: String = member.split(' ').map(|w| { let mut c = w.chars(); match c.next() { Some(f) => f.to_uppercase().collect::<String>() + c.as_str(), None => String::new() } }).collect::<Vec<_>>().join(" ");
                    ops.push(("lint".to_string(), 0, format!("Ok. {titled}"), "plain".into()));
                }
            }
            sessions.push((ops, i % 4, "family"));
        }
    }
    // context families: the same adjacent word pair in several syntactic surroundings, one after the
    // other on one thread (anything memoised per word, pair or phrase instead of per context shows)
    if let Some(corpus) = a.get("corpus") {
        let corpus = read_corpus(corpus);
        let templates = ["The {p} supply.", "Bob's {p}.", "{p}", "A {p} is here.", "I like the {p}, really.", "They {p} it.",
            "My {p} was {p}.", "Is it {p}?", "He is very {p}.", "{p} {p}", "To {p} is fine.", "We saw {p} and the {p}s."];
        // split compounds: lower-case dictionary words that are two dictionary words written together
        // (rules that merge or split words consult the dictionary about exactly these)
        let splits: Vec<String> = split_compounds();
        for i in 0..a.num("context-families", 60) as usize {
            let t = rng.pick(&corpus[..]).clone();
            let words: Vec<&str> = t.split(|c: char| !c.is_alphabetic() && c != '\'').filter(|w| !w.is_empty()).collect();
            if words.len() < 2 { continue; }
            let mut ops: Vec<(String, usize, String, String)> = Vec::new();
            for _ in 0..3 {
                let k = rng.below(words.len() - 1);
                let pair = if i % 3 != 0 && !splits.is_empty() { rng.pick(&splits[..]).clone() }
                           else { format!("{} {}", words[k].to_lowercase(), words[k + 1].to_lowercase()) };
                let mut order: Vec<usize> = (0..templates.len()).collect();
                for j in (1..order.len()).rev() { order.swap(j, rng.below(j + 1)); }
                for &ti in order.iter().take(7) {
                    ops.push(("lint".to_string(), 0, templates[ti].replace("{p}", &pair), "plain".into()));
                }
            }
            sessions.push((ops, i % 4, "context"));
        }
    }
    // user-dictionary histories: unknown words that are typos of user words, or that start like one and run on for a
    // few more letters, in sequences on one thread (whatever the fuzzy search over the user's words leaves behind on a
    // thread - scratch rows, automata - must not change what a later document gets)
    {
        let letters: Vec<char> = "abcdefghijklmnopqrstuvwxyz".chars().collect();
        for i in 0..a.num("user-histories", 80) as usize {
            let mut ops: Vec<(String, usize, String, String)> = Vec::new();
            for _ in 0..rng.range(4, 8) {
                let w: Vec<char> = rng.pick(&USER_WORDS[..]).chars().collect();
                let unknown: String = match rng.below(3) {
                    0 => { let mut t = w.clone(); let p = rng.below(t.len()); if t.len() > 3 && rng.chance(1, 2) { t.remove(p); } else { t[p] = *rng.pick(&letters[..]); } t.iter().collect() }
                    _ => { let keep = rng.range(2, w.len().min(8)).min(w.len()); let extra = (w.len() - keep) + rng.range(2, 4);
                           w[..keep].iter().cloned().chain((0..extra).map(|_| *rng.pick(&letters[..]))).collect() }
                };
                let unknown = if rng.chance(1, 5) { "kubectz".to_string() } else { unknown };
                let text = match rng.below(3) { 0 => format!("We train a small {unknown} first."), 1 => format!("The {unknown} trick keeps the gradient."), _ => unknown };
                ops.push(("lint".to_string(), 0, text, if rng.chance(1, 4) { "md".into() } else { "plain".into() }));
            }
            sessions.push((ops, i % 4, "user"));
        }
    }
    // glue families: one clause behind different endings of what precedes it (paragraph break, line break,
    // nothing but a comma / colon / quote / period): a rule that peeks outside its chunk shows through the cache
    if let Some(corpus) = a.get("corpus") {
        let corpus = read_corpus(corpus);
        let seps = [".\n\n", ". ", ".\n", ",", ", ", ":", ": ", "!", "?", "\"", " ", ";", ".\n\n\n", ""];
        for i in 0..a.num("glue-families", 60) as usize {
            let base = if i % 2 == 0 {
                // a short soup, optionally alone on its line
                let mut t = String::new();
                for k in 0..rng.range(1, 3) { if k > 0 { t.push(' '); } t.push_str(*rng.pick(&crate::inputs::ATOMS[..])); }
                match rng.below(3) { 0 => format!("{t}\nBob"), 1 => format!("{t}\n\nSecond part."), _ => t }
            } else { rng.pick(&corpus[..]).clone() };
            let head = ["Thanks", "First part", "He said", "See you soon"][rng.below(4)];
            let mut order: Vec<usize> = (0..seps.len()).collect();
            for j in (1..order.len()).rev() { order.swap(j, rng.below(j + 1)); }
            let ops: Vec<(String, usize, String, String)> = order.iter().take(8)
                .map(|&k| ("lint".to_string(), 0, format!("{head}{}{base}", seps[k]), if i % 5 == 0 { "md".to_string() } else { "plain".to_string() })).collect();
            sessions.push((ops, i % 4, "glue"));
        }
    }
    let threads = a.num("threads", 12) as usize;
    let evs = par_map(sessions.len(), threads, |_| (), |_, i| {
        let (ops, d, tag) = &sessions[i];
        session(ops, &names, front::dialects()[*d], tag)
    });
    for v in evs { for e in v { out.emit(&e); } }
    // the same documents on 1, 2 and 8 threads / in a second process are compared by digest
    if let Some(corpus) = a.get("corpus") {
        let corpus = read_corpus(corpus);
        // own generator: the second process must pick the same documents
        let mut rng2 = Rng::new(a.num("seed", 1) ^ 0x5eed_d0c5);
        let docs: Vec<String> = (0..a.num("thread-docs", 200)).map(|_| rng2.pick(&corpus[..]).clone()).collect();
        let run = |threads: usize| -> Vec<String> {
            par_map(docs.len(), threads, |_| front::all_rules_group(Dialect::American), |lg, i| {
                catch(|| lg.lint(&make_doc(&docs[i], "plain")).iter().map(lint_digest).collect::<Vec<_>>().join(",")).unwrap_or_else(|_| "panic".into())
            })
        };
        let r1 = run(1);
        if let Some(dump) = a.get("dump-lints") {
            let mut lg = front::all_rules_group(Dialect::American);
            let mut o = Out::create(dump);
            for d in &docs {
                if let Ok(l) = catch(|| lg.lint(&make_doc(d, "plain"))) {
                    o.emit(&json!({"text": d, "lints": l}));
                }
            }
            o.finish();
        }
        for t in [2usize, 8] {
            let rt = run(t);
            let diffs: Vec<usize> = (0..docs.len()).filter(|i| r1[*i] != rt[*i]).collect();
            out.emit(&json!({"ev": "Threads", "threads": t, "docs": docs.len(), "diff": diffs.len(),
                "first": diffs.first().map(|i| docs[*i].clone()).unwrap_or_default()}));
        }
        // spelling suggestions with a user dictionary holding several equidistant entries:
        // an order that depends on hash-map iteration would differ between processes
        let procdig = digest(&r1.join("|"));
        out.emit(&json!({"ev": "Proc", "digest": procdig, "docs": docs.len()}));
    }
    println!("{}", json!({"events": out.finish()}));
}

pub fn rule_names() -> BTreeSet<String> {
    front::curated_group(Dialect::American).iter_keys().map(|s| s.to_string()).collect()
}

// ------------------------------------------------------------------ C11

fn cfg_state(c: &LintGroupConfig, keys: &[&str; 3]) -> Value {
    // project onto the three model keys: absent / "On" / "Off" / "None"
    let j = serde_json::to_value(c).unwrap();
    let mut m = serde_json::Map::new();
    for (model, real) in ["r1", "r2", "zz"].iter().zip(keys.iter()) {
        if let Some(v) = j.get(*real) {
            m.insert(model.to_string(), json!(match v { Value::Bool(true) => "On", Value::Bool(false) => "Off", _ => "None" }));
        }
    }
    Value::Object(m)
}

fn cfg_from_state(s: &Value, keys: &[&str; 3]) -> LintGroupConfig {
    let mut m = serde_json::Map::new();
    for (model, real) in ["r1", "r2", "zz"].iter().zip(keys.iter()) {
        if let Some(v) = s.get(*model) {
            m.insert(real.to_string(), match v.as_str().unwrap() { "On" => json!(true), "Off" => json!(false), _ => Value::Null });
        }
    }
    serde_json::from_value(Value::Object(m)).unwrap()
}

pub fn c11(a: &Args) {
    let mut out = Out::create(a.req("out"));
    let mut rng = Rng::new(a.num("seed", 1));
    // "rule" means rule name: `Intact` is registered both as a whole-document rule and as a pattern
    // rule, so iter_keys() lists it twice; partitions are partitions of the set of names
    let names: Vec<String> = rule_names().into_iter().collect();
    let curated = LintGroupConfig::new_curated();
    let on: Vec<&String> = names.iter().filter(|n| curated.is_rule_enabled(n)).collect();
    let off: Vec<&String> = names.iter().filter(|n| !curated.is_rule_enabled(n)).collect();
    // (R) every (cfg, other) state of MC_Config x every operation, on the real LintGroupConfig
    if let Some(cases) = a.get("cases") {
        for (ci, c) in read_ndjson(cases).into_iter().enumerate() {
            let r1 = on[(ci + a.num("seed", 1) as usize) % on.len()].as_str();
            let r2 = off[ci % off.len()].as_str();
            let keys = [r1, r2, "NoSuchRule"];
            let mk = |s: &Value| cfg_from_state(s, &keys);
            let mut ops: Vec<(&str, usize, bool)> = Vec::new();
            for k in 0..3 { for on in [true, false] { ops.push(("Set", k, on)); ops.push(("SetIfUnset", k, on)); } ops.push(("Unset", k, false)); }
            ops.push(("Clear", 0, false)); ops.push(("MergeFrom", 0, false)); ops.push(("FillWithCurated", 0, false)); ops.push(("Json", 0, false));
            for (op, k, onv) in ops {
                let mut cfg = mk(&c["cfg"]);
                let mut other = mk(&c["other"]);
                let mut enabled_before = Vec::new();
                for key in keys { enabled_before.push(cfg.is_rule_enabled(key)); }
                match op {
                    "Set" => cfg.set_rule_enabled(keys[k], onv),
                    "SetIfUnset" => cfg.set_rule_enabled_if_unset(keys[k], onv),
                    "Unset" => cfg.unset_rule_enabled(keys[k]),
                    "Clear" => cfg.clear(),
                    "MergeFrom" => cfg.merge_from(&mut other),
                    "FillWithCurated" => cfg.fill_with_curated(),
                    _ => { let j = serde_json::to_string(&cfg).unwrap(); cfg = serde_json::from_str(&j).unwrap(); }
                }
                // outside the three keys nothing but curated defaults may appear
                let stray = serde_json::to_value(&cfg).unwrap().as_object().unwrap().iter()
                    .filter(|(kk, v)| !keys.contains(&kk.as_str()) && serde_json::to_value(&curated).unwrap().get(kk.as_str()) != Some(v)).count();
                let kname = ["r1", "r2", "zz"][k];
                out.emit(&json!({"ev": "Cfg", "op": op, "k": kname, "on": onv,
                    "before": c["cfg"], "other": c["other"], "after": cfg_state(&cfg, &keys), "other_after": cfg_state(&other, &keys),
                    "enabled_before": enabled_before,
                    "enabled_after": keys.iter().map(|kk| cfg.is_rule_enabled(kk)).collect::<Vec<_>>(), "stray": stray,
                    "keys": keys}));
            }
        }
    }
    // (T) union decomposition on real rules, on reused linters
    if let Some(corpus) = a.get("corpus") {
        let corpus = read_corpus(corpus);
        let n = a.num("docs", 300) as usize;
        let jobs: Vec<(String, String, u64)> = (0..n).map(|i| {
            let t = if i % 3 == 0 { crate::inputs::compose(&corpus, &mut rng) } else { rng.pick(&corpus[..]).clone() };
            (t, if i % 2 == 0 { "plain".to_string() } else { "md".to_string() }, rng.next())
        }).collect();
        let names2 = names.clone();
        let evs = par_map(jobs.len(), a.num("threads", 12) as usize,
            |_| LintGroup::new_curated(FstDictionary::curated(), Dialect::American),
            |lg, i| {
                let (text, lang, s) = &jobs[i];
                let mut r = Rng::new(*s);
                let mut evs = Vec::new();
                // E: random enabled set; A/B: random partition of E; also "toggle one rule"
                let e_set: Vec<&String> = names2.iter().filter(|_| r.chance(2, 3)).collect();
                let toggled = if e_set.is_empty() { None } else { Some(e_set[r.below(e_set.len())].clone()) };
                let (a_set, b_set): (Vec<&String>, Vec<&String>) = if r.chance(1, 2) {
                    e_set.iter().partition(|_| r.chance(1, 2))
                } else {
                    e_set.iter().partition(|n| Some((**n).clone()) != toggled)
                };
                let mut run = |set: &[&String]| -> Result<Vec<String>, String> {
                    let mut c = LintGroupConfig::default();
                    for nme in &names2 { c.set_rule_enabled(nme, false); }
                    for nme in set { c.set_rule_enabled(nme.as_str(), true); }
                    lg.config = c;
                    catch(|| lg.lint(&make_doc(text, lang)).iter().map(lint_digest).collect())
                };
                // the long-lived linter sees the three configurations in a random order (a rule may be
                // switched on after the text has been linted with it off, or the other way round) ...
                let order = r.below(3);
                let (re, ra, rb);
                match order {
                    0 => { re = run(&e_set); ra = run(&a_set); rb = run(&b_set); }
                    1 => { ra = run(&a_set); rb = run(&b_set); re = run(&e_set); }
                    _ => { rb = run(&b_set); re = run(&e_set); ra = run(&a_set); }
                }
                // ... then the same E again: the cache is warm now
                let re2 = run(&e_set);
                drop(run);
                // reference: a linter that has never linted anything, under E
                let rref: Result<Vec<String>, String> = catch(|| {
                    let mut c = LintGroupConfig::default();
                    for nme in &names2 { c.set_rule_enabled(nme, false); }
                    for nme in &e_set { c.set_rule_enabled(nme.as_str(), true); }
                    let mut fresh = LintGroup::new_curated(FstDictionary::curated(), Dialect::American).with_lint_config(c);
                    fresh.lint(&make_doc(text, lang)).iter().map(lint_digest).collect()
                });
                if let (Ok(e), Ok(a), Ok(b), Ok(e2), Ok(fr)) = (re, ra, rb, re2, rref) {
                    evs.push(json!({"ev": "Parts", "text": text, "lang": lang, "ne": e_set.len(), "na": a_set.len(), "order": order,
                        "e": e, "a": a, "b": b, "e2": e2, "fresh": fr}));
                }
                evs
            });
        for v in evs { for e in v { out.emit(&e); } }
        // every rule switched either way through both entry formats: the explicit choice must come out, and
        // no other rule may move (exhaustive over rule names)
        {
            let curated_v = serde_json::to_value(LintGroupConfig::new_curated()).unwrap();
            for name in &names {
                for val in [true, false] {
                    let ujson = json!({ name.as_str(): val });
                    let ls = catch(|| {
                        let cfg = crate::config::Config::from_lsp_config(json!({"harper-ls": {"linters": ujson}})).unwrap();
                        let mut c = cfg.lint_config; c.fill_with_curated(); c
                    });
                    let wasm = catch(|| {
                        let mut l = harper_wasm::Linter::new(harper_wasm::Dialect::American);
                        l.set_lint_config_from_json(ujson.to_string()).unwrap();
                        let mut c: LintGroupConfig = serde_json::from_str(&l.get_lint_config_as_json()).unwrap();
                        c.fill_with_curated(); c
                    });
                    for (entry, r) in [("ls", ls), ("wasm", wasm)] {
                        if let Ok(c) = r {
                            let v = serde_json::to_value(&c).unwrap();
                            let moved = names.iter().filter(|n| *n != name && v.get(n.as_str()) != curated_v.get(n.as_str())).count();
                            out.emit(&json!({"ev": "Switch", "entry": entry, "rule": name, "value": val, "got": c.is_rule_enabled(name), "moved": moved}));
                        }
                    }
                }
            }
        }
        // a rule chosen and then set back to "default" (null) through the JS-facing linter, and through a fresh core overlay
        {
            let curated = LintGroupConfig::new_curated();
            for (k, name) in names.iter().enumerate().filter(|(k, _)| k % 12 == 0) {
                let first = k % 24 == 0;       // the explicit choice made first
                let r = catch(|| {
                    let mut l = harper_wasm::Linter::new(harper_wasm::Dialect::American);
                    l.set_lint_config_from_json(json!({ name.as_str(): first }).to_string()).unwrap();
                    l.set_lint_config_from_json(json!({ name.as_str(): Value::Null }).to_string()).unwrap();
                    let mut c: LintGroupConfig = serde_json::from_str(&l.get_lint_config_as_json()).unwrap();
                    c.fill_with_curated();
                    c.is_rule_enabled(name)
                });
                if let Ok(got) = r {
                    out.emit(&json!({"ev": "Unset", "entry": "wasm", "rule": name, "first": first, "want": curated.is_rule_enabled(name), "got": got}));
                }
            }
        }
        // configuration shapes: nearly complete, complete, padded with names that are not rules, nulls - the
        // effective switch of EVERY rule after the overlay is compared (unmentioned: curated default; explicit wins)
        {
            let curated = LintGroupConfig::new_curated();
            for i in 0..a.num("shapes", 40) as usize {
                let mut user = serde_json::Map::new();
                let shape = i % 5;
                let nmiss = match shape { 0 => 0, 1 => 1, 2 => 2, 3 => rng.range(1, 6), _ => names.len() - rng.range(0, 6) };
                let mut missing: BTreeSet<String> = BTreeSet::new();
                while missing.len() < nmiss.min(names.len()) { missing.insert(rng.pick(&names[..]).clone()); }
                for nme in &names {
                    if missing.contains(nme) { if rng.chance(1, 3) { user.insert(nme.clone(), Value::Null); } continue; }
                    user.insert(nme.clone(), json!(if rng.chance(1, 4) { !curated.is_rule_enabled(nme) } else { rng.chance(1, 2) }));
                }
                for k in 0..(if i % 2 == 0 { nmiss + rng.range(0, 3) } else { 0 }) { user.insert(format!("RenamedRule{k}"), json!(rng.chance(1, 2))); }
                let ujson = Value::Object(user.clone());
                let want = |nme: &str| -> bool { match user.get(nme) { Some(Value::Bool(b)) => *b, _ => curated.is_rule_enabled(nme) } };
                let core = catch(|| { let mut c: LintGroupConfig = serde_json::from_value(ujson.clone()).unwrap(); c.fill_with_curated(); c });
                let ls = catch(|| { let mut c = crate::config::Config::from_lsp_config(json!({"harper-ls": {"linters": ujson}})).unwrap().lint_config; c.fill_with_curated(); c });
                for (entry, r) in [("core", core), ("ls", ls)] {
                    if let Ok(c) = r {
                        let wrong: Vec<&String> = names.iter().filter(|n| c.is_rule_enabled(n) != want(n)).collect();
                        out.emit(&json!({"ev": "Effective", "entry": entry, "explicit": user.values().filter(|v| v.is_boolean()).count(), "unknown": user.keys().filter(|k| k.starts_with("RenamedRule")).count(),
                            "missing": nmiss, "wrong": wrong.len(), "first_wrong": wrong.first().map(|s| s.as_str()).unwrap_or("")}));
                    }
                }
            }
        }
        // entry formats: harper-wasm JSON config and harper-ls settings, overlaid on curated defaults - the defaults of
        // the curated group built for the dialect in use
        let dict = FstDictionary::curated();
        let dialects = [(Dialect::American, harper_wasm::Dialect::American), (Dialect::British, harper_wasm::Dialect::British),
            (Dialect::Canadian, harper_wasm::Dialect::Canadian), (Dialect::Australian, harper_wasm::Dialect::Australian)];
        let mut jobs: Vec<(String, serde_json::Map<String, Value>, usize)> = Vec::new();
        for i in 0..a.num("overlays", 60) as usize {
            let text = rng.pick(&corpus[..]).clone();
            let mut user = serde_json::Map::new();
            for _ in 0..rng.range(0, 6) {
                let k = if rng.chance(1, 5) { format!("Unknown{}", rng.below(5)) } else { rng.pick(&names[..]).clone() };
                user.insert(k, if rng.chance(1, 6) { Value::Null } else { json!(rng.chance(1, 2)) });
            }
            jobs.push((text, user, i % 4));
        }
        // where a dialect's group and the shared table of defaults disagree about a rule, texts on which that rule
        // speaks are checked under that dialect (the disagreement itself is not judged, what the user gets is)
        {
            let table = LintGroupConfig::new_curated();
            for (di, (d, _)) in dialects.iter().enumerate() {
                let group_cfg = LintGroup::new_curated(dict.clone(), *d).config.clone();
                let differing: Vec<&String> = names.iter().filter(|n| group_cfg.is_rule_enabled(n) != table.is_rule_enabled(n)).take(6).collect();
                for rule in differing {
                    let mut only = LintGroup::new_curated(dict.clone(), *d);
                    only.set_all_rules_to(Some(false));
                    only.config.set_rule_enabled(rule.as_str(), true);
                    let mut found = 0;
                    for t in corpus.iter() {
                        if found >= 3 { break; }
                        if catch(|| only.lint(&make_doc(t, "plain")).len()).unwrap_or(0) > 0 {
                            found += 1;
                            jobs.push((t.clone(), serde_json::Map::new(), di));
                            let mut u = serde_json::Map::new();
                            u.insert(rng.pick(&names[..]).clone(), json!(rng.chance(1, 2)));
                            u.remove(rule.as_str());
                            jobs.push((t.clone(), u, di));
                        }
                    }
                }
            }
        }
        for (i, (text, user, di)) in jobs.into_iter().enumerate() {
            let (dialect, wdialect) = dialects[di];
            // expected: the curated group of this dialect, explicit user values on top, unknown names ignored
            let mut want_cfg = LintGroup::new_curated(dict.clone(), dialect).config.clone();
            for (k, v) in &user { if let Value::Bool(b) = v { if names.contains(k) { want_cfg.set_rule_enabled(k, *b); } } }
            let want = catch(|| {
                let mut lg = LintGroup::new_curated(dict.clone(), dialect).with_lint_config(want_cfg.clone());
                lg.lint(&make_doc(&text, "plain")).iter().map(lint_digest).collect::<Vec<_>>()
            });
            let ujson = Value::Object(user.clone());
            let got_wasm = catch(|| {
                let mut l = harper_wasm::Linter::new(wdialect);
                l.set_lint_config_from_json(ujson.to_string()).unwrap();
                // JSON round trip of the stored configuration
                let back = l.get_lint_config_as_json();
                let mut l2 = harper_wasm::Linter::new(wdialect);
                l2.set_lint_config_from_json(back).unwrap();
                let a1: Vec<(usize, usize, String)> = l.lint(text.clone(), harper_wasm::Language::Plain).iter().map(|x| (x.span().start, x.span().end, x.message())).collect();
                let a2: Vec<(usize, usize, String)> = l2.lint(text.clone(), harper_wasm::Language::Plain).iter().map(|x| (x.span().start, x.span().end, x.message())).collect();
                (a1, a2)
            });
            let got_ls = catch(|| {
                let cfg = crate::config::Config::from_lsp_config(json!({"harper-ls": {"linters": ujson}})).unwrap();
                let mut lg = LintGroup::new_curated(dict.clone(), dialect).with_lint_config(cfg.lint_config);
                lg.config.fill_with_curated();
                lg.lint(&make_doc(&text, "plain")).iter().map(lint_digest).collect::<Vec<_>>()
            });
            // the wasm API removes overlaps; compare it on (span, message) against the same treatment of `want`
            let want_wasm = catch(|| {
                let mut lg = LintGroup::new_curated(dict.clone(), dialect).with_lint_config(want_cfg.clone());
                let mut l = lg.lint(&make_doc(&text, "plain"));
                harper_core::remove_overlaps(&mut l);
                l.iter().map(|x| (x.span.start, x.span.end, x.message.clone())).collect::<Vec<_>>()
            });
            if let (Ok(want), Ok((w1, w2)), Ok(ls), Ok(ww)) = (want, got_wasm, got_ls, want_wasm) {
                out.emit(&json!({"ev": "Overlay", "i": i, "text": text, "user": ujson.to_string(), "want": want, "ls": ls, "dialect": format!("{dialect:?}"),
                    "wasm_ok": w1 == ww, "wasm_roundtrip_ok": w1 == w2}));
            }
        }
    }
    println!("{}", json!({"events": out.finish()}));
}

// ------------------------------------------------------------------ C12

/// lower-case dictionary words that are two dictionary words written together, as "first second"
fn split_compounds() -> Vec<String> {
    use harper_core::Dictionary;
    let dict = FstDictionary::curated();
    let mut v = Vec::new();
    for w in dict.words_iter() {
        if w.len() < 6 || w.len() > 11 || !w.iter().all(|c| c.is_ascii_lowercase()) { continue; }
        for k in 3..=w.len() - 3 {
            if dict.contains_exact_word(&w[..k]) && dict.contains_exact_word(&w[k..]) {
                v.push(format!("{} {}", w[..k].iter().collect::<String>(), w[k..].iter().collect::<String>()));
                break;
            }
        }
    }
    v.sort();
    v
}

pub fn c12(a: &Args) {
    let mut out = Out::create(a.req("out"));
    let mut rng = Rng::new(a.num("seed", 1));
    let corpus = read_corpus(a.req("corpus"));
    // paragraphs: corpus sentences without double quotes, made to end in a terminator
    let paras: Vec<String> = corpus.iter().filter(|s| !s.contains(['"', '“', '”']) && !s.contains('\n') && s.chars().count() > 8).map(|s| {
        let t = s.trim_end();
        if t.ends_with(['.', '!', '?']) { t.to_string() } else { format!("{t}.") }
    }).collect();
    let extra_d = ["You have 5.", "4 of them.", "...and so on", "e.g. this", "i.e.", "'s", "st", "nd place", "1st", ". ", "- list",
        "A.", "\"quoted\" text", "etc.", "et al.", "s", "'", ")", "the", "a", "an", "$5", "%", "@home", "😀", "é", "0x1F", "1980s were", "2nd. 3."];
    let n = a.num("pairs", 1000) as usize;
    let mut jobs: Vec<(String, String)> = Vec::new();
    for i in 0..n {
        let mut p = rng.pick(&paras[..]).clone();
        if rng.chance(1, 5) { p = format!("{} {}", p, rng.pick(&paras[..])); }
        if rng.chance(1, 8) { p = format!("{} {}", rng.pick(crate::inputs::MULTIBYTE_FILL), p); }
        // sentence-final tokens that interact with condensing: number, initialism, abbreviation
        match rng.below(12) { 0 => p = format!("{} I have 4.", p), 1 => p = format!("{} See plan A.", p), 2 => p = format!("{} It was e.g.", p), 3 => p = format!("{} It is the 2nd.", p), _ => {} }
        p.push_str(if rng.chance(1, 6) { "\n\n\n" } else { "\n\n" });
        let d = match i % 6 {
            0 => rng.pick(&corpus[..]).clone(),
            1 => crate::inputs::compose(&corpus, &mut rng),
            2 => { let t = rng.pick(&corpus[..]); let cs: Vec<char> = t.chars().collect(); cs[..rng.range(0, cs.len())].iter().collect() }
            3 => extra_d[rng.below(extra_d.len())].to_string(),
            4 => format!("{} {}", extra_d[rng.below(extra_d.len())], rng.pick(&corpus[..])),
            _ => rng.pick(&paras[..]).clone(),
        };
        if d.starts_with('\n') { continue; }
        jobs.push((p.clone(), d.clone()));
        // targeted shapes across the break: D starts with P's last word (repetition), with a lower-case
        // word (capitalisation), with a vowel/consonant word after P ends in a/an, with a number
        // suffix, a closing bracket, a conjunction ...
        if i % 4 == 0 {
            let body = p.trim_end();
            let body = body.trim_end_matches(['.', '!', '?']);
            if let Some(last) = body.split(|c: char| !c.is_alphanumeric() && c != '\'').filter(|w| !w.is_empty()).last() {
                jobs.push((p.clone(), format!("{last} {}", d)));
                jobs.push((p.clone(), format!("{} again and {}", last.to_lowercase(), d)));
            }
            for head in ["a", "an", "the the", "and", "apple", "then", "of", "to", "st", "s", "i", "its", "and, so", "however", "1", "th"] {
                if rng.chance(1, 6) { jobs.push((p.clone(), format!("{head} {}", d))); }
            }
            // D opens with white space or with something that is special at the start of a line / document
            for lead in ["  ", "\t", " ", "    ", "\t\t", "\u{a0}", "- ", "* ", "> ", "# ", "1. ", "-- ", "--- ", "...", "(", "—"] {
                if rng.chance(1, 5) { jobs.push((p.clone(), format!("{lead}{}", d))); }
            }
            // P ending in a word that pairs up with D's first word in some rule
            for tail in ["It was a.", "He had an.", "This is the.", "We want to.", "They could.", "There is.", "I saw the the.", "She is better.", "It is more.", "Back in the.", "Last but not."] {
                if rng.chance(1, 8) { jobs.push((format!("{} {}\n\n", body, tail), d.clone())); }
            }
        }
    }
    // both paragraphs from sentences on which one rule's sub-rules flag the same words (split compounds after a
    // possessive / article and before a modal, pronoun-contraction mix-ups, "lets", currency): whatever a rule does to
    // reconcile its own lints is done per document, and must give per paragraph what it gives alone
    {
        let splits = split_compounds();
        let frames = ["The {} will break soon.", "The device's {} will be updated overnight.", "A {} might help.", "My {} can wait.", "Her {} is new.",
            "This {} should work.", "Its {} was lost.", "Their {} could fail."];
        let fixed = ["Your welcome to try.", "There going home and your right.", "Lets go now, lets see.", "I hop you are well.", "It costs 5$ and 10 $.",
            "Its a shame that its broken.", "Whose there and who's book is it.", "He could of gone."];
        let mut pick = |rng: &mut Rng| -> String {
            if rng.chance(3, 4) && !splits.is_empty() { { let sp: String = rng.pick(&splits[..]).clone(); rng.pick(&frames[..]).replace("{}", &sp) } } else { rng.pick(&fixed[..]).to_string() }
        };
        for _ in 0..(n / 4).max(20) {
            let mut p = pick(&mut rng);
            if rng.chance(1, 3) { p = format!("{} {}", p, pick(&mut rng)); }
            if rng.chance(1, 3) { p = format!("{}\n\n{}", p, rng.pick(&paras[..])); }
            let d = if rng.chance(1, 4) { format!("{} {}", pick(&mut rng), pick(&mut rng)) } else { pick(&mut rng) };
            jobs.push((format!("{p}\n\n"), d));
        }
    }
    let evs = par_map(jobs.len(), a.num("threads", 12) as usize, |_| front::all_rules_group(Dialect::American), |lg, i| {
        let (p, d) = &jobs[i];
        let shift = p.chars().count();
        let pd = format!("{p}{d}");
        let mut run = |t: &str, by: usize| -> Result<Vec<String>, String> {
            catch(|| lg.lint(&make_doc(t, "plain")).into_iter().map(|mut l| { l.span.start += by; l.span.end += by; lint_digest(&l) }).collect())
        };
        let pair = match (run(p, 0), run(d, shift), run(&pd, 0)) {
            (Ok(lp), Ok(ld), Ok(lpd)) => json!({"ev": "Pair", "p": p, "d": d, "lenP": shift, "lp": lp, "ld": ld, "lpd": lpd}),
            _ => json!({"ev": "PairPanic", "p": p, "d": d}),
        };
        // how the joined document is cut into chunks / sentences / paragraphs (every 4th pair)
        let seg = if i % 4 == 0 { catch(|| seg_event(&make_doc(&pd, "plain"), &pd)).ok() } else { None };
        (pair, seg)
    });
    for (e, s) in evs { out.emit(&e); if let Some(s) = s { out.emit(&s); } }
    // the cuts for Markdown documents and for the targeted kind strings
    for i in 0..(a.num("pairs", 1000) as usize / 40) {
        let t = if i % 2 == 0 { let prose = rng.pick(&corpus[..]).clone(); crate::inputs::markdown_doc(&prose, &mut rng) } else { crate::inputs::compose(&corpus, &mut rng) };
        if let Ok(e) = catch(|| seg_event(&make_doc(&t, "md"), &t)) { out.emit(&e); }
    }
    for t in ["", " ", ".", "a", "a.", "a. b", "a.\n\nb", "a\n\nb\n\nc", "a, b: c; d. e! f? g", "\n\n", "a\n\n", "\n\na", "a.\n\n\n\nb.", "\"a,\" b.", "a\n\nb.\n\nc d\n\n"] {
        if let Ok(e) = catch(|| seg_event(&make_doc(t, "plain"), t)) { out.emit(&e); }
    }
    println!("{}", json!({"events": out.finish()}));
}

/// Kind letters of SegmentsOps.tla and the slices the three iterators return (1-based, inclusive).
fn seg_event(doc: &Document, text: &str) -> Value {
    use harper_core::{Punctuation, TokenKind, TokenStringExt};
    let toks = doc.get_tokens();
    let kinds: Vec<&str> = toks.iter().map(|t| match &t.kind {
        TokenKind::Word(_) => "W",
        TokenKind::Space(_) => "S",
        TokenKind::Newline(_) => "N",
        TokenKind::ParagraphBreak => "G",
        TokenKind::Punctuation(Punctuation::Comma) => "C",
        TokenKind::Punctuation(Punctuation::Quote(_)) => "Q",
        TokenKind::Punctuation(Punctuation::Colon) => "K",
        TokenKind::Punctuation(Punctuation::Period) => "P",
        TokenKind::Punctuation(Punctuation::Bang) => "B",
        TokenKind::Punctuation(Punctuation::Question) => "U",
        _ => "O",
    }).collect();
    let base = toks.as_ptr() as usize;
    let sz = std::mem::size_of::<harper_core::Token>();
    let slices = |it: Vec<&[harper_core::Token]>| -> Vec<Value> {
        it.iter().map(|s| { let from = (s.as_ptr() as usize - base) / sz; json!([from + 1, from + s.len()]) }).collect()
    };
    json!({"ev": "Seg", "text": text, "kinds": kinds,
        "chunks": slices(toks.iter_chunks().collect()), "sentences": slices(toks.iter_sentences().collect()),
        "paragraphs": slices(toks.iter_paragraphs().collect())})
}

// ------------------------------------------------------------------ C14

/// Property-level identity of a lint for ignoring purposes: kind/message/suggestions, the
/// flagged text, and the tokens within two characters before and after it.
fn pid(l: &Lint, doc: &Document, loose: bool) -> String {
    let src = doc.get_source();
    let s = l.span.start.min(src.len());
    let e = l.span.end.min(src.len());
    // the flagged text as the tokens under the lint spell it (markup between them - `teh_ *teh` - is no part of it)
    let flagged: String = doc.get_tokens().iter().filter(|t| t.span.start < e && s < t.span.end)
        .map(|t| src[t.span.start.min(src.len())..t.span.end.min(src.len())].iter().collect::<String>()).collect::<Vec<_>>().join("\u{1}");
    let tok_texts = |a: usize, b: usize| -> Vec<String> {
        if a >= b { return vec![]; }
        // (zero-width structural tokens are no part of it: they hold no text and come and go with what is written
        // elsewhere - the code left them out of the context too, since its repair "zero-width tokens")
        doc.get_tokens().iter().filter(|t| t.span.start < b && a < t.span.end && t.span.end > t.span.start)
            // loose identity: only "words" (anything that is not white space or a structural break)
            .filter(|t| !loose || !(t.kind.is_whitespace() || matches!(t.kind, harper_core::TokenKind::ParagraphBreak)))
            .map(|t| src[t.span.start..t.span.end.min(src.len())].iter().collect::<String>()).collect()
    };
    let before = tok_texts(s.saturating_sub(2), s);
    let after = tok_texts(e, (e + 2).min(src.len()));
    digest(&format!("{:?}|{:?}|{}|{}|{}|{:?}|{:?}", l.lint_kind, l.suggestions, l.message, l.priority, flagged, before, after))
}

fn lint_entry(l: &Lint, doc: &Document) -> Value {
    json!({"id": lint_digest(l), "pid": pid(l, doc, false), "lpid": pid(l, doc, true), "s": l.span.start, "e": l.span.end})
}

pub fn c14(a: &Args) {
    use harper_core::IgnoredLints;
    let mut out = Out::create(a.req("out"));
    let mut rng = Rng::new(a.num("seed", 1));
    let corpus = read_corpus(a.req("corpus"));
    let special = ["A *teh* and _errorz_ here.", "See `wich` one and **an apple**.", "_teh_ *teh* teh", "teh teh", "teh teh teh cat.", "He said \"an test\" today.", "\"teh\" is wrong and \"teh\" again.", "(teh) and [teh]",
        "an apple and an test and an orange.", "teh cat. teh dog.", "The the cat saw teh dog, teh cat and teh bird.",
        "\"teh", "a teh", "I has an test. You has an test.", "this sentence. this sentence.", "Very long mispelled wordd here and mispelled wordd there."];
    let far_pre = ["Some intro words here.\n\n", "\"Quoted\" intro words.\n\n", "An earlier paragraph with teh typo.\n\n", "Ünïcödé 😀 first.\n\n"];
    let far_post = ["\n\nMore words follow here.", "\n\nA \"quoted\" closing remark.", "\n\nAnother teh typo later."];
    let nsess = a.num("sessions", 300) as usize;
    let mut sessions: Vec<(String, u64, &str)> = Vec::new();
    for s in special { for k in 0..4 { sessions.push((s.to_string(), k, "plain")); } }
    for i in 0..nsess {
        let t = if i % 3 == 0 { crate::inputs::compose(&corpus, &mut rng) } else { rng.pick(&corpus[..]).clone() };
        sessions.push((t, rng.next(), "plain"));
    }
    // Markdown structure around the flagged words: loose and nested lists, quotes, headings, tables (block ends
    // are tokens of their own; a lint's identity is taken from the tokens around it)
    let typo_sentences: Vec<String> = corpus.iter().filter(|s| !s.contains('\n') && s.chars().count() > 12 && s.chars().count() < 90).cloned().collect();
    for i in 0..a.num("md-sessions", nsess as u64 / 2) as usize {
        let mut sent = |rng: &mut Rng| -> String {
            let t = rng.pick(&typo_sentences[..]).clone();
            // (the last three end the block right behind the flagged word, with and without closing markup)
            match rng.below(7) { 0 => format!("{t} It has teh typo."), 1 => format!("An test: {t}"), 2 => format!("{t} {}", rng.pick(&special[..])),
                3 => format!("{t} I like **teh.**"), 4 => format!("{t} I like teh"), 5 => format!("{t} Read [the teh.](http://example.com)"), _ => t }
        };
        let (a1, b1, c1, d1) = (sent(&mut rng), sent(&mut rng), sent(&mut rng), sent(&mut rng));
        let t = match i % 9 {
            0 => format!("- {a1}\n\n- {b1}\n\n- {c1}\n\n{d1}"),
            1 => format!("- item\n  - {a1}\n- {b1}\n\n{c1}"),
            2 => format!("1. {a1}\n\n   {b1}\n\n2. {c1}\n"),
            3 => format!("> {a1}\n>\n> {b1}\n\n{c1}"),
            4 => format!("# {a1}\n\n{b1}\n\n## {c1}\n\n{d1}\n"),
            5 => format!("- {a1}\n  - {b1}\n    - {c1}\n\n{d1}"),
            6 => format!("* {a1}\n\n  > {b1}\n\n* {c1}\n\n{d1}"),
            7 => format!("| a | b |\n|---|---|\n| {a1} | {b1} |\n\n{c1}"),
            _ => crate::inputs::markdown_doc(&a1, &mut rng),
        };
        sessions.push((t, rng.next(), "md"));
    }
    let evs = par_map(sessions.len(), a.num("threads", 12) as usize, |_| front::all_rules_group(Dialect::American), |lg, i| {
        let (text, s, lang) = &sessions[i];
        let wlang = || if *lang == "md" { harper_wasm::Language::Markdown } else { harper_wasm::Language::Plain };
        let mut r = Rng::new(*s);
        let mut evs = vec![json!({"ev": "Reset", "text": text})];
        let res = catch(|| {
            let mut evs2 = Vec::new();
            let mut ignored = IgnoredLints::new();
            let mut wasm = if *s % 3 == 0 { Some(harper_wasm::Linter::new(harper_wasm::Dialect::American)) } else { None };
            let mut cur = text.clone();
            let mut last_ignored: Option<(usize, usize)> = None;
            for step in 0..4 {
                let doc = make_doc(&cur, lang);
                let all = lg.lint(&doc);
                let mut vis = all.clone();
                ignored.remove_ignored(&mut vis, &doc);
                let wkeys: Option<Vec<(usize, usize, String)>> = wasm.as_mut().map(|w| {
                    w.lint(cur.clone(), wlang()).iter().map(|x| (x.span().start, x.span().end, x.message())).collect()
                });
                let all_j: Vec<Value> = all.iter().map(|l| {
                    let mut e = lint_entry(l, &doc);
                    // shown by the JS-facing linter? (it also drops overlapping lints, so only
                    // "ignored => not shown" is checked for it)
                    e["wv"] = json!(wkeys.as_ref().map(|k| k.contains(&(l.span.start, l.span.end, l.message.clone()))).unwrap_or(false));
                    e
                }).collect();
                let ev = json!({"ev": "Lints", "text": cur, "all": all_j, "wasm": wkeys.is_some(),
                    "visible": vis.iter().map(|l| lint_digest(l)).collect::<Vec<_>>()});
                evs2.push(ev);
                if all.is_empty() { break; }
                match step {
                    0 | 2 => {
                        // ignore one visible lint
                        if vis.is_empty() { continue; }
                        let k = r.below(vis.len());
                        ignored.ignore_lint(&vis[k], &doc);
                        last_ignored = Some((vis[k].span.start, vis[k].span.end));
                        let mut wasm_done = false;
                        if let Some(w) = wasm.as_mut() {
                            let wl = w.lint(cur.clone(), wlang());
                            if let Some(x) = wl.into_iter().find(|x| x.span().start == vis[k].span.start && x.span().end == vis[k].span.end && x.message() == vis[k].message) {
                                // the page may have been looked at as Markdown in the meantime
                                if r.chance(1, 2) { let _ = w.lint(cur.clone(), if *lang == "md" { harper_wasm::Language::Plain } else { harper_wasm::Language::Markdown }); }
                                w.ignore_lint(cur.clone(), x);
                                wasm_done = true;
                            }
                        }
                        evs2.push(json!({"ev": "Ignored", "w": wasm_done, "pid": pid(&vis[k], &doc, false), "lpid": pid(&vis[k], &doc, true), "id": lint_digest(&vis[k]),
                            "wkey": format!("{}-{}", vis[k].span.end - vis[k].span.start, vis[k].message)}));
                    }
                    1 => {
                        // edit far away from everything that was ignored, or round-trip the list
                        match r.below(6) {
                            4 | 5 => {
                                // alter the nearest word that is at least three characters away from the ignored lint
                                if let Some((is, ie)) = last_ignored {
                                    let chars: Vec<char> = cur.chars().collect();
                                    let mut best: Option<(usize, usize)> = None; // (distance, token start)
                                    for t in doc.get_tokens() {
                                        if !t.kind.is_word() || t.span.end <= t.span.start { continue; }
                                        let d = if t.span.end + 3 <= is { is - t.span.end } else if t.span.start >= ie + 3 { t.span.start - ie } else { continue };
                                        if best.map(|b| d < b.0).unwrap_or(true) { best = Some((d, t.span.start)); }
                                    }
                                    if let Some((_, at)) = best {
                                        let mut c2 = chars.clone();
                                        c2[at] = if c2[at] == 'q' { 'z' } else if c2[at].is_uppercase() { 'Q' } else { 'q' };
                                        cur = c2.iter().collect();
                                        evs2.push(json!({"ev": "Edit", "kind": "alter", "at": at}));
                                    }
                                }
                            }
                            0 | 1 if *lang == "md" => {
                                // whole paragraphs of any length, in front or behind
                                let k = r.range(1, 8);
                                let para: String = (0..k).map(|_| r.pick(&typo_sentences[..]).clone()).collect::<Vec<_>>().join(" ");
                                if r.chance(1, 2) { cur = format!("{para}\n\n{cur}"); evs2.push(json!({"ev": "Edit", "kind": "prepend"})); }
                                else { cur = format!("{}\n\n{para}", cur.trim_end()); evs2.push(json!({"ev": "Edit", "kind": "append"})); }
                            }
                            0 => { cur = format!("{}{}", far_pre[r.below(far_pre.len())], cur); evs2.push(json!({"ev": "Edit", "kind": "prepend"})); }
                            1 => { cur = format!("{}{}", cur.trim_end(), far_post[r.below(far_post.len())]); evs2.push(json!({"ev": "Edit", "kind": "append"})); }
                            2 => {
                                let j = serde_json::to_string(&ignored).unwrap();
                                ignored = serde_json::from_str(&j).unwrap();
                                evs2.push(json!({"ev": "ExportImport", "n": j.len()}));
                            }
                            _ => {
                                if let Some(w) = wasm.as_mut() {
                                    let j = w.export_ignored_lints();
                                    w.clear_ignored_lints();
                                    w.import_ignored_lints(j).unwrap();
                                }
                                evs2.push(json!({"ev": "ExportImport", "n": 0}));
                            }
                        }
                    }
                    _ => {}
                }
            }
            evs2
        });
        match res {
            Ok(v) => evs.extend(v),
            Err(p) => evs.push(json!({"ev": "Panic", "loc": p})),
        }
        evs
    });
    for v in evs { for e in v { out.emit(&e); } }
    // merged ignore lists: two lists ignore different lints of one document; one is exported, its JSON
    // arrays put into another order, and imported INTO the other (harper-wasm's import appends)
    let nmerge = a.num("merge-sessions", 120) as usize;
    let merge_docs: Vec<(String, u64)> = (0..nmerge).map(|_| {
        let t = format!("{} {} {}", crate::inputs::compose(&corpus, &mut rng), rng.pick(&corpus[..]), rng.pick(&corpus[..]));
        (t, rng.next())
    }).collect();
    fn shuffle_arrays(v: &mut Value, r: &mut Rng) {
        match v {
            Value::Array(a) => { for j in (1..a.len()).rev() { a.swap(j, r.below(j + 1)); } for x in a.iter_mut() { shuffle_arrays(x, r); } }
            Value::Object(o) => { for (_, x) in o.iter_mut() { shuffle_arrays(x, r); } }
            _ => {}
        }
    }
    let evs = par_map(merge_docs.len(), a.num("threads", 12) as usize, |_| front::all_rules_group(Dialect::American), |lg, i| {
        let (text, s) = &merge_docs[i];
        let mut r = Rng::new(*s);
        let mut evs = vec![json!({"ev": "Reset", "text": text})];
        let res = catch(|| {
            let mut evs2 = Vec::new();
            let doc = make_doc(text, "plain");
            let all = lg.lint(&doc);
            let use_wasm = *s % 2 == 0;
            let mut w1 = harper_wasm::Linter::new(harper_wasm::Dialect::American);
            let mut w2 = harper_wasm::Linter::new(harper_wasm::Dialect::American);
            let wkeys = |w: &mut harper_wasm::Linter| -> Vec<(usize, usize, String)> {
                w.lint(text.clone(), harper_wasm::Language::Plain).iter().map(|x| (x.span().start, x.span().end, x.message())).collect()
            };
            let k0 = if use_wasm { Some(wkeys(&mut w2)) } else { None };
            let entries = |all: &Vec<Lint>, k: &Option<Vec<(usize, usize, String)>>| -> Vec<Value> {
                all.iter().map(|l| { let mut e = lint_entry(l, &doc);
                    e["wv"] = json!(k.as_ref().map(|k| k.contains(&(l.span.start, l.span.end, l.message.clone()))).unwrap_or(false)); e }).collect()
            };
            evs2.push(json!({"ev": "Lints", "text": text, "all": entries(&all, &k0), "wasm": use_wasm, "visible": all.iter().map(lint_digest).collect::<Vec<_>>()}));
            if all.len() < 2 { return evs2; }
            let (mut l1, mut l2) = (IgnoredLints::new(), IgnoredLints::new());
            let mut picked = 0;
            for l in &all {
                let side = r.below(3);      // 0: first list, 1: second list, 2: not ignored
                if side == 2 || picked >= 8 { continue; }
                picked += 1;
                if side == 0 { l1.ignore_lint(l, &doc); } else { l2.ignore_lint(l, &doc); }
                let mut wasm_done = false;
                if use_wasm {
                    let w = if side == 0 { &mut w1 } else { &mut w2 };
                    if let Some(x) = w.lint(text.clone(), harper_wasm::Language::Plain).into_iter()
                        .find(|x| x.span().start == l.span.start && x.span().end == l.span.end && x.message() == l.message) {
                        w.ignore_lint(text.clone(), x);
                        wasm_done = true;
                    }
                }
                evs2.push(json!({"ev": "Ignored", "w": wasm_done, "pid": pid(l, &doc, false), "lpid": pid(l, &doc, true), "id": lint_digest(l),
                    "wkey": format!("{}-{}", l.span.end - l.span.start, l.message)}));
            }
            // export list 1, reorder, import into list 2
            let mut j: Value = serde_json::from_str(&serde_json::to_string(&l1).unwrap()).unwrap();
            shuffle_arrays(&mut j, &mut r);
            l2.append(serde_json::from_value(j).unwrap());
            if use_wasm {
                let mut j: Value = serde_json::from_str(&w1.export_ignored_lints()).unwrap();
                shuffle_arrays(&mut j, &mut r);
                w2.import_ignored_lints(j.to_string()).unwrap();
            }
            evs2.push(json!({"ev": "ExportImport", "n": picked}));
            let mut vis = all.clone();
            l2.remove_ignored(&mut vis, &doc);
            let k1 = if use_wasm { Some(wkeys(&mut w2)) } else { None };
            evs2.push(json!({"ev": "Lints", "text": text, "all": entries(&all, &k1), "wasm": use_wasm, "visible": vis.iter().map(lint_digest).collect::<Vec<_>>()}));
            evs2
        });
        match res {
            Ok(v) => evs.extend(v),
            Err(p) => evs.push(json!({"ev": "Panic", "loc": p})),
        }
        evs
    });
    for v in evs { for e in v { out.emit(&e); } }
    println!("{}", json!({"events": out.finish()}));
}

/// `hv c14dbg --text T [--lang md]`: ignore each lint in turn and say which lints disappear (for reading replays)
pub fn c14dbg(a: &Args) {
    use harper_core::IgnoredLints;
    let text = a.req("text").replace("\\n", "\n");
    let lang = a.get("lang").unwrap_or("plain");
    let doc = make_doc(&text, lang);
    let mut lg = front::all_rules_group(Dialect::American);
    let all = lg.lint(&doc);
    for (i, l) in all.iter().enumerate() {
        let mut ig = IgnoredLints::new();
        ig.ignore_lint(l, &doc);
        let mut vis = all.clone();
        ig.remove_ignored(&mut vis, &doc);
        let hidden: Vec<usize> = (0..all.len()).filter(|k| !vis.contains(&all[*k])).collect();
        println!("{i}: {}..{} {:?} pid={} hides {:?}", l.span.start, l.span.end, l.message, &pid(l, &doc, false)[..6], hidden);
        if a.get("ctx").is_some() {
            for (name, sp) in [("before", harper_core::Span::new(l.span.start.saturating_sub(2), l.span.start)), ("under", l.span), ("after", harper_core::Span::new_with_len(l.span.end, 2))] {
                println!("    {name}: {}", serde_json::to_string(&doc.fat_tokens_intersecting(sp)).unwrap());
            }
        }
    }
}
