//! C15: all dictionary back-ends agree; fuzzy search returns true near matches.
use std::collections::HashSet;
use std::sync::Arc;

use harper_core::{CharString, Dictionary, FstDictionary, MergedDictionary, MutableDictionary, WordMetadata};
use serde_json::{Value, json};

use crate::util::{Args, Out, Rng, catch, par_map, read_ndjson};

// The model's letters a, b (upper case A, B) stand for one of three concrete alphabets, chosen per case:
// ASCII, two-byte Latin, Cyrillic (byte length and character count differ outside ASCII).
const ALPHABETS: [[char; 4]; 3] = [['a', 'b', 'A', 'B'], ['é', 'ö', 'É', 'Ö'], ['я', 'ж', 'Я', 'Ж']];
thread_local! { static ALPHA: std::cell::Cell<usize> = const { std::cell::Cell::new(0) }; }
fn conc(c: &str) -> char {
    let al = ALPHABETS[ALPHA.with(|a| a.get())];
    match c { "a" => al[0], "b" => al[1], "A" => al[2], "B" => al[3], "q" => '\'', "Q" => '’', _ => '?' }
}
fn abst(c: char) -> &'static str {
    for al in ALPHABETS { for (i, x) in al.iter().enumerate() { if *x == c { return ["a", "b", "A", "B"][i]; } } }
    match c { '\'' => "q", '’' => "Q", _ => "?" }
}
fn word_of(v: &Value) -> Vec<char> {
    v.as_array().unwrap().iter().map(|c| conc(c.as_str().unwrap())).collect()
}
fn abs_word(w: &[char]) -> Vec<&'static str> {
    w.iter().map(|c| abst(*c)).collect()
}

fn mk_mut(ws: &[Vec<char>]) -> MutableDictionary {
    let mut d = MutableDictionary::new();
    for w in ws {
        d.append_word(w, WordMetadata::default());
    }
    d
}
fn mk_fst(ws: &[Vec<char>]) -> FstDictionary {
    FstDictionary::new(ws.iter().map(|w| (w.iter().copied().collect::<CharString>(), WordMetadata::default())).collect())
}

fn exact_answers(d: &dyn Dictionary, q: &[char]) -> Value {
    let qs: String = q.iter().collect();
    let canon = d.get_correct_capitalization_of(q).map(|w| w.to_vec()).unwrap_or_default();
    let str_agree = d.contains_word_str(&qs) == d.contains_word(q)
        && d.contains_exact_word_str(&qs) == d.contains_exact_word(q)
        && d.get_word_metadata_str(&qs).is_some() == d.get_word_metadata(q).is_some();
    json!({"contains": d.contains_word(q), "exact": d.contains_exact_word(q),
           "meta": d.get_word_metadata(q).is_some(), "canon": abs_word(&canon), "str_agree": str_agree})
}

fn fuzzy(d: &dyn Dictionary, q: &[char], bound: u8, cap: usize) -> Value {
    let r = d.fuzzy_match(q, bound, cap);
    Value::Array(r.iter().map(|m| json!({"w": abs_word(m.word), "d": m.edit_distance})).collect())
}

fn small_case(ws_v: &Value, queries: &[Vec<char>], rot: usize) -> Vec<Value> {
    ALPHA.with(|a| a.set((rot / 3) % 3));
    let queries: Vec<Vec<char>> = queries.iter().map(|q| q.iter().map(|c| conc(abst(*c))).collect()).collect();
    let queries = &queries[..];
    let ws: Vec<Vec<char>> = ws_v.as_array().unwrap().iter().map(word_of).collect();
    let mut evs = Vec::new();
    let r = catch(|| {
        let m = mk_mut(&ws);
        let f = mk_fst(&ws);
        let mut out = Vec::new();
        for (qi, q) in queries.iter().enumerate() {
            let bound = ((qi + rot) % 3) as u8;
            let cap = [1usize, 2, 10][(qi / 3 + rot) % 3];
            let mut merged = Vec::new();
            for k in 0..=ws.len() {
                let mut md = MergedDictionary::new();
                md.add_dictionary(Arc::new(mk_mut(&ws[..k])));
                md.add_dictionary(Arc::new(mk_mut(&ws[k..])));
                let mut a = exact_answers(&md, q);
                a["k"] = json!(k);
                a["fz"] = fuzzy(&md, q, bound, cap);
                merged.push(a);
            }
            out.push(json!({"ev": "Q", "ws": ws_v, "q": abs_word(q), "bound": bound, "cap": cap, "alphabet": ALPHABETS[ALPHA.with(|a| a.get())].iter().collect::<String>(),
                "mut": exact_answers(&m, q), "fst": exact_answers(&f, q), "merged": merged,
                "fzmut": fuzzy(&m, q, bound, cap), "fzfst": fuzzy(&f, q, bound, cap)}));
        }
        out
    });
    match r {
        Ok(v) => evs.extend(v),
        Err(p) => evs.push(json!({"ev": "Panic", "ws": ws_v, "loc": p})),
    }
    evs
}

fn cps(w: &[char]) -> Vec<u32> {
    w.iter().map(|c| *c as u32).collect()
}

pub fn main(a: &Args) {
    let mut out = Out::create(a.req("out"));
    let mut rng = Rng::new(a.num("seed", 1));
    if let Some(cases) = a.get("cases") {
        let cases = read_ndjson(cases);
        let chars: Vec<char> = a.get("chars").unwrap_or("abAB'").chars().collect();
        // all queries of length <= 2 over the alphabet, plus a few of length 3
        let mut queries: Vec<Vec<char>> = vec![vec![]];
        for c in &chars { queries.push(vec![*c]); }
        for c in &chars { for d in &chars { queries.push(vec![*c, *d]); } }
        for _ in 0..6 { queries.push((0..3).map(|_| *rng.pick(&chars[..])).collect()); }
        let stride = a.num("stride", 1) as usize;
        let sel: Vec<&Value> = cases.iter().enumerate().filter(|(i, _)| i % stride == (a.num("seed", 1) as usize % stride)).map(|(_, c)| c).collect();
        let evs = par_map(sel.len(), a.num("threads", 12) as usize, |_| (), |_, i| small_case(sel[i], &queries, i));
        for v in evs { for e in v { out.emit(&e); } }
    }
    // the string-taking and the character-taking form of every lookup answer alike, also where lower-casing a whole
    // string is not lower-casing its characters (a final capital sigma, the dotted capital I, sharp s, ligatures)
    if a.get("cases").is_some() {
        let words = ["ΟΔΟΣ", "λόγος", "ΣΟΦΟΣ", "Σ", "ΑΣΑ", "İstanbul", "STRASSE", "straße", "ǅ", "ﬁn", "Ὀδυσσεύς", "ΌΣΟΣ", "Zoë", "ÅNGSTRÖM"];
        let dicts: Vec<(&str, Box<dyn Dictionary>)> = {
            let ws: Vec<Vec<char>> = words.iter().map(|w| w.chars().collect()).collect();
            let mut md = MergedDictionary::new();
            md.add_dictionary(Arc::new(mk_mut(&ws[..5])));
            md.add_dictionary(Arc::new(mk_fst(&ws[5..])));
            vec![("mutable", Box::new(mk_mut(&ws)) as Box<dyn Dictionary>), ("fst", Box::new(mk_fst(&ws))), ("merged", Box::new(md))]
        };
        for (name, d) in &dicts {
            for w in words {
                for q in [w.to_string(), w.to_lowercase(), w.to_uppercase(), w.chars().flat_map(|c| c.to_lowercase()).collect::<String>(), w.chars().flat_map(|c| c.to_uppercase()).collect::<String>()] {
                    let qc: Vec<char> = q.chars().collect();
                    let agree = d.contains_word_str(&q) == d.contains_word(&qc) && d.contains_exact_word_str(&q) == d.contains_exact_word(&qc)
                        && d.get_word_metadata_str(&q).is_some() == d.get_word_metadata(&qc).is_some();
                    out.emit(&json!({"ev": "StrAgree", "dict": name, "q": q, "agree": agree}));
                }
            }
        }
    }
    // curated dictionary: sampled words, re-cased, edited, apostrophe variants, odd queries
    let nq = a.num("curated-queries", 0) as usize;
    if nq > 0 {
        let fst = FstDictionary::curated();
        let mutd = MutableDictionary::curated();
        let mut merged = MergedDictionary::new();
        merged.add_dictionary(fst.clone());
        let user = mk_mut(&["zzyzx".chars().collect(), "Harperish".chars().collect(), "teh".chars().collect()]);
        merged.add_dictionary(Arc::new(user.clone()));
        let all: Vec<Vec<char>> = fst.words_iter().map(|w| w.to_vec()).collect();
        let mut sorted = all.clone();
        sorted.sort();
        let set: HashSet<Vec<char>> = all.iter().cloned().chain(user.words_iter().map(|w| w.to_vec())).collect();
        let letters: Vec<char> = "abcdefghijklmnopqrstuvwxyz'".chars().collect();
        let mut queries: Vec<Vec<char>> = Vec::new();
        for i in 0..nq {
            let w = sorted[rng.below(sorted.len())].clone();
            if w.len() > 20 { continue; }
            let mut q = w.clone();
            match i % 8 {
                0 => {}
                1 => q = q.iter().map(|c| c.to_ascii_uppercase()).collect(),
                2 => { if !q.is_empty() { q[0] = q[0].to_ascii_uppercase(); } }
                3 | 4 | 5 => {
                    for _ in 0..rng.range(1, 3) {
                        let pos = rng.below(q.len() + 1);
                        match rng.below(3) {
                            0 => q.insert(pos, *rng.pick(&letters[..])),
                            1 => { if pos < q.len() { q.remove(pos); } }
                            _ => { if pos < q.len() { q[pos] = *rng.pick(&letters[..]); } }
                        }
                    }
                    q = q.iter().map(|c| c.to_ascii_lowercase()).collect();
                }
                6 => q = q.iter().map(|c| if *c == '\'' { '’' } else { *c }).collect(),
                _ => q = (0..rng.range(1, 9)).map(|_| *rng.pick(&letters[..])).collect(),
            }
            queries.push(q);
        }
        for s in ["", "é", "naïve", "日本", "😀", "a", "I", "don’t", "dont", "zzyzx", "ZZYZX", "harperish", "tehh"] {
            queries.push(s.chars().collect());
        }
        queries.push("pneumonoultramicroscopicsilicovolcanoconiosisxyzabcdefghijklmnopqrstuv".chars().collect());
        let evs = par_map(queries.len(), a.num("threads", 12) as usize, |_| (), |_, i| {
            let q = &queries[i];
            // six distinct bounds, so that whatever a thread keeps per bound (automaton builders) gets recycled
            let bound = [0u8, 1, 2, 3, 4, 5, 2, 1, 3, 0, 4, 2][i % 12];
            let cap = [1usize, 3, 10, 100][(i / 4) % 4];
            let r = catch(|| {
                let f = fst.fuzzy_match(q, bound, cap);
                let m = mutd.fuzzy_match(q, bound, cap);
                let g = merged.fuzzy_match(q, bound, cap);
                let conv = |r: &Vec<harper_core::spell::FuzzyMatchResult>| -> Vec<Value> {
                    r.iter().map(|x| json!({"w": cps(x.word), "d": x.edit_distance, "indict": set.contains(x.word)})).collect()
                };
                let qs: String = q.iter().collect();
                let agree = fst.contains_word(q) == mutd.contains_word(q)
                    && fst.contains_exact_word(q) == mutd.contains_exact_word(q)
                    && fst.get_correct_capitalization_of(q) == mutd.get_correct_capitalization_of(q)
                    && fst.get_word_metadata(q) == mutd.get_word_metadata(q)
                    && fst.contains_word_str(&qs) == fst.contains_word(q)
                    && merged.contains_exact_word_str(&qs) == merged.contains_exact_word(q)
                    && merged.contains_word(q) == (fst.contains_word(q) || user.contains_word(q))
                    && merged.contains_exact_word(q) == (fst.contains_exact_word(q) || user.contains_exact_word(q));
                let qn: Vec<char> = q.iter().map(|c| if matches!(*c, '’' | '‘' | '＇') { '\'' } else { *c }).collect();
                let ql: Vec<char> = qn.iter().flat_map(|c| c.to_lowercase()).collect();
                json!({"ev": "F", "q": cps(q), "qn": cps(&qn), "ql": cps(&ql), "lower": qn == ql,
                    "bound": bound, "cap": cap, "fst": conv(&f), "mut": conv(&m), "merged": conv(&g), "agree": agree,
                    "qs": qs})
            });
            match r {
                Ok(v) => v,
                Err(p) => json!({"ev": "Panic", "q": cps(q), "loc": p}),
            }
        });
        for e in evs { out.emit(&e); }
        // the distance function on random pairs (also long, non-ASCII)
        for _ in 0..a.num("dist-pairs", 0) {
            let pool: Vec<char> = "abcé世'".chars().collect();
            let x: Vec<char> = (0..rng.below(12)).map(|_| *rng.pick(&pool[..])).collect();
            let y: Vec<char> = if rng.chance(1, 2) {
                let mut y = x.clone();
                for _ in 0..rng.below(4) { if !y.is_empty() { let p = rng.below(y.len()); y[p] = *rng.pick(&pool[..]); } }
                y
            } else { (0..rng.below(12)).map(|_| *rng.pick(&pool[..])).collect() };
            // the distance function is crate-private; reach it through a one-word dictionary
            let d = mk_mut(&[y.clone()]);
            let r = d.fuzzy_match(&x, 30, 5);
            let got = r.first().map(|m| m.edit_distance as i64).unwrap_or(-1);
            out.emit(&json!({"ev": "Dist", "a": cps(&x), "b": cps(&y), "d": got,
                "upper": x.iter().any(|c| c.is_uppercase())}));
        }
    }
    println!("{}", json!({"events": out.finish()}));
}
