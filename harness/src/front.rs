//! Front-ends (parsers) and linter construction shared by the drivers.
use std::sync::Arc;

use harper_comments::CommentParser;
use harper_core::linting::{Lint, LintGroup, Linter};
use harper_core::parsers::{CollapseIdentifiers, IsolateEnglish, Markdown, MarkdownOptions, Parser, PlainEnglish};
use harper_core::{Dialect, Document, FstDictionary};
use harper_html::HtmlParser;
use harper_literate_haskell::LiterateHaskellParser;
use harper_typst::Typst;

use crate::git_commit_parser::GitCommitParser;

pub const COMMENT_LANGS: &[&str] = &[
    "rust", "typescriptreact", "typescript", "python", "nix", "javascript", "javascriptreact",
    "go", "c", "cpp", "cmake", "ruby", "swift", "csharp", "toml", "lua", "shellscript", "java",
    "haskell", "php", "dart", "scala",
];

pub const BASE_FRONTS: &[&str] = &[
    "plain", "markdown", "markdown-nolinktitle", "html", "typst", "lhaskell", "git-commit",
];

pub fn all_front_names() -> Vec<String> {
    let mut v: Vec<String> = BASE_FRONTS.iter().map(|s| s.to_string()).collect();
    v.extend(COMMENT_LANGS.iter().map(|s| s.to_string()));
    v
}

pub fn md_opts(link_title: bool) -> MarkdownOptions {
    let mut o = MarkdownOptions::default();
    o.ignore_link_title = !link_title;
    o
}

/// Build the parser harper-ls would use for this language id (without wrappers).
pub fn base_parser(name: &str) -> Option<Box<dyn Parser>> {
    let mo = MarkdownOptions::default();
    Some(match name {
        "plain" => Box::new(PlainEnglish),
        "markdown" => Box::new(Markdown::new(md_opts(true))),
        "markdown-nolinktitle" => Box::new(Markdown::new(md_opts(false))),
        "html" => Box::new(HtmlParser::default()),
        "typst" => Box::new(Typst),
        "lhaskell" => Box::new(LiterateHaskellParser::new_markdown(mo)),
        "git-commit" => Box::new(GitCommitParser::new_markdown(mo)),
        other => Box::new(CommentParser::new_from_language_id(other, mo)?),
    })
}

/// wrapper: 0 none, 1 CollapseIdentifiers, 2 IsolateEnglish, 3 both
pub fn wrapped_parser(name: &str, wrapper: u8) -> Option<Box<dyn Parser>> {
    let mut p = base_parser(name)?;
    let dict = FstDictionary::curated();
    if wrapper & 1 != 0 {
        p = Box::new(CollapseIdentifiers::new(p, Box::new(dict.clone())));
    }
    if wrapper & 2 != 0 {
        p = Box::new(IsolateEnglish::new(p, dict.clone()));
    }
    Some(p)
}

pub fn dialects() -> [Dialect; 4] {
    [Dialect::American, Dialect::British, Dialect::Australian, Dialect::Canadian]
}

pub fn all_rules_group(dialect: Dialect) -> LintGroup {
    let mut lg = LintGroup::new_curated(FstDictionary::curated(), dialect);
    lg.set_all_rules_to(Some(true));
    lg
}

pub fn curated_group(dialect: Dialect) -> LintGroup {
    LintGroup::new_curated(FstDictionary::curated(), dialect)
}

pub fn lint_plain(lg: &mut LintGroup, text: &str) -> Vec<Lint> {
    let doc = Document::new(text, &PlainEnglish, &FstDictionary::curated());
    lg.lint(&doc)
}

/// The dictionary the applications really use: curated + a mutable part (user words, identifiers) with words of
/// many lengths, among them letters whose case mapping changes their length.
pub fn user_merged() -> std::sync::Arc<harper_core::MergedDictionary> {
    use harper_core::{MergedDictionary, MutableDictionary, WordMetadata};
    static D: std::sync::OnceLock<std::sync::Arc<MergedDictionary>> = std::sync::OnceLock::new();
    D.get_or_init(|| {
        let mut user = MutableDictionary::new();
        let words = ["a", "ab", "zq", "zzyzxq", "shipParcel", "parcel", "istanbul", "İzmir", "naïveté", "straße", "ǅungla", "harperish",
            "abcdefghijklmnop", "github", "O'Zzyzx", "x86_64", "foo_bar", "ﬁnal"];
        user.extend_words(words.iter().map(|w| (w.chars().collect::<Vec<char>>(), WordMetadata::default())));
        let mut m = MergedDictionary::new();
        m.add_dictionary(FstDictionary::curated());
        m.add_dictionary(std::sync::Arc::new(user));
        std::sync::Arc::new(m)
    }).clone()
}

pub fn doc_with_dict(text: &str, parser: &dyn Parser, dict: &impl harper_core::Dictionary) -> Document {
    struct P<'a>(&'a dyn Parser);
    impl Parser for P<'_> {
        fn parse(&self, source: &[char]) -> Vec<harper_core::Token> {
            self.0.parse(source)
        }
    }
    Document::new(text, &P(parser), dict)
}

pub fn doc_with(text: &str, parser: &dyn Parser) -> Document {
    struct P<'a>(&'a dyn Parser);
    impl Parser for P<'_> {
        fn parse(&self, source: &[char]) -> Vec<harper_core::Token> {
            self.0.parse(source)
        }
    }
    Document::new(text, &P(parser), &FstDictionary::curated())
}

pub fn curated_dict() -> Arc<FstDictionary> {
    FstDictionary::curated()
}
