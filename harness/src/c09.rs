//! C09: the language server's last word on a document reflects the latest text.
//! Sessions on the real Backend: a sequential prefix, then one batch of messages sent back to
//! back whose handlers are interleaved according to an explicit schedule.
use std::path::PathBuf;
use std::time::Duration;

use serde_json::{Value, json};

use crate::ls::{Ls, flagged_words, with_runtime};
use crate::util::{Args, Out, Rng};

// every text has its own misspelling, and every configuration leaves its own mark on every text, so the published
// diagnostics identify the (text, configuration) pairs they can have been computed from
const TEXTS: [(&str, &str, &str); 4] = [("A", "alpha teh one colour and 3 apples apples", "teh"), ("B", "beta wich two colour and 4 pears pears", "wich"),
    ("C", "gamma zzyzxq three colour and 5 plums plums", "zzyzxq"), ("D", "delta qwertzuv four colour and 6 figs figs", "qwertzuv")];
// (id, linters, dialect): default; a default-off rule on; spelling off; another dialect; default-on rules off
const CONFIGS: [(&str, &str, &str); 5] = [("c0", "{}", "American"), ("c1", r#"{"SpelledNumbers":true}"#, "American"),
    ("c2", r#"{"SpellCheck":false}"#, "American"), ("c3", "{}", "British"),
    ("c4", r#"{"SentenceCapitalization":false,"SpelledNumbers":false}"#, "American")];

/// "L": a document of more than 120 000 characters (text A over and over)
fn text_of(id: &str) -> String {
    if id == "L" { return format!("{}\n", TEXTS[0].1).repeat(3400); }
    TEXTS.iter().find(|t| t.0 == id).map(|t| t.1.to_string()).unwrap_or_default()
}
const LANGS: [&str; 6] = ["plaintext", "markdown", "plaintext", "rust", "html", "lhaskell"];
/// what the client sends for a text id in a document of the given language: the Rust document puts the
/// prose into comments around an identifier that also occurs in the prose (the identifier dictionary)
fn text_for(lang: &str, id: &str) -> String {
    let t = text_of(id);
    if lang == "html" { return format!("<html><body><h1>{}</h1>\n<p title=\"zzattr\">{} again</p></body></html>\n", t, t); }
    // the code of texts A/C defines foo_barq, that of B/D foo_bazq; the prose always mentions both: whichever is
    // not defined in the current text is a misspelling (identifiers of earlier versions must not linger)
    let ident = if id == "B" || id == "D" { "foo_bazq" } else { "foo_barq" };
    if lang == "lhaskell" { return format!("{}\n\n> {ident} :: Int\n> {ident} = 1\n\nHere foo_barq and foo_bazq are used {}\n", t, t); }
    if lang == "rust" { format!("// {} and foo_barq or foo_bazq too\nfn {ident}(zq_arg: u8) -> u8 {{ zq_arg }}\n// zq_arg again\n", t.replace('\n', "\n// ")) } else { t }
}
fn diag_digest(diags: &Value) -> String {
    let mut v: Vec<String> = diags.as_array().map(|a| a.iter().map(|d| format!("{}|{}", d["range"], d["message"])).collect()).unwrap_or_default();
    v.sort();
    crate::util::digest(&v.join(";"))
}
type RefTable = std::collections::HashMap<(String, String), Vec<Value>>;
/// What a fresh server publishes for every (text, configuration) in each language: (lang, digest) -> [{t, c}]
fn reference_table(dir: &std::path::Path) -> RefTable {
    let mut tab: RefTable = Default::default();
    for (ci, (cid, linters, dialect)) in CONFIGS.iter().enumerate() {
        let d = dir.join(format!("ref{ci}"));
        std::fs::create_dir_all(&d).unwrap();
        let mut ls = Ls::new(&d);
        ls.settings = crate::ls::settings_for(&d, serde_json::from_str(linters).unwrap(), dialect);
        ls.initialize();
        for (li, lang) in ["plaintext", "markdown", "rust", "html", "lhaskell"].iter().enumerate() {
            for (ti, tid) in ["A", "B", "C", "D", "L"].iter().enumerate() {
                if *tid == "L" && (*lang != "plaintext" || !["c0", "c2"].contains(cid)) { continue; }
                let text = &text_for(lang, tid);
                let uri = format!("untitled:ref-{li}-{ti}");
                let h = ls.did_open(&uri, lang, text);
                ls.run_to_completion(h, Duration::from_secs(120));
                let dg = ls.last_publish(&uri).cloned().unwrap_or(json!([]));
                tab.entry((lang.to_string(), diag_digest(&dg))).or_default().push(json!({"t": tid, "c": cid}));
            }
        }
    }
    tab
}
fn identify(diags: &Value, lang: &str, tab: &RefTable) -> Vec<Value> {
    let mut ids = tab.get(&(lang.to_string(), diag_digest(diags))).cloned().unwrap_or_default();
    if diags.as_array().map(|a| a.is_empty()).unwrap_or(true) { ids.push(json!({"t": "none", "c": ""})); }
    ids
}

#[derive(Clone, Debug)]
struct Msg { kind: String, url: usize, text: String }

struct Sess<'a> { ls: Ls, dir: PathBuf, urls: Vec<String>, paths: Vec<Option<PathBuf>>, evs: Vec<Value>, seq: usize, client: Vec<String>, tab: &'a RefTable, ncfg: usize }

impl<'a> Sess<'a> {
    fn new(dir: PathBuf, tab: &'a RefTable) -> Self {
        std::fs::create_dir_all(&dir).unwrap();
        let p1 = dir.join("two");      // (a sibling whose name begins like this one: `two.md`)
        let p2 = dir.join("two.md");
        std::fs::write(&p1, "").unwrap();
        std::fs::write(&p2, "").unwrap();
        let p4 = dir.join("four.rs");
        std::fs::write(&p4, "").unwrap();
        let p5 = dir.join("five.html");
        let p6 = dir.join("six.lhs");
        std::fs::write(&p5, "").unwrap();
        std::fs::write(&p6, "").unwrap();
        let urls = vec![format!("file://{}", p1.to_string_lossy()), format!("file://{}", p2.to_string_lossy()), "untitled:Untitled-1".to_string(), format!("file://{}", p4.to_string_lossy()),
            format!("file://{}", p5.to_string_lossy()), format!("file://{}", p6.to_string_lossy())];
        let mut ls = Ls::new(&dir);
        ls.initialize();
        Self { ls, dir, urls, paths: vec![Some(p1), Some(p2), None, Some(p4), Some(p5), Some(p6)], evs: vec![json!({"ev": "Reset"})], seq: 0, client: vec![String::new(); 6], tab, ncfg: 0 }
    }
    fn submit(&mut self, m: &Msg) -> usize {
        self.seq += 1;
        let url = self.urls[m.url].clone();
        let lang = LANGS[m.url];
        if m.kind == "open" || m.kind == "change" { self.client[m.url] = m.text.clone(); }
        if m.kind.starts_with("deletedir") { for u in 0..self.client.len() { if self.paths[u].is_some() { self.client[u] = String::new(); } } }
        let shown = if m.kind == "open" || m.kind == "change" { m.text.clone() } else { self.client[m.url].clone() };
        // a configuration change takes the configuration named in the message, or the next one of a fixed walk
        let cfg = if m.kind == "config" {
            self.ncfg += 1;
            let want = CONFIGS.iter().position(|c| c.0 == m.text).unwrap_or([1, 2, 0, 3, 4, 2, 1, 0][(self.ncfg - 1) % 8]);
            let (cid, linters, dialect) = CONFIGS[want];
            self.ls.settings = crate::ls::settings_for(&self.dir, serde_json::from_str(linters).unwrap(), dialect);
            cid
        } else { "" };
        self.evs.push(json!({"ev": "Recv", "seq": self.seq, "kind": m.kind, "url": m.url, "text": shown, "cfg": cfg}));
        match m.kind.as_str() {
            "open" => self.ls.did_open(&url, lang, &text_for(lang, &m.text)),
            "change" => self.ls.did_change(&url, self.seq as i64 + 1, &text_for(lang, &m.text)),
            "save" => {
                // the editor writes the buffer to disk, then notifies
                if let Some(p) = &self.paths[m.url] { std::fs::write(p, text_for(lang, &self.client[m.url])).unwrap(); }
                self.ls.did_save(&url)
            }
            // the file behind the document holds something else than the editor's buffer (written with a byte order
            // mark, or by another program) when the save notification arrives
            "tampersave" => {
                if let Some(p) = &self.paths[m.url] { std::fs::write(p, format!("\u{feff}{}", text_for(lang, "D"))).unwrap(); }
                self.ls.did_save(&url)
            }
            "close" => self.ls.did_close(&url),
            "adduser" => self.ls.exec("HarperAddToUserDict", json!(["harperish", url])),
            "addfile" => self.ls.exec("HarperAddToFileDict", json!(["harperish", url])),
            "config" => self.ls.did_change_configuration(),
            // a pull-model client: the notification carries no settings, the server has to ask
            "confignull" => self.ls.submit("workspace/didChangeConfiguration", json!({"settings": null}), false),
            "delete" => self.ls.submit("workspace/didChangeWatchedFiles", json!({"changes": [{"uri": url, "type": 3}]}), false),
            // the directory that holds the session's files is reported deleted (with or without a trailing slash)
            "deletedir" | "deletedir/" => {
                let dir_uri = format!("file://{}{}", self.dir.to_string_lossy(), if m.kind.ends_with('/') { "/" } else { "" });
                self.ls.submit("workspace/didChangeWatchedFiles", json!({"changes": [{"uri": dir_uri, "type": 3}]}), false)
            }
            _ => unreachable!(),
        }
    }
    fn drain_pubs(&mut self, from: usize) {
        for i in from..self.ls.publishes.len() {
            let (u, d, h) = self.ls.publishes[i].clone();
            let ui = self.urls.iter().position(|x| *x == u).map(|x| x as i64).unwrap_or(-1);
            let lang = if ui >= 0 { LANGS[ui as usize] } else { "plaintext" };
            self.evs.push(json!({"ev": "Pub", "url": ui, "ids": identify(&d, lang, self.tab), "n": d.as_array().map(|a| a.len()).unwrap_or(0), "handler": self.ls.handlers[h].label}));
        }
    }
    /// the client's settings change but no notification is sent: the server finds out when it next asks
    fn silent_config(&mut self, cfg_id: &str) {
        self.seq += 1;
        let want = CONFIGS.iter().position(|c| c.0 == cfg_id).unwrap_or(0);
        let (cid, linters, dialect) = CONFIGS[want];
        self.ls.settings = crate::ls::settings_for(&self.dir, serde_json::from_str(linters).unwrap(), dialect);
        self.evs.push(json!({"ev": "Recv", "seq": self.seq, "kind": "silentcfg", "url": 0, "text": "", "cfg": cid}));
        self.evs.push(json!({"ev": "Quiescent", "overlap": false}));
    }
    /// run one message alone, to quiescence
    fn sequential(&mut self, m: &Msg) {
        if m.kind == "silentcfg" { let c = m.text.clone(); self.silent_config(&c); return; }
        let from = self.ls.publishes.len();
        let h = self.submit(m);
        let ok = self.ls.run_to_completion(h, Duration::from_secs(20));
        if !ok { self.evs.push(json!({"ev": "Stuck", "kind": m.kind})); }
        self.drain_pubs(from);
        self.evs.push(json!({"ev": "Quiescent", "overlap": false}));
    }
    /// a batch sent back to back; `order` = the order in which the handlers' configuration
    /// requests are answered (each then runs until it is done or asks again)
    fn batch(&mut self, msgs: &[Msg], order: &[usize]) {
        let from = self.ls.publishes.len();
        let hs: Vec<usize> = msgs.iter().map(|m| { let h = self.submit(m); self.ls.run_until_blocked(h, Duration::from_secs(20)); h }).collect();
        self.evs.push(json!({"ev": "Sched", "order": order}));
        // round-robin over `order` until every handler is done
        let mut guard = 0;
        while hs.iter().any(|h| !self.ls.handlers[*h].done) && guard < 50 {
            guard += 1;
            for &k in order {
                let h = hs[k];
                if self.ls.handlers[h].done { continue; }
                if self.ls.answer_config(h) || true {
                    let st = self.ls.run_until_blocked(h, Duration::from_secs(20));
                    if st == "timeout" { self.evs.push(json!({"ev": "Stuck", "kind": msgs[k].kind})); return; }
                }
            }
        }
        self.drain_pubs(from);
        let same_url = (0..msgs.len()).any(|i| (0..i).any(|j| msgs[i].url == msgs[j].url || ["config", "adduser"].contains(&msgs[i].kind.as_str()) || ["config", "adduser"].contains(&msgs[j].kind.as_str())));
        // (a configuration change and an addition to the user dictionary re-process every open document)
        self.evs.push(json!({"ev": "Quiescent", "overlap": same_url && msgs.len() > 1}));
    }
}

fn perms(n: usize) -> Vec<Vec<usize>> {
    if n == 1 { return vec![vec![0]]; }
    let mut out = Vec::new();
    for p in perms(n - 1) { for i in 0..=p.len() { let mut q = p.clone(); q.insert(i, n - 1); out.push(q); } }
    out
}

pub fn main(a: &Args) {
    let mut out = Out::create(a.req("out"));
    let mut rng = Rng::new(a.num("seed", 1));
    let base = std::env::temp_dir().join(format!("hv_c09_{}", std::process::id()));
    let _ = std::fs::remove_dir_all(&base);
    let m = |k: &str, u: usize, t: &str| Msg { kind: k.to_string(), url: u, text: t.to_string() };
    with_runtime(|| {
        let tab = reference_table(&base);
        let mut n = 0;
        let mut run = |prefix: &[Msg], batch: &[Msg], order: &[usize], tail: &[Msg], out: &mut Out| {
            let mut s = Sess::new(base.join(format!("s{n}")), &tab); n += 1;
            for p in prefix { s.sequential(p); }
            if !batch.is_empty() { s.batch(batch, order); }
            for p in tail { s.sequential(p); }
            for e in s.evs.drain(..) { out.emit(&e); }
            let _ = std::fs::remove_dir_all(&s.dir);
        };
        // (1) sequential histories over all message kinds (saved and unsaved buffers)
        let kinds = ["change", "save", "close", "adduser", "addfile", "config", "delete"];
        for u in 0..4usize {
            for k1 in kinds {
                for k2 in kinds {
                    if (u == 2) && (k1 == "save" || k2 == "save" || k1 == "delete" || k2 == "delete") { continue; }
                    let h = vec![m("open", u, "A"), m(k1, u, "B"), m(k2, u, "C")];
                    // a message after close/delete needs the document open again
                    let mut hist: Vec<Msg> = Vec::new();
                    let mut open = false;
                    for x in h {
                        if x.kind == "open" { open = true; }
                        else if !open { if x.kind == "close" || x.kind == "delete" || x.kind == "change" || x.kind == "save" { hist.push(m("open", u, "D")); open = true; } }
                        if x.kind == "close" || x.kind == "delete" { open = false; }
                        hist.push(x);
                    }
                    run(&hist, &[], &[], &[], &mut out);
                }
            }
        }
        // (1b) a document comes back: closed or deleted, then opened again with the same or another text,
        // and texts that return to an earlier one (the diagnostics repeat)
        for u in 0..4usize {
            for closer in ["close", "delete"] {
                if u == 2 && closer == "delete" { continue; }
                for (t1, t2) in [("A", "A"), ("A", "B")] {
                    run(&[m("open", u, t1), m(closer, u, ""), m("open", u, t2)], &[], &[], &[], &mut out);
                    run(&[m("open", u, "C"), m("change", u, t1), m(closer, u, ""), m("open", u, t2), m("change", u, t1)], &[], &[], &[], &mut out);
                }
            }
            run(&[m("open", u, "A"), m("change", u, "B"), m("change", u, "A"), m("change", u, "A")], &[], &[], &[], &mut out);
        }
        // (1d) configuration walks: every ordered pair of configurations around an edit, then back to the default
        // (an override that is set and later removed; a dialect switch and back)
        // (1f) the other front-ends (HTML, Literate Haskell with its identifier dictionary): a reduced set of histories
        for u in 4..6usize {
            run(&[m("open", u, "A"), m("change", u, "B"), m("change", u, "C"), m("change", u, "C")], &[], &[], &[], &mut out);
            run(&[m("open", u, "A"), m("save", u, ""), m("change", u, "B"), m("adduser", u, ""), m("change", u, "A")], &[], &[], &[], &mut out);
            run(&[m("open", u, "A"), m("config", u, "c1"), m("change", u, "B"), m("config", u, "c0"), m("close", u, ""), m("open", u, "B")], &[], &[], &[], &mut out);
        }
        // (1g) the settings change silently, a document update makes the server pull them, and only then the change
        // is announced (with the very settings the server already holds)
        for u in [0usize, 1, 3] {
            for c in ["c3", "c1", "c2"] {
                run(&[m("open", u, "A"), m("silentcfg", u, c), m("change", u, "B"), m("config", u, c)], &[], &[], &[], &mut out);
                run(&[m("open", u, "A"), m("open", (u + 1) % 2, "C"), m("silentcfg", u, c), m("change", (u + 1) % 2, "D"), m("config", u, c), m("change", u, "B")], &[], &[], &[], &mut out);
            }
        }
        // (1g') the same with a pull-model client: the settings change on the client's side and are announced by a
        // notification that carries none (`settings: null`)
        for u in [0usize, 1, 3] {
            for c in ["c3", "c1", "c2"] {
                run(&[m("open", u, "A"), m("silentcfg", u, c), m("confignull", u, "")], &[], &[], &[], &mut out);
                run(&[m("open", u, "A"), m("open", (u + 1) % 2, "C"), m("silentcfg", u, c), m("confignull", u, ""), m("change", u, "B"), m("silentcfg", u, "c0"), m("confignull", u, "")], &[], &[], &[], &mut out);
            }
        }
        // (1i) a save notification while the file differs from the buffer
        for u in [0usize, 1, 3] {
            run(&[m("open", u, "A"), m("tampersave", u, "")], &[], &[], &[], &mut out);
            run(&[m("open", u, "A"), m("change", u, "B"), m("tampersave", u, ""), m("addfile", u, "")], &[], &[], &[], &mut out);
        }
        // (1h) the directory of the documents is deleted: every document in it ends with empty diagnostics, the untitled one keeps its own
        for kind in ["deletedir", "deletedir/"] {
            run(&[m("open", 0, "A"), m("open", 1, "B"), m("open", 2, "C"), m("open", 3, "A"), m(kind, 0, "")], &[], &[], &[], &mut out);
            run(&[m("open", 0, "A"), m("open", 4, "B"), m("open", 2, "C"), m(kind, 0, ""), m("open", 0, "B"), m("change", 2, "A")], &[], &[], &[], &mut out);
        }
        // (1e) a very long document: open short, grow long, shrink again; open long; configuration change while long
        for u in [0usize, 2].into_iter().take(a.num("long-docs", 1) as usize) {
            run(&[m("open", u, "A"), m("change", u, "L"), m("change", u, "B")], &[], &[], &[], &mut out);
            run(&[m("open", u, "L"), m("change", u, "A")], &[], &[], &[], &mut out);
            run(&[m("open", u, "A"), m("change", u, "L"), m("config", u, "c2"), m("config", u, "c0")], &[], &[], &[], &mut out);
        }
        for u in 0..4usize {
            for ci in 1..CONFIGS.len() {
                for cj in 0..CONFIGS.len() {
                    if ci == cj || (u + ci + cj) % 3 != 0 && u != 0 { continue; }
                    run(&[m("open", u, "A"), m("config", u, CONFIGS[ci].0), m("config", u, CONFIGS[cj].0), m("change", u, "B"), m("config", u, "c0")], &[], &[], &[], &mut out);
                }
            }
        }
        // (1c) random protocol-conforming sequential sessions over two texts only, so that states repeat
        for _ in 0..a.num("random-seq", 25) {
            let mut open = [false; 4];
            let mut hist: Vec<Msg> = Vec::new();
            for _ in 0..rng.range(5, 10) {
                let u = rng.below(4);
                let t = ["A", "B"][rng.below(2)];
                let kind = if !open[u] { "open" } else { kinds[rng.below(kinds.len())] };
                if u == 2 && (kind == "save" || kind == "delete") { continue; }
                if kind == "open" { open[u] = true; }
                if kind == "close" || kind == "delete" { open[u] = false; }
                hist.push(m(kind, u, t));
            }
            run(&hist, &[], &[], &[], &mut out);
        }
        // (2) batches of two and three messages in flight together, every completion order
        let batch_kinds = ["change", "close", "save", "adduser", "config"];
        let nb = a.num("batches", 40) as usize;
        let mut done = 0;
        'outer: for k1 in batch_kinds { for k2 in batch_kinds { for (u1, u2) in [(0usize, 0usize), (0, 1)] {
            let b = vec![m(k1, u1, "B"), m(k2, u2, "C")];
            for ord in perms(2) {
                run(&[m("open", 0, "A"), m("open", 1, "A")], &b, &ord, &[], &mut out);
                done += 1;
                if done >= nb { break 'outer; }
            }
        } } }
        for _ in 0..a.num("random-batches", 20) {
            let k = rng.range(2, 4);
            // protocol-conforming batches: change/save/close only on open documents, open only on closed ones
            let mut open = [true, true];
            let mut b: Vec<Msg> = Vec::new();
            for i in 0..k {
                let u = rng.below(2);
                let mut kind = batch_kinds[rng.below(batch_kinds.len())];
                if !open[u] { kind = "open"; }
                if kind == "close" { open[u] = false; }
                if kind == "open" { open[u] = true; }
                b.push(m(kind, u, ["B", "C", "D"][i % 3]));
            }
            let ps = perms(k);
            let ord = ps[rng.below(ps.len())].clone();
            let tail = if open[0] { m("change", 0, "D") } else { m("open", 0, "D") };
            run(&[m("open", 0, "A"), m("open", 1, "A")], &b, &ord, &[tail], &mut out);
        }
    });
    let _ = std::fs::remove_dir_all(&base);
    println!("{}", json!({"events": out.finish()}));
    std::process::exit(0);
}
