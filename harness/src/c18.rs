//! C18: title-casing only changes letter case and is idempotent.
use harper_core::parsers::PlainEnglish;
use harper_core::{Dictionary, Document, FstDictionary, TokenStringExt, make_title_case_str};
use serde_json::{Value, json};

use crate::util::{Args, Out, Rng, catch, cps_str, panic_loc, par_map, read_corpus};

fn fold(c: char) -> u32 {
    let mut it = c.to_lowercase();
    match (it.next(), it.next()) {
        (Some(a), None) => a as u32,
        _ => c as u32,
    }
}

fn one(text: &str, api: &str) -> Value {
    let dict = FstDictionary::curated();
    let run = |t: &str| -> String {
        if api == "wasm" {
            harper_wasm::to_title_case(t.to_string())
        } else {
            make_title_case_str(t, &PlainEnglish, &dict)
        }
    };
    match catch(|| {
        // the same text may have been title-cased through another front-end a moment ago (api "after-md"):
        // whatever that call left behind must not reach this one
        if api == "after-md" {
            let _ = make_title_case_str(text, &harper_core::parsers::Markdown::default(), &dict);
        }
        let out = run(text);
        let out2 = run(&out);
        (out, out2)
    }) {
        Err(p) => json!({"ev": "TitlePanic", "text": text, "loc": panic_loc(&p), "msg": p}),
        Ok((out, out2)) => {
            let doc = Document::new(text, &PlainEnglish, &dict);
            let fw = doc.get_tokens().iter_word_likes().next().map(|t| t.span.start as i64).unwrap_or(-1);
            json!({"ev": "Title", "api": api, "text": text, "in": cps_str(text), "out": cps_str(&out),
                "out2": cps_str(&out2), "inf": text.chars().map(fold).collect::<Vec<_>>(),
                "outf": out.chars().map(fold).collect::<Vec<_>>(), "fw": fw})
        }
    }
}

pub fn main(a: &Args) {
    let mut out = Out::create(a.req("out"));
    let mut rng = Rng::new(a.num("seed", 1));
    let corpus = read_corpus(a.req("corpus"));
    let dict = FstDictionary::curated();
    // proper nouns (incl. ones with apostrophes or internal capitals) from the dictionary
    let mut proper: Vec<String> = Vec::new();
    for w in dict.words_iter() {
        if let Some(m) = dict.get_word_metadata(w) {
            if m.is_proper_noun() {
                let s: String = w.iter().collect();
                let weird = s.contains('\'') || s.chars().skip(1).any(|c| c.is_uppercase()) || !s.is_ascii();
                if weird || proper.len() % 40 == 0 {
                    proper.push(s);
                } else if rng.chance(1, 60) {
                    proper.push(s);
                }
            }
        }
    }
    proper.sort();
    // the same names typed on a keyboard without accents (a dictionary may know how to find them; the title must
    // still be the typed letters in another case)
    fn unaccent(c: char) -> char {
        match c { 'á' | 'à' | 'â' | 'ä' | 'ã' | 'å' | 'ā' => 'a', 'é' | 'è' | 'ê' | 'ë' | 'ē' | 'ě' => 'e', 'í' | 'ì' | 'î' | 'ï' | 'ī' | 'ı' => 'i',
            'ó' | 'ò' | 'ô' | 'ö' | 'õ' | 'ø' | 'ō' | 'ő' => 'o', 'ú' | 'ù' | 'û' | 'ü' | 'ū' | 'ű' => 'u', 'ç' | 'č' | 'ć' => 'c', 'ñ' | 'ń' | 'ň' => 'n',
            'š' | 'ś' | 'ş' => 's', 'ž' | 'ź' | 'ż' => 'z', 'ý' | 'ÿ' => 'y', 'ğ' => 'g', 'ł' => 'l', 'ř' => 'r', 'ť' => 't', 'ď' | 'đ' => 'd',
            'Á' | 'À' | 'Â' | 'Ä' | 'Å' => 'A', 'É' | 'È' | 'Ê' => 'E', 'Í' | 'İ' => 'I', 'Ó' | 'Ö' | 'Ø' => 'O', 'Ú' | 'Ü' => 'U', 'Ç' | 'Č' => 'C', 'Š' | 'Ś' => 'S', 'Ž' => 'Z', 'Ł' => 'L',
            c => c }
    }
    let plain_typed: Vec<String> = proper.iter().filter(|s| !s.is_ascii()).map(|s| s.chars().map(unaccent).collect::<String>()).filter(|s| s.is_ascii()).collect();
    proper.extend(plain_typed.iter().cloned());
    let fillers = ["of", "the", "and", "in", "a", "for", "about", "between", "is", "us", "it", "2nd", "3.5",
        "e.g.", "well-known", "naïve", "café", "世界", "😀", "—", "-", "'tis", "O’Neil", "iOS", "macOS", "IT", "(and)", "\"the\"", "ßtraße", "ﬁnal", "ﬂight", "ŉ", "ǰoy", "ǆungla", "ǅ", "ﬃ", "ẞ", "ı", "İ", "ſ", "K", "Å"];
    let mut texts: Vec<String> = Vec::new();
    for _ in 0..a.num("n", 4000) {
        let mut words: Vec<String> = Vec::new();
        let n = rng.range(1, 7);
        for _ in 0..n {
            let w = match rng.below(6) {
                0 | 1 => {
                    let s = rng.pick(&corpus[..]);
                    let ws: Vec<&str> = s.split_whitespace().collect();
                    if ws.is_empty() { "x".to_string() } else { ws[rng.below(ws.len())].to_string() }
                }
                2 => rng.pick(&proper[..]).clone(),
                3 => rng.pick(&proper[..]).to_lowercase(),
                4 => rng.pick(&proper[..]).to_uppercase().replace('\'', "’"),
                _ => rng.pick(&fillers[..]).to_string(),
            };
            words.push(w);
        }
        // every word in one of several letter-case shapes: as is, lower, UPPER, Title, iNVERTED (first letter
        // lower, rest upper: tRNA, pH), aLtErNaTiNg - the output of one pass is the input of the next, and a pass
        // may produce a shape (all capitals, ...) that the rules treat differently
        if rng.chance(1, 2) {
            let shape_all = rng.below(7);
            for w in words.iter_mut() {
                let shape = if rng.chance(1, 2) { shape_all } else { rng.below(7) };
                let cs: Vec<char> = w.chars().collect();
                *w = match shape {
                    1 => w.to_lowercase(),
                    2 => w.to_uppercase(),
                    3 => cs.iter().enumerate().map(|(k, c)| if k == 0 { c.to_uppercase().collect::<String>() } else { c.to_lowercase().collect() }).collect(),
                    4 => cs.iter().enumerate().map(|(k, c)| if k == 0 { c.to_lowercase().collect::<String>() } else { c.to_uppercase().collect() }).collect(),
                    5 => cs.iter().enumerate().map(|(k, c)| if k % 2 == 0 { c.to_lowercase().collect::<String>() } else { c.to_uppercase().collect() }).collect(),
                    _ => w.clone(),
                };
            }
        }
        let mut t = words.join(if rng.chance(1, 10) { "  " } else { " " });
        match rng.below(8) {
            0 => t = t.to_uppercase(),
            1 => t = t.to_lowercase(),
            2 => t.push('.'),
            3 => t = format!(" {t}"),
            4 => t = format!("\"{t}\""),
            _ => {}
        }
        texts.push(t);
    }
    for s in corpus.iter().take(a.num("corpus-n", 300) as usize) {
        texts.push(s.replace('\n', " "));
    }
    for t in ["# getting started with harper", "## the state of the art", "a note on the *quick* brown fox\n", "`cargo` is the package manager", "- a list item here",
        "> quoted title words", "[a link](http://x.y) in the title", "**bold** move by the team", "tRNA", "pH", "hELLO wORLD", "NASA pH", "tRNA: pH 7", "iPhone and eBay", "mRNA", "", " ", "a", "A", ".", "1", "the", "THE", "ß", "İstanbul", "i̇stanbul", "ǅ", "o'clock", "O’Clock"] {
        texts.push(t.to_string());
    }
    // the hand-picked texts (the last ones pushed) go through every api; Markdown-looking variants of generated texts too
    let nspecial = 22;
    let mut jobs: Vec<(String, &str)> = texts.iter().enumerate().map(|(i, t)| (t.clone(), if i % 5 == 0 { "wasm" } else if i % 5 == 1 { "after-md" } else { "core" })).collect();
    for t in texts.iter().rev().take(nspecial) { for api in ["wasm", "after-md", "core"] { jobs.push((t.clone(), api)); } }
    for (i, t) in texts.iter().enumerate().take(400) {
        let md = match i % 4 { 0 => format!("# {t}"), 1 => format!("*{t}* and more"), 2 => format!("`{t}` is here"), _ => format!("- {t}") };
        jobs.push((md, "after-md"));
    }
    let evs = par_map(jobs.len(), a.num("threads", 12) as usize, |_| (), |_, i| one(&jobs[i].0, jobs[i].1));
    for e in evs {
        out.emit(&e);
    }
    println!("{}", json!({"events": out.finish()}));
}
