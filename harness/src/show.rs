//! Debug helper: print tokens and lints of a text.
use harper_core::linting::Linter;
use harper_core::Dialect;

use crate::util::Args;

pub fn main(a: &Args) {
    let text = a.req("text").replace("\\n", "\n").replace("\\t", "\t");
    let fr = a.get("front").unwrap_or("plain");
    let parser = crate::front::wrapped_parser(fr, a.num("wrap", 0) as u8).unwrap();
    let doc = crate::front::doc_with(&text, &parser);
    let src = doc.get_source();
    for t in doc.get_tokens() {
        let s: String = src[t.span.start.min(src.len())..t.span.end.min(src.len())].iter().collect();
        println!("{:>4}..{:<4} {:<16} {:?}", t.span.start, t.span.end, crate::c02::kind_name(&t.kind), s);
    }
    let mut lg = if a.get("curated").is_some() { crate::front::curated_group(Dialect::American) } else { crate::front::all_rules_group(Dialect::American) };
    for l in lg.lint(&doc) {
        let s: String = src[l.span.start.min(src.len())..l.span.end.min(src.len())].iter().collect();
        println!("LINT {}..{} {:?} {:?} {:?} {:?}", l.span.start, l.span.end, l.lint_kind, s, l.message, l.suggestions);
    }
}
