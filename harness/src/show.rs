//! Debug helper: print tokens and lints of a text.
use harper_core::linting::Linter;
use harper_core::Dialect;

use crate::util::Args;

pub fn main(a: &Args) {
    let text = a.req("text").replace("\\n", "\n").replace("\\t", "\t");
    let fr = a.get("front").unwrap_or("plain");
    let parser = crate::front::wrapped_parser(fr, a.num("wrap", 0) as u8).unwrap();
    let doc = crate::front::doc_with(&text, &parser);
    let src = doc.get_source();
    for t in doc.get_tokens() {
        let s: String = src[t.span.start.min(src.len())..t.span.end.min(src.len())].iter().collect();
        println!("{:>4}..{:<4} {:<16} {:?}", t.span.start, t.span.end, crate::c02::kind_name(&t.kind), s);
    }
    let mut lg = if a.get("curated").is_some() { crate::front::curated_group(Dialect::American) } else { crate::front::all_rules_group(Dialect::American) };
    for l in lg.lint(&doc) {
        let s: String = src[l.span.start.min(src.len())..l.span.end.min(src.len())].iter().collect();
        println!("LINT {}..{} {:?} {:?} {:?} {:?}", l.span.start, l.span.end, l.lint_kind, s, l.message, l.suggestions);
    }
}

/// which rule, enabled alone, produces which lints on a text
pub fn alone(a: &Args) {
    use harper_core::linting::{LintGroup, Linter};
    let text = a.req("text").replace("\\n", "\n");
    let dict = harper_core::FstDictionary::curated();
    let doc = if a.get("front") == Some("markdown") { harper_core::Document::new(&text, &harper_core::parsers::Markdown::default(), &dict) }
              else { harper_core::Document::new(&text, &harper_core::parsers::PlainEnglish, &dict) };
    let mut lg = LintGroup::new_curated(dict.clone(), Dialect::American);
    let names: Vec<String> = lg.iter_keys().map(|s| s.to_string()).collect();
    for n in &names {
        lg.set_all_rules_to(Some(false));
        lg.config.set_rule_enabled(n, true);
        let l = lg.lint(&doc);
        if !l.is_empty() { println!("{n}: {:?}", l.iter().map(|x| (x.span.start, x.span.end, x.message.clone())).collect::<Vec<_>>()); }
    }
    println!("names: {} distinct: {}", names.len(), names.iter().collect::<std::collections::BTreeSet<_>>().len());
}

pub fn userword(a: &crate::util::Args) {
    let w = a.req("word").to_string();
    let text = a.req("text").to_string();
    let mut l = harper_wasm::Linter::new(harper_wasm::Dialect::American);
    let before: Vec<String> = l.lint(text.clone(), harper_wasm::Language::Plain).iter().map(|x| format!("{}..{} {}", x.span().start, x.span().end, x.message())).collect();
    l.import_words(vec![w.clone()]);
    let after: Vec<String> = l.lint(text.clone(), harper_wasm::Language::Plain).iter().map(|x| format!("{}..{} {}", x.span().start, x.span().end, x.message())).collect();
    println!("before: {before:?}\nafter import of {w:?}: {after:?}");
}
