//! hv: harness that drives the real Harper crates and records NDJSON trace events
//! for validation against the TLA+ specification (see /verif/DESIGN.md).
#![allow(dead_code)]

mod util;
mod front;
mod c13;
mod c03;
mod c02;
mod c01;
mod c17;
mod c18;
mod c19;
mod c15;
mod lg;
mod show;
mod c08;
mod c06;
mod c16;
mod ls;
mod c07;
mod c09;
mod lintonly;
mod c04;
mod lsx;
mod inputs;

#[path = "/repo/harper-ls/src/git_commit_parser.rs"]
mod git_commit_parser;
#[path = "/repo/harper-ls/src/config.rs"]
mod config;
#[path = "/repo/harper-ls/src/backend.rs"]
mod backend;
#[path = "/repo/harper-ls/src/diagnostics.rs"]
mod diagnostics;
#[path = "/repo/harper-ls/src/dictionary_io.rs"]
mod dictionary_io;
#[path = "/repo/harper-ls/src/document_state.rs"]
mod document_state;
#[path = "/repo/harper-ls/src/pos_conv.rs"]
mod pos_conv;

fn main() {
    let argv: Vec<String> = std::env::args().collect();
    if argv.len() < 2 {
        eprintln!("usage: hv <subcommand> [--key value]...");
        std::process::exit(2);
    }
    util::install_panic_hook();
    let a = util::Args::parse(&argv[2..]);
    match argv[1].as_str() {
        "c13" => c13::main(&a),
        "c13cli" => c13::cli_main(&a),
        "c04lines" => c04::lines_main(&a),
        "c14dbg" => lg::c14dbg(&a),
        "c03" => c03::main(&a),
        "c02" => c02::main(&a),
        "c01" => c01::main(&a),
        "c17" => c17::main(&a),
        "c18" => c18::main(&a),
        "c19" => c19::main(&a),
        "c15" => c15::main(&a),
        "c05" => lg::c05(&a),
        "c11" => lg::c11(&a),
        "c12" => lg::c12(&a),
        "show" => show::main(&a),
        "userword" => show::userword(&a),
        "alone" => show::alone(&a),
        "c14" => lg::c14(&a),
        "c08" => c08::main(&a),
        "c06" => c06::main(&a),
        "c16" => c16::main(&a),
        "lsdemo" => ls::demo(&a),
        "c07" => c07::main(&a),
        "c09" => c09::main(&a),
        "lintonly" => lintonly::main(&a),
        "c04" => c04::main(&a),
        "ls-ignore" => lsx::ls_ignore(&a),
        "ls-stats" => lsx::ls_stats(&a),
        "ls-stats-paths" => lsx::ls_stats_paths(&a),
        "ls-userdict" => lsx::ls_userdict(&a),
        other => {
            eprintln!("unknown subcommand {other}");
            std::process::exit(2);
        }
    }
}
