//! Extra bindings through the real language server (in process):
//!  * `ls-ignore`: HarperIgnoreLint via code actions, re-lint, far edits (events for Trace_Ignore)
//!  * `ls-stats` : HarperRecordLint + shutdown across server incarnations (events for Trace_StatsLog)
use std::time::Duration;

use harper_core::parsers::PlainEnglish;
use harper_core::{Document, FstDictionary};
use serde_json::{Value, json};

use crate::ls::{Ls, with_runtime};
use crate::util::{Args, Out, Rng, digest, read_corpus};

fn diag_identity(doc: &Document, d: &Value, loose: bool) -> Option<(String, usize, usize)> {
    if d["range"]["start"]["line"] != 0 || d["range"]["end"]["line"] != 0 { return None; }
    let s = d["range"]["start"]["character"].as_u64()? as usize;
    let e = d["range"]["end"]["character"].as_u64()? as usize;
    let src = doc.get_source();
    if e > src.len() || s > e { return None; }
    let tok_texts = |a: usize, b: usize| -> Vec<String> {
        if a >= b { return vec![]; }
        doc.get_tokens().iter().filter(|t| t.span.start < b && a < t.span.end && t.span.end > t.span.start)
            .filter(|t| !loose || !(t.kind.is_whitespace() || matches!(t.kind, harper_core::TokenKind::ParagraphBreak)))
            .map(|t| src[t.span.start..t.span.end.min(src.len())].iter().collect::<String>()).collect()
    };
    let id = digest(&format!("{}|{}|{:?}|{:?}", d["message"].as_str().unwrap_or(""), src[s..e].iter().collect::<String>(),
        tok_texts(s.saturating_sub(2), s), tok_texts(e, (e + 2).min(src.len()))));
    Some((id, s, e))
}

fn lints_event(text: &str, diags_all: &Value, diags_vis: &Value, code: bool) -> Value {
    let dict = FstDictionary::curated();
    let doc = if code {
        let p = harper_comments::CommentParser::new_from_language_id("rust", Default::default()).unwrap();
        Document::new(text, &p, &dict)
    } else { Document::new(text, &PlainEnglish, &dict) };
    let key = |d: &Value| format!("{}|{}|{}", d["range"]["start"]["character"], d["range"]["end"]["character"], d["message"].as_str().unwrap_or(""));
    let all: Vec<Value> = diags_all.as_array().unwrap().iter().filter_map(|d| {
        let (pid, s, e) = diag_identity(&doc, d, false)?;
        let (lpid, _, _) = diag_identity(&doc, d, true)?;
        Some(json!({"id": digest(&key(d)), "pid": pid, "lpid": lpid, "s": s, "e": e, "wv": false}))
    }).collect();
    let vis: Vec<String> = diags_vis.as_array().unwrap().iter().map(|d| digest(&key(d))).collect();
    json!({"ev": "Lints", "text": text, "all": all, "visible": vis, "wasm": false})
}

pub fn ls_ignore(a: &Args) {
    let mut out = Out::create(a.req("out"));
    let mut rng = Rng::new(a.num("seed", 1));
    let corpus: Vec<String> = read_corpus(a.req("corpus")).into_iter().filter(|s| !s.contains('\n') && s.is_ascii() && s.len() < 160).collect();
    let base = std::env::temp_dir().join(format!("hv_lsx_{}", std::process::id()));
    with_runtime(|| {
        for n in 0..a.num("sessions", 30) {
            let dir = base.join(format!("i{n}"));
            std::fs::create_dir_all(&dir).unwrap();
            let mut ls = Ls::new(&dir);
            ls.initialize();
            // every third session is a source file: the flagged prose sits in a comment on the first line, and the far
            // edit changes the set of identifiers of the file
            let code = n % 3 == 2;
            let (uri, lang) = if code { ("untitled:Untitled-2.rs", "rust") } else { ("untitled:Untitled-1", "plaintext") };
            let prose = format!("{} {}", rng.pick(&corpus[..]), ["teh cat saw teh dog.", "an test of an test.", "He said \"an test\" today.", "We went to the the the shop.", "It was in in in in the box.", "Very very very odd."][rng.below(6)]);
            let mut text = if code { format!("// {prose}\nfn helper_one(arg_zq: u8) -> u8 {{ arg_zq }}\n") } else { prose };
            out.emit(&json!({"ev": "Reset", "text": text}));
            let h = ls.did_open(uri, lang, &text);
            ls.run_to_completion(h, Duration::from_secs(20));
            // an un-ignoring reference: a second server that never ignores anything
            let mut reference = Ls::new(&dir.join("ref"));
            reference.initialize();
            let hr = reference.did_open(uri, lang, &text);
            reference.run_to_completion(hr, Duration::from_secs(20));
            for step in 0..3 {
                let vis = ls.last_publish(uri).cloned().unwrap_or(json!([]));
                let all = reference.last_publish(uri).cloned().unwrap_or(json!([]));
                out.emit(&lints_event(&text, &all, &vis, code));
                let va = vis.as_array().cloned().unwrap_or_default();
                if va.is_empty() { break; }
                if step == 1 {
                    // far edit: append a paragraph
                    text = if code { format!("{text}fn helper_two(other_zq: u8) -> u8 {{ other_zq + 1 }}\n") } else { format!("{text}\n\nMore words follow here.") };
                    out.emit(&json!({"ev": "Edit", "kind": "append"}));
                    let v = 10 + step as i64;
                    let h = ls.did_change(uri, v, &text); ls.run_to_completion(h, Duration::from_secs(20));
                    let h = reference.did_change(uri, v, &text); reference.run_to_completion(h, Duration::from_secs(20));
                    continue;
                }
                // ignore one visible diagnostic through its code action
                let d = if rng.chance(1, 2) { va.iter().max_by_key(|d| d["range"]["start"]["character"].as_u64().unwrap_or(0)).unwrap() } else { &va[rng.below(va.len())] };
                let res = ls.call("textDocument/codeAction", json!({"textDocument": {"uri": uri}, "range": d["range"], "context": {"diagnostics": []}}), true);
                let dict = FstDictionary::curated();
                let doc = if code {
                    let p = harper_comments::CommentParser::new_from_language_id("rust", Default::default()).unwrap();
                    Document::new(&text, &p, &dict)
                } else { Document::new(&text, &PlainEnglish, &dict) };
                let mut done = false;
                if let Some(acts) = res.as_ref().and_then(|r| r.as_array()) {
                    for act in acts {
                        if act["command"] == "HarperIgnoreLint" {
                            let lint = &act["arguments"][1];
                            // the command whose lint sits exactly on this diagnostic
                            let (ls_, le_) = (lint["span"]["start"].as_u64().unwrap_or(0), lint["span"]["end"].as_u64().unwrap_or(0));
                            if ls_ == d["range"]["start"]["character"].as_u64().unwrap_or(1 << 40) && le_ == d["range"]["end"]["character"].as_u64().unwrap_or(0)
                                && lint["message"] == d["message"] {
                                ls.call("workspace/executeCommand", json!({"command": "HarperIgnoreLint", "arguments": act["arguments"]}), true);
                                done = true;
                                break;
                            }
                        }
                    }
                }
                if done {
                    if let (Some((pid, _, _)), Some((lpid, _, _))) = (diag_identity(&doc, d, false), diag_identity(&doc, d, true)) {
                        out.emit(&json!({"ev": "Ignored", "w": false, "pid": pid, "lpid": lpid, "id": ""}));
                    }
                }
            }
            let _ = std::fs::remove_dir_all(&dir);
        }
    });
    let _ = std::fs::remove_dir_all(&base);
    println!("{}", json!({"events": out.finish()}));
    std::process::exit(0);
}

pub fn ls_stats(a: &Args) {
    use harper_stats::Stats;
    let mut out = Out::create(a.req("out"));
    let mut rng = Rng::new(a.num("seed", 1));
    let base = std::env::temp_dir().join(format!("hv_lsx_{}", std::process::id()));
    with_runtime(|| {
        for n in 0..a.num("sessions", 10) {
            let dir = base.join(format!("s{n}"));
            std::fs::create_dir_all(&dir).unwrap();
            out.emit(&json!({"ev": "Reset", "src": "ls"}));
            let stats_path = dir.join("stats/stats.txt");
            let mut seen_lines = 0usize;
            for _incarnation in 0..rng.range(1, 3) {
                let mut ls = Ls::new(&dir);
                ls.initialize();
                let uri = "untitled:Untitled-1";
                // the first session of a run is a very busy one: a lint whose context is a whole 300-word sentence,
                // recorded forty times (several megabytes to append at shutdown)
                let busy = n == 0 && _incarnation == 0;
                let long_text = format!("{}.", (0..300).map(|k| ["the", "quick", "brown", "fox", "jumps", "over", "lazy", "dogs", "and", "runs"][k % 10]).collect::<Vec<_>>().join(" "));
                let text: &str = if busy { &long_text } else { ["This is teh first an test.", "Line one teh.\nLine \"two\" an apple\ttab.", "An 😀 emoji teh and wich."][rng.below(3)] };
                let h = ls.did_open(uri, "plaintext", text);
                ls.run_to_completion(h, Duration::from_secs(20));
                let diags = ls.last_publish(uri).cloned().unwrap_or(json!([]));
                let mut recorded = 0;
                if busy {
                    // the command's argument is the serialised record; a context of 300 word tokens makes ~70 kB per record
                    use harper_core::{Document, FstDictionary, parsers::PlainEnglish};
                    let dict = FstDictionary::curated();
                    let doc = Document::new(&long_text, &PlainEnglish, &dict);
                    let context: Vec<harper_core::FatStringToken> = doc.get_tokens().iter().map(|t| t.to_fat(doc.get_source()).into()).collect();
                    let kind = harper_stats::RecordKind::Lint { kind: harper_core::linting::LintKind::Readability, context };
                    let arg = serde_json::to_string(&kind).unwrap();
                    for _ in 0..(2_600_000 / arg.len() + 1) {
                        ls.call("workspace/executeCommand", json!({"command": "HarperRecordLint", "arguments": [arg]}), true);
                        recorded += 1;
                    }
                }
                for d in diags.as_array().cloned().unwrap_or_default().iter().take(if busy { 0 } else { rng.range(0, 3) }) {
                    let res = ls.call("textDocument/codeAction", json!({"textDocument": {"uri": uri}, "range": d["range"], "context": {"diagnostics": []}}), true);
                    if let Some(acts) = res.as_ref().and_then(|r| r.as_array()) {
                        if let Some(cmd) = acts.iter().find_map(|x| x.get("command").filter(|c| c.is_object() && c["command"] == "HarperRecordLint")) {
                            ls.call("workspace/executeCommand", json!({"command": "HarperRecordLint", "arguments": cmd["arguments"]}), true);
                            recorded += 1;
                        }
                    }
                }
                ls.call("shutdown", Value::Null, true);
                // what the shutdown appended
                let content = std::fs::read_to_string(&stats_path).unwrap_or_default();
                let lines: Vec<&str> = content.lines().collect();
                let new = &lines[seen_lines.min(lines.len())..];
                let recs: Vec<Value> = new.iter().map(|l| json!({"id": digest(l), "kind": if l.contains("\"Lint\"") { "Lint" } else { "Cfg" },
                    "len": l.chars().count(), "rawbreaks": if new.len() == recorded { 0 } else { 1 }})).collect();
                seen_lines = lines.len();
                out.emit(&json!({"ev": "Wrote", "recs": recs, "flen": content.chars().count(), "expected_new": recorded}));
                match Stats::read(&mut std::io::Cursor::new(content.as_bytes().to_vec())) {
                    Ok(st) => {
                        out.emit(&json!({"ev": "ReadBack", "ids": lines.iter().map(|l| digest(l)).collect::<Vec<_>>(),
                            "kinds": st.records.iter().map(|r| match r.kind { harper_stats::RecordKind::Lint { .. } => "Lint", _ => "Cfg" }).collect::<Vec<_>>()}));
                        out.emit(&json!({"ev": "Summary", "total": st.summarize().total_applied}));
                    }
                    Err(e) => out.emit(&json!({"ev": "ReadError", "msg": e.to_string(), "log": content.chars().take(400).collect::<String>()})),
                }
            }
            let _ = std::fs::remove_dir_all(&dir);
        }
    });
    let _ = std::fs::remove_dir_all(&base);
    println!("{}", json!({"events": out.finish()}));
    std::process::exit(0);
}


/// `hv ls-stats-paths`: sessions in which statsPath changes while the server runs (announced, or only in the
/// client's answers), with lint records applied before, between and after; after every shutdown each log is read.
pub fn ls_stats_paths(a: &Args) {
    let mut out = Out::create(a.req("out"));
    let mut rng = Rng::new(a.num("seed", 1));
    let base = std::env::temp_dir().join(format!("hv_lsxp_{}", std::process::id()));
    let names = ["A", "B", "C"];
    with_runtime(|| {
        for n in 0..a.num("sessions", 10) {
            let dir = base.join(format!("s{n}"));
            std::fs::create_dir_all(&dir).unwrap();
            let path_of = |k: usize| dir.join(format!("stats/{}/stats.txt", names[k]));
            let mut cur = rng.below(3);
            out.emit(&json!({"ev": "Reset", "paths": names, "path": names[cur]}));
            let mut next_id = 1usize;
            for inc in 0..rng.range(1, 3) {
                if inc > 0 { out.emit(&json!({"ev": "Up"})); }
                let mut ls = Ls::new(&dir);
                ls.settings["harper-ls"]["statsPath"] = json!(path_of(cur).to_string_lossy());
                ls.initialize();
                let uri = "untitled:Untitled-1";
                let h = ls.did_open(uri, "plaintext", "This is teh first an test.");
                ls.run_to_completion(h, Duration::from_secs(20));
                for _ in 0..rng.range(2, 7) {
                    match rng.below(5) {
                        0 | 1 | 2 => {
                            // a lint record whose context names its id
                            let kind = harper_stats::RecordKind::Lint { kind: harper_core::linting::LintKind::Spelling,
                                context: vec![harper_core::FatStringToken { content: format!("marker{next_id}x"), kind: harper_core::TokenKind::Word(None) }] };
                            ls.call("workspace/executeCommand", json!({"command": "HarperRecordLint", "arguments": [serde_json::to_string(&kind).unwrap()]}), true);
                            out.emit(&json!({"ev": "Rec", "id": next_id}));
                            next_id += 1;
                        }
                        3 => {
                            // statsPath changes and the server is told
                            cur = (cur + rng.range(1, 2)) % 3;
                            ls.settings["harper-ls"]["statsPath"] = json!(path_of(cur).to_string_lossy());
                            let h = ls.did_change_configuration();
                            ls.run_to_completion(h, Duration::from_secs(20));
                            out.emit(&json!({"ev": "Switch", "to": names[cur], "how": "announced"}));
                        }
                        _ => {
                            // the same settings sent again, or an edit (configuration is pulled on edits too)
                            if rng.chance(1, 2) { let h = ls.did_change_configuration(); ls.run_to_completion(h, Duration::from_secs(20)); }
                            else { let h = ls.did_change(uri, 2, "This is teh first an test. More."); ls.run_to_completion(h, Duration::from_secs(20)); }
                        }
                    }
                }
                ls.call("shutdown", Value::Null, true);
                let mut logs = serde_json::Map::new();
                for k in 0..3 {
                    let content = std::fs::read_to_string(path_of(k)).unwrap_or_default();
                    // (records without a marker are not lint records of this driver)
                    let ids: Vec<usize> = content.lines().filter(|l| l.contains("marker")).map(|l| {
                        l.find("marker").and_then(|i| l[i + 6..].split('x').next().and_then(|d| d.parse::<usize>().ok())).unwrap_or(0)
                    }).collect();
                    logs.insert(names[k].to_string(), json!(ids));
                }
                out.emit(&json!({"ev": "Down", "logs": logs}));
            }
            let _ = std::fs::remove_dir_all(&dir);
        }
    });
    let _ = std::fs::remove_dir_all(&base);
    println!("{}", json!({"events": out.finish()}));
    std::process::exit(0);
}

/// `hv ls-userdict`: several open documents that all hold one unknown word; the word is added to the user dictionary
/// from one of them (UserDict.tla, Trace_UserDict.tla).
pub fn ls_userdict(a: &Args) {
    let mut out = Out::create(a.req("out"));
    let mut rng = Rng::new(a.num("seed", 1));
    let base = std::env::temp_dir().join(format!("hv_lsud_{}", std::process::id()));
    let names = ["a", "b", "c"];
    with_runtime(|| {
        for n in 0..a.num("sessions", 10) {
            let dir = base.join(format!("s{n}"));
            std::fs::create_dir_all(&dir).unwrap();
            let mut ls = Ls::new(&dir);
            ls.initialize();
            out.emit(&json!({"ev": "Reset"}));
            let uri = |k: usize| format!("untitled:ud-{}", names[k]);
            let text = |k: usize, v: usize| format!("Document {} mentions zorbliq in version {}. It is fine otherwise.", names[k], ["one", "two", "three", "four", "five", "six", "seven", "eight", "nine"][v % 9]);
            let mut open = [false; 3];
            let mut ver = [0usize; 3];
            for step in 0..rng.range(4, 9) {
                let k = rng.below(3);
                let op = if !open.iter().any(|o| *o) || (!open[k] && rng.chance(2, 3)) { "open" } else if !open[k] { continue } else { ["change", "change", "add", "add", "close"][rng.below(5)] };
                match op {
                    "open" => { ver[k] = step; let h = ls.did_open(&uri(k), "plaintext", &text(k, ver[k])); ls.run_to_completion(h, Duration::from_secs(30)); open[k] = true; out.emit(&json!({"ev": "Open", "d": names[k]})); }
                    "change" => { ver[k] += 1; let h = ls.did_change(&uri(k), 10 + step as i64, &text(k, ver[k])); ls.run_to_completion(h, Duration::from_secs(30)); out.emit(&json!({"ev": "Change", "d": names[k]})); }
                    "close" => { let h = ls.did_close(&uri(k)); ls.run_to_completion(h, Duration::from_secs(30)); open[k] = false; out.emit(&json!({"ev": "Close", "d": names[k]})); }
                    _ => { let h = ls.exec("HarperAddToUserDict", json!(["zorbliq", uri(k)])); ls.run_to_completion(h, Duration::from_secs(30)); out.emit(&json!({"ev": "Add", "d": names[k]})); }
                }
                let flagged: Vec<&str> = (0..3).filter(|j| open[*j]).filter(|j| {
                    let d = ls.last_publish(&uri(*j)).cloned().unwrap_or(json!([]));
                    crate::ls::flagged_words(&d, &text(*j, ver[*j])).iter().any(|w| w == "zorbliq")
                }).map(|j| names[j]).collect();
                out.emit(&json!({"ev": "Rest", "flagged": flagged}));
            }
            let _ = std::fs::remove_dir_all(&dir);
        }
    });
    let _ = std::fs::remove_dir_all(&base);
    println!("{}", json!({"events": out.finish()}));
    std::process::exit(0);
}
